import os
import sys


def main():
    from vlib import build
    try:
        build.ensure_deps()
        info = build.ensure_build()
    except Exception as ex:
        print('HARNESS-ERROR build failed: %s' % ex)
        sys.exit(2)
    env = info['env']
    os.execve(build.PY, [build.PY, '-m', 'vlib.driver'] + sys.argv[1:], env)


if __name__ == '__main__':
    main()
