"""Driver: plan shards, run them as crash-contained subprocesses, triage
failures against known_findings.json, write replay files and evidence."""
import argparse
import glob
import hashlib
import importlib
import json
import os
import shutil
import signal
import subprocess
import sys
import time
from concurrent.futures import ThreadPoolExecutor

VERIF = os.path.dirname(os.path.dirname(os.path.abspath(__file__)))
PY = '/venv/bin/python'

CHECKS = {
    'C01': 'c01_nnps', 'C02': 'c02_equations', 'C03': 'c03_groups',
    'C04': 'c04_integrator', 'C05': 'c05_config_independence',
    'C06': 'c06_particle_array', 'C07': 'c07_domain', 'C08': 'c08_kernels',
    'C09': 'c09_conservation', 'C10': 'c10_solver_loop', 'C11': 'c11_output',
    'C12': 'c12_schemes', 'C13': 'c13_linalg', 'C14': 'c14_interpolator',
    'C15': 'c15_riemann', 'C16': 'c16_inlet_outlet', 'C17': 'c17_reorder',
    'C18': 'c18_controller', 'C19': 'c19_timestep', 'C20': 'c20_reject',
}


def log(*a):
    print('[driver]', *a, file=sys.stderr, flush=True)


def load_known(pid):
    p = os.path.join(VERIF, 'known_findings.json')
    if not os.path.exists(p):
        return [], []
    d = json.load(open(p))
    op = [e for e in d.get('open', []) if e['property'] == pid]
    fx = [e for e in d.get('fixed', []) if e['property'] == pid]
    return op, fx


def matches(entry, flat):
    for k, v in entry['match'].items():
        fv = flat.get(k)
        if isinstance(v, list):
            if fv not in v:
                return False
        elif fv != v:
            return False
    return True


def flat_of(f):
    d = dict(f.get('klass') or {})
    d['component'] = f.get('component')
    d['kind'] = f.get('kind')
    return d


class Shard(object):
    def __init__(self, idx, spec, workdir):
        self.idx = idx
        self.spec = spec
        self.specf = os.path.join(workdir, 'shard%03d.spec.json' % idx)
        self.outf = os.path.join(workdir, 'shard%03d.out.json' % idx)
        self.journal = os.path.join(workdir, 'shard%03d.journal' % idx)
        self.logf = os.path.join(workdir, 'shard%03d.log' % idx)
        self.rc = None
        self.result = None
        self.harness_error = None
        self.timed_out = False


def run_worker(pid, tier, seed, shard, env, timeout, mode='shard'):
    json.dump(shard.spec, open(shard.specf, 'w'))
    for f in (shard.outf, shard.journal):
        if os.path.exists(f):
            os.remove(f)
    e = dict(env)
    omp = shard.spec.get('omp') if isinstance(shard.spec, dict) else None
    if omp:
        e['OMP_NUM_THREADS'] = str(omp)
    cmd = [PY, '-X', 'faulthandler', '-m', 'vlib.worker', pid, tier,
           str(seed), mode, shard.specf, shard.outf, shard.journal]
    with open(shard.logf, 'w') as lf:
        try:
            p = subprocess.run(cmd, env=e, cwd=VERIF, stdout=lf,
                               stderr=subprocess.STDOUT, timeout=timeout)
            shard.rc = p.returncode
        except subprocess.TimeoutExpired:
            shard.rc = None
            shard.timed_out = True
    if os.path.exists(shard.outf):
        try:
            shard.result = json.load(open(shard.outf))
        except Exception as ex:
            shard.harness_error = 'unreadable result: %r' % ex
    return shard


def last_journal(shard):
    if not os.path.exists(shard.journal):
        return None
    try:
        with open(shard.journal) as fp:
            lines = [l for l in fp.read().split('\n') if l.strip()]
        return json.loads(lines[-1]) if lines else None
    except Exception:
        return None


def tail(path, n=25):
    try:
        return ''.join(open(path, errors='replace').readlines()[-n:])
    except Exception:
        return ''


def write_replay(pid, f, seed, thash):
    d = os.path.join(VERIF, 'replays', pid, 'found')
    os.makedirs(d, exist_ok=True)
    body = dict(property=pid, component=f.get('component'),
                kind=f.get('kind'), klass=f.get('klass', {}),
                case=f.get('case'), detail=f.get('detail', ''),
                expected=f.get('expected'), observed=f.get('observed'),
                seed=seed, tree_hash=thash)
    s = json.dumps(body, sort_keys=True, indent=1)
    name = hashlib.sha1(json.dumps(
        [body['component'], body['kind'], body['klass'], body['case']],
        sort_keys=True).encode()).hexdigest()[:12] + '.json'
    p = os.path.join(d, name)
    open(p, 'w').write(s)
    return os.path.relpath(p, VERIF)


def validate_evidence(ev):
    try:
        import jsonschema
    except ImportError:
        return None
    sp = os.path.join(VERIF, 'vlib', 'EVIDENCE.schema.json')
    if not os.path.exists(sp):
        sp = '/root/.vp/EVIDENCE.schema.json'
    schema = json.load(open(sp))
    jsonschema.validate(ev, schema)
    return True


def main(argv=None):
    ap = argparse.ArgumentParser()
    ap.add_argument('pid')
    ap.add_argument('--tier', default=os.environ.get('VERIF_TIER', 'quick'))
    ap.add_argument('--replay', default=None)
    ap.add_argument('--jobs', type=int,
                    default=int(os.environ.get('VERIF_JOBS', '16')))
    ap.add_argument('--keep', action='store_true')
    ap.add_argument('--no-evidence', action='store_true')
    ap.add_argument('--only', default=None,
                    help='substring filter on shard names (debugging)')
    args = ap.parse_args(argv)
    pid = args.pid.upper()
    tier = args.tier
    if tier not in ('quick', 'thorough'):
        tier = 'quick'
    try:
        seed = int(os.environ.get('VERIF_SEED', '1'))
    except ValueError:
        seed = 1
    t0 = time.time()
    tree = os.environ['VERIF_TREE']
    from vlib.build import tree_hash, build_root
    thash = tree_hash(tree)
    modname = CHECKS[pid]
    mod = importlib.import_module('checks.' + modname)
    workdir = os.path.join(build_root(), 'work', '%s-%s-%d-%d' % (
        pid, tier, seed, os.getpid()))
    os.makedirs(workdir, exist_ok=True)
    env = dict(os.environ)
    env['VERIF_WORKDIR'] = workdir
    known_open, known_fixed = load_known(pid)
    timeout_shard = getattr(mod, 'SHARD_TIMEOUT', {}).get(
        tier, 1500 if tier == 'quick' else 6 * 3600)

    # ------------------------------------------------------------ replay
    if args.replay:
        rp = json.load(open(args.replay))
        sh = Shard(0, dict(replay=rp), workdir)
        run_worker(pid, tier, seed, sh, env, 1800, mode='replay')
        fails = []
        if sh.result is not None:
            fails = sh.result.get('failures', [])
        elif sh.rc is not None and sh.rc < 0:
            fails = [dict(component=rp.get('component'), kind='crash',
                          klass=rp.get('klass', {}),
                          detail='signal %d' % -sh.rc)]
        else:
            sys.stderr.write(tail(sh.logf))
            print('HARNESS-ERROR property=%s replay worker failed' % pid)
            return 2
        if not args.keep:
            shutil.rmtree(workdir, ignore_errors=True)
        if fails:
            for f in fails:
                print('  %s/%s: %s' % (f.get('component'), f.get('kind'),
                                        str(f.get('detail'))[:300]))
            print('VIOLATION property=%s replay=%s' % (pid, args.replay))
            return 1
        print('replay passes: property=%s %s' % (pid, args.replay))
        return 0

    violations = []      # (failure dict, replay path)
    known_hits = {}      # entry id -> count
    known_lines = []
    harness_errors = []
    regress_run = 0

    # -------------------------------------------- committed replays first
    reps = sorted(glob.glob(os.path.join(VERIF, 'replays', pid, '*.json')))
    rshards = []
    for i, rpath in enumerate(reps):
        rp = json.load(open(rpath))
        sh = Shard(900 + i, dict(replay=rp), workdir)
        sh.rpath = rpath
        rshards.append(sh)
    if rshards:
        with ThreadPoolExecutor(max_workers=args.jobs) as ex:
            list(ex.map(lambda s: run_worker(pid, tier, seed, s, env, 900,
                                             mode='replay'), rshards))
    for sh in rshards:
        regress_run += 1
        rp = sh.spec['replay']
        if sh.result is not None:
            fails = sh.result.get('failures', [])
        elif sh.rc is not None and sh.rc < 0:
            fails = [dict(component=rp.get('component'), kind='crash',
                          klass=rp.get('klass', {}), case=rp.get('case'),
                          detail='signal %d' % -sh.rc)]
        elif sh.timed_out:
            fails = [dict(component=rp.get('component'), kind='hang',
                          klass=rp.get('klass', {}), case=rp.get('case'),
                          detail='replay timed out')]
        else:
            harness_errors.append('replay %s: rc=%s\n%s' % (
                sh.rpath, sh.rc, tail(sh.logf)))
            continue
        for f in fails:
            f.setdefault('case', rp.get('case'))
            ent = [e for e in known_open if matches(e, flat_of(f))]
            if ent:
                e = ent[0]
                if e['id'] not in known_hits:
                    known_lines.append('KNOWN-FINDING: property=%s %s [%s]'
                                       % (pid, e['what'], e['id']))
                known_hits[e['id']] = known_hits.get(e['id'], 0) + 1
            else:
                violations.append((f, os.path.relpath(sh.rpath, VERIF)))

    # ------------------------------------------------------------- shards
    ctx = dict(pid=pid, tier=tier, seed=seed, tree=tree, jobs=args.jobs,
               known_open=known_open)
    specs = mod.plan(ctx)
    if args.only:
        specs = [s for s in specs if args.only in s.get('name', '')]
    shards = [Shard(i, s, workdir) for i, s in enumerate(specs)]
    log('%s %s seed=%d: %d shards, %d replays' % (pid, tier, seed,
                                                 len(shards), len(reps)))
    par = min(args.jobs, getattr(mod, 'MAX_PARALLEL', 16))
    with ThreadPoolExecutor(max_workers=par) as ex:
        list(ex.map(lambda s: run_worker(pid, tier, seed, s, env,
                                         timeout_shard), shards))

    agg = dict(evaluations=0, nontrivial=set(), labels={}, samples=[],
               duplicates=0, skipped=0, inconclusive=0, extra={})
    shard_info = []
    all_fail = []
    for sh in shards:
        name = sh.spec.get('name', str(sh.idx))
        info = dict(name=name, rc=sh.rc)
        res = sh.result
        if res is not None:
            agg['evaluations'] += res.get('evaluations', 0)
            agg['nontrivial'].update(res.get('nontrivial', []))
            for k, v in res.get('labels', {}).items():
                agg['labels'][k] = agg['labels'].get(k, 0) + v
            for s in res.get('samples', []):
                if len(agg['samples']) < 8:
                    agg['samples'].append(s)
            agg['duplicates'] += res.get('duplicates', 0)
            agg['skipped'] += res.get('skipped', 0)
            agg['inconclusive'] += res.get('inconclusive', 0)
            for k, v in res.get('extra', {}).items():
                if isinstance(v, (int, float)) and not isinstance(v, bool):
                    agg['extra'][k] = agg['extra'].get(k, 0) + v
                elif isinstance(v, list):
                    agg['extra'].setdefault(k, [])
                    agg['extra'][k].extend(v)
                elif isinstance(v, dict):
                    agg['extra'].setdefault(k, {})
                    agg['extra'][k].update(v)
                else:
                    agg['extra'][k] = v
            info['evaluations'] = res.get('evaluations', 0)
            info['failures'] = len(res.get('failures', []))
            all_fail.extend(res.get('failures', []))
            if res.get('harness_error'):
                harness_errors.append('shard %s: %s' % (
                    name, res['harness_error']))
        if sh.timed_out:
            agg['inconclusive'] += 1
            info['timed_out'] = True
            log('shard %s hit the harness time budget (inconclusive)'
                % name)
        elif sh.rc is not None and sh.rc < 0:
            case = last_journal(sh)
            f = dict(component=sh.spec.get('component', name), kind='crash',
                     klass=dict(sh.spec.get('klass', {})),
                     detail='worker died on signal %d\n%s' % (
                         -sh.rc, tail(sh.logf, 12)), case=case)
            if isinstance(case, dict) and isinstance(case.get('_klass'),
                                                     dict):
                f['klass'].update(case['_klass'])
            all_fail.append(f)
            info['crashed'] = -sh.rc
        elif res is None:
            harness_errors.append('shard %s: rc=%s\n%s' % (
                name, sh.rc, tail(sh.logf)))
        shard_info.append(info)

    seen_sig = set()
    for f in all_fail:
        sig = json.dumps(flat_of(f), sort_keys=True, default=str)
        ent = [e for e in known_open if matches(e, flat_of(f))]
        if not ent:
            if sig in seen_sig:
                continue
            seen_sig.add(sig)
        if ent:
            e = ent[0]
            if e['id'] not in known_hits:
                known_lines.append('KNOWN-FINDING: property=%s %s [%s]' % (
                    pid, e['what'], e['id']))
            known_hits[e['id']] = known_hits.get(e['id'], 0) + 1
        else:
            violations.append((f, write_replay(pid, f, seed, thash)))

    # essential labels
    missing = []
    ess = getattr(mod, 'ESSENTIAL_LABELS', {})
    ess = ess.get(tier, ess.get('all', [])) if isinstance(ess, dict) else ess
    if not args.only:
        for l in ess:
            if agg['labels'].get(l, 0) == 0:
                missing.append(l)
    if missing:
        harness_errors.append('essential generator classes never produced: '
                              + ', '.join(missing))

    # ----------------------------------------------------------- evidence
    wall = time.time() - t0
    samples = agg['samples'] or []
    cov = dict(
        evaluations=agg['evaluations'] + regress_run,
        distinct_nontrivial=len(agg['nontrivial']),
        rule=getattr(mod, 'RULE', ''),
        samples=samples,
        labels=dict(sorted(agg['labels'].items())),
        shards=shard_info,
        regression_replays=regress_run,
        duplicates_of_masked_failures=agg['duplicates'],
        excluded_known=dict(known_hits),
        skipped=agg['skipped'],
        inconclusive=agg['inconclusive'],
        tree_hash=thash,
        exhaustive=bool(getattr(mod, 'EXHAUSTIVE', {}).get(tier, False)
                        if isinstance(getattr(mod, 'EXHAUSTIVE', None), dict)
                        else False),
    )
    cov.update({k: v for k, v in agg['extra'].items()})
    ev = dict(property_id=pid, tier=tier, seed=seed, level='exploration',
              coverage=cov,
              assumptions=list(getattr(mod, 'ASSUMPTIONS', [])),
              wall_s=round(wall, 2), violations=len(violations))
    if harness_errors:
        ev['coverage']['harness_errors'] = [h[:500] for h in harness_errors]
    evpath = os.path.join(VERIF, 'evidence', pid + '.json')
    ok_schema = True
    if not args.no_evidence and not args.only:
        os.makedirs(os.path.dirname(evpath), exist_ok=True)
        try:
            validate_evidence(ev)
        except Exception as ex:
            ok_schema = False
            harness_errors.append('evidence does not validate: %s'
                                  % str(ex)[:400])
        json.dump(ev, open(evpath, 'w'), indent=1, sort_keys=True,
                  default=str)

    for l in known_lines:
        print(l)
    for f, rpath in violations:
        print('  %s/%s %s: %s' % (f.get('component'), f.get('kind'),
                                  json.dumps(f.get('klass', {}),
                                             sort_keys=True),
                                  str(f.get('detail'))[:400].replace(
                                      '\n', ' | ')))
        print('VIOLATION property=%s replay=%s' % (pid, rpath))
    print('%s %s seed=%d: %d cases, %d distinct non-trivial, %d violations,'
          ' %d known, %.0fs' % (pid, tier, seed, cov['evaluations'],
                                cov['distinct_nontrivial'], len(violations),
                                sum(known_hits.values()), wall))
    if not args.keep:
        shutil.rmtree(workdir, ignore_errors=True)
    if violations:
        return 1
    if harness_errors:
        for h in harness_errors:
            print('HARNESS-ERROR property=%s %s' % (pid, h[:3000]))
        return 2
    return 0


if __name__ == '__main__':
    sys.exit(main())
