"""Deterministic thread scheduler and a `threading` shim built on it.

Used by C18.  The code under test is re-loaded from source with its
`threading` / `_thread` imports redirected to the namespace returned by
`Scheduler.shim()`.  Virtual threads are real Python threads, but they are
gated by a baton so that exactly one runs at a time; the harness decides, at
every *scheduling point*, which thread runs next.

Scheduling points: immediately before every Lock / RLock / Condition
acquire, release, wait, notify, notify_all, Thread.start, Thread.join, an
explicit `yield_()` and at thread end.  The operation itself then executes
atomically when the thread is next chosen.  Blocking is *modelled*: a thread
that cannot take a lock, or that waits on a condition, is marked blocked on
the identity of that lock / condition and is not runnable until a release /
notify on the same object makes it runnable again.

The schedule is a list of integers.  A choice is consumed only when more than
one thread is runnable: choice c picks runnable[c % len(runnable)] (threads in
creation order).  When the list is exhausted the *tail policy* applies:
  'rr'    round-robin: the next runnable thread after the one that ran last;
  'stay'  keep running the current thread until it blocks, ends or yields
          (a yield hands over to the next other runnable thread).
`Scheduler.trace` records, for every consumed or defaulted choice, the tuple
(n_runnable, chosen, default_under_stay, kind, index_of_current_or_-1) with
kind 'pre' (current thread runnable: choosing another is a preemption), 'free'
(current thread blocked or finished) or 'yield'; `Scheduler.choices()` is the
explicit schedule that reproduces the run under any tail policy.

A state with no runnable thread and some thread unfinished is a deadlock:
all threads are aborted (SchedAbort is raised inside them) and
`Scheduler.status == 'deadlock'`, `Scheduler.blocked_info()` describes who
waits where.  More than `max_steps` scheduling points -> status 'livelock'.
"""
import ast
import sys
import threading as _rt
import traceback
import types

NEW, RUNNABLE, BLOCKED, FINISHED = 'new', 'runnable', 'blocked', 'finished'


class SchedAbort(BaseException):
    """Raised inside virtual threads when the run is torn down."""


class HarnessError(Exception):
    pass


class VThread(object):
    """Shim for threading.Thread (bound to a scheduler by subclassing)."""
    _sched = None

    def __init__(self, group=None, target=None, name=None, args=(),
                 kwargs=None, daemon=None):
        s = self._sched
        self._target = target
        self._args = tuple(args)
        self._kwargs = dict(kwargs or {})
        self.index = None
        self.name = name or 'Thread-?'
        self.role = None
        self.daemon = bool(daemon)
        self.state = NEW
        self.blocked = None     # dict(obj, op, site, prim) while blocked
        self.timed = False
        self.exc = None
        self.exc_tb = None
        self.ident = None
        self.go = _rt.Semaphore(0)
        self.real = None
        self.activity = 0
        self.joiners = []
        s._register(self)

    # -- threading.Thread API
    def start(self):
        s = self._sched
        if self.state != NEW:
            raise RuntimeError('threads can only be started once')
        me = s.me()
        s.point(me, None, 'start')
        self._launch()

    def _launch(self):
        self.state = RUNNABLE
        self.real = _rt.Thread(target=self._boot, daemon=True,
                               name='v-' + self.name)
        self.real.start()

    def run(self):
        if self._target is not None:
            self._target(*self._args, **self._kwargs)

    def join(self, timeout=None):
        s = self._sched
        me = s.me()
        s.point(me, self, 'join')
        while self.state != FINISHED:
            if timeout is not None:
                return
            self.joiners.append(me)
            s.block(me, self, 'join')
        return

    def is_alive(self):
        return self.state in (RUNNABLE, BLOCKED)

    isAlive = is_alive

    def getName(self):
        return self.name

    def setDaemon(self, d):
        self.daemon = d

    # -- internals
    def _boot(self):
        s = self._sched
        self.go.acquire()
        s._by_real[_rt.get_ident()] = self
        try:
            if s.aborted:
                raise SchedAbort()
            self.run()
        except SchedAbort:
            pass
        except BaseException as ex:        # noqa
            if not s.aborted:
                self.exc = ex
                self.exc_tb = traceback.format_exc()
        finally:
            self.state = FINISHED
            self.blocked = None
            for j in self.joiners:
                if j.state == BLOCKED:
                    j.state = RUNNABLE
            self.joiners = []
            s._thread_end(self)


def _site(sched):
    """function name / line of the innermost frame of the code under test."""
    f = sys._getframe(2)
    first = None
    while f is not None:
        g = f.f_globals
        if id(g) in sched.user_globals:
            return f.f_code.co_name, f.f_lineno
        if first is None and g.get('__name__') != __name__:
            first = (f.f_code.co_name, f.f_lineno)
        f = f.f_back
    return first or ('?', 0)


class VLock(object):
    """Shim for the object returned by threading.Lock()."""
    _sched = None
    _kind = 'Lock'

    def __init__(self):
        s = self._sched
        self.owner = None
        self.count = 0
        fn, ln = _site(s) if s is not None else ('?', 0)
        self.name = '%s[%s]' % (self._kind, fn)

    def _free(self, me):
        return self.owner is None

    def acquire(self, blocking=True, timeout=-1):
        s = self._sched
        me = s.me()
        s.point(me, self, 'acquire')
        while not self._free(me):
            if not blocking or (timeout is not None and timeout >= 0):
                return False
            s.block(me, self, 'acquire')
        self._take(me)
        return True

    def _take(self, me):
        self.owner = me
        self.count = 1

    def release(self):
        s = self._sched
        if s.aborted:
            return
        me = s.me()
        s.point(me, self, 'release')
        if self.owner is None:
            raise RuntimeError('release unlocked lock')
        self._drop()

    def _drop(self):
        self.owner = None
        self.count = 0
        self._sched.wake(self, 'acquire')

    def locked(self):
        return self.owner is not None

    def __enter__(self):
        self.acquire()
        return True

    def __exit__(self, *a):
        self.release()

    # used by VCondition
    def _is_owned(self, me):
        return self.owner is not None

    def _release_save(self):
        st = (self.owner, self.count)
        self._drop()
        return st

    def _acquire_restore(self, me, st):
        s = self._sched
        while self.owner is not None:
            s.block(me, self, 'acquire', label='wait(reacquire)')
        self.owner, self.count = me, st[1]


class VRLock(VLock):
    _kind = 'RLock'

    def _free(self, me):
        return self.owner is None or self.owner is me

    def _take(self, me):
        self.owner = me
        self.count += 1

    def release(self):
        s = self._sched
        if s.aborted:
            return
        me = s.me()
        s.point(me, self, 'release')
        if self.owner is not me:
            raise RuntimeError('cannot release un-acquired lock')
        self.count -= 1
        if self.count == 0:
            self._drop()

    def _is_owned(self, me):
        return self.owner is me


class VCondition(object):
    _sched = None
    _kind = 'Condition'

    def __init__(self, lock=None):
        s = self._sched
        fn, ln = _site(s)
        self.name = '%s[%s]' % (self._kind, fn)
        if lock is None:
            lock = s._RLock()
            lock.name = self.name
        self._lock = lock
        self.waiters = []

    def set_name(self, name):
        self.name = name
        self._lock.name = name

    def acquire(self, *a, **k):
        return self._lock.acquire(*a, **k)

    def release(self):
        return self._lock.release()

    def __enter__(self):
        return self._lock.__enter__()

    def __exit__(self, *a):
        return self._lock.__exit__(*a)

    def wait(self, timeout=None):
        s = self._sched
        me = s.me()
        if not self._lock._is_owned(me):
            raise RuntimeError('cannot wait on un-acquired lock')
        s.point(me, self, 'wait')
        st = self._lock._release_save()
        self.waiters.append(me)
        me.timed = timeout is not None
        try:
            s.block(me, self, 'wait')
        finally:
            me.timed = False
        notified = me not in self.waiters
        if not notified:
            self.waiters.remove(me)
        self._lock._acquire_restore(me, st)
        return notified

    def wait_for(self, predicate, timeout=None):
        r = predicate()
        while not r:
            self.wait(timeout)
            r = predicate()
            if timeout is not None:
                break
        return r

    def notify(self, n=1):
        s = self._sched
        if s.aborted:
            return
        me = s.me()
        if not self._lock._is_owned(me):
            raise RuntimeError('cannot notify on un-acquired lock')
        s.point(me, self, 'notify')
        for t in self.waiters[:n]:
            self.waiters.remove(t)
            if t.state == BLOCKED:
                t.state = RUNNABLE
            s.notified.append((me.name, t.name, self.name))

    def notify_all(self):
        self.notify(len(self.waiters) + 1)

    notifyAll = notify_all


class VEvent(object):
    _sched = None

    def __init__(self):
        self._cond = self._sched._Condition(self._sched._Lock())
        self._flag = False

    def is_set(self):
        return self._flag

    isSet = is_set

    def set(self):
        with self._cond:
            self._flag = True
            self._cond.notify_all()

    def clear(self):
        with self._cond:
            self._flag = False

    def wait(self, timeout=None):
        with self._cond:
            if not self._flag:
                self._cond.wait(timeout)
            return self._flag


class _Main(object):
    """Stands for any real thread that is not a virtual one."""
    name = 'harness'
    role = 'harness'
    ident = 1
    index = -1
    state = RUNNABLE
    daemon = False


class Scheduler(object):
    def __init__(self, schedule=(), tail='rr', max_steps=4000):
        self.schedule = list(schedule)
        self.tail = tail
        self.max_steps = max_steps
        self.pos = 0
        self.steps = 0
        self.threads = []
        self.trace = []
        self.order = []          # name of the thread run at each point
        self.notified = []
        self.ops = []            # (step, thread, object name, op) executed
        self.status = None       # ok | deadlock | livelock | harness
        self.aborted = False
        self.running = None
        self.last = None
        self.user_globals = set()
        self.contention = []     # (waiter, owner, lockname)
        self._by_real = {}
        self._done = _rt.Event()
        self._main = _Main()
        self._blocked_snapshot = None
        self.preemptions = 0
        self.switches = 0
        self.monitor = None      # called at every scheduling point

        class Thread(VThread):
            _sched = self

        class Lock(VLock):
            _sched = self

        class RLock(VRLock):
            _sched = self

        class Condition(VCondition):
            _sched = self

        class Event(VEvent):
            _sched = self
        self._Thread, self._Lock, self._RLock = Thread, Lock, RLock
        self._Condition, self._Event = Condition, Event

    # ---------------------------------------------------------------- shim
    def shim(self):
        m = types.ModuleType('threading')
        m.Thread = self._Thread
        m.Lock = self._Lock
        m.LockType = self._Lock
        m.allocate_lock = self._Lock
        m.RLock = self._RLock
        m.Condition = self._Condition
        m.Event = self._Event
        m.current_thread = self.me
        m.currentThread = self.me
        m.get_ident = lambda: self.me().ident
        m.main_thread = lambda: self._main
        m.enumerate = lambda: [t for t in self.threads if t.is_alive()]
        m.active_count = lambda: len(m.enumerate())
        m.error = RuntimeError
        m.ThreadError = RuntimeError
        m.TIMEOUT_MAX = _rt.TIMEOUT_MAX
        return m

    # ------------------------------------------------------------- threads
    def _register(self, t):
        t.index = len(self.threads)
        t.ident = 1000 + t.index
        if t.name == 'Thread-?':
            t.name = 'T%d' % t.index
        self.threads.append(t)

    def spawn(self, target, name, role=None, args=()):
        """Create a root virtual thread (no parent scheduling point)."""
        t = self._Thread(target=target, name=name, args=args)
        t.role = role
        return t

    def me(self):
        t = self._by_real.get(_rt.get_ident())
        if t is None:
            return self._main
        return t

    def run(self, roots, timeout=120.0):
        """Start the root threads, run to completion; returns status."""
        for t in roots:
            t._launch()
        self._pick(None, 'free')
        if not self._done.wait(timeout):
            self.status = 'harness'
            self.aborted = True
        for t in self.threads:
            if t.real is not None:
                if self.aborted:
                    t.go.release()
                t.real.join(10.0)
                if t.real.is_alive() and self.status != 'harness':
                    self.status = 'harness'
        return self.status

    # ---------------------------------------------------- scheduling points
    def point(self, me, obj, op):
        """Scheduling point before a visible operation of thread `me`."""
        if self.aborted:
            raise SchedAbort()
        if me is self._main:
            return
        self._pick(me, 'pre')
        self.ops.append((len(self.order), me.name,
                         getattr(obj, 'name', None), op))

    def yield_(self):
        if self.aborted:
            raise SchedAbort()
        me = self.me()
        if me is self._main:
            return
        self._pick(me, 'yield')

    def block(self, me, obj, op, label=None):
        """Mark `me` blocked on (obj, op) and run someone else; returns when
        `me` has been made runnable again and was chosen."""
        if self.aborted:
            raise SchedAbort()
        if me is self._main:
            raise HarnessError('the harness thread would block on %s.%s' % (
                getattr(obj, 'name', obj), op))
        fn, ln = _site(self)
        site = (fn, ln, '%s.%s' % (getattr(obj, 'name', '?'), label or op))
        owner = getattr(obj, 'owner', None) if op == 'acquire' else None
        if op == 'join':
            owner = obj
        me.blocked = dict(obj=obj, op=op, site=site, owner=owner)
        if op == 'acquire' and owner is not None:
            self.contention.append((me.name, owner.name,
                                    getattr(obj, 'name', '?')))
        me.state = RUNNABLE if me.timed else BLOCKED
        try:
            self._pick(me, 'free' if not me.timed else 'pre')
        finally:
            me.blocked = None

    def wake(self, obj, op):
        for t in self.threads:
            b = t.blocked
            if t.state == BLOCKED and b is not None and b['obj'] is obj \
                    and b['op'] == op:
                t.state = RUNNABLE

    def _thread_end(self, me):
        if self.aborted:
            return
        self._pick(me, 'free')

    def _abort(self, status):
        self.status = status
        self._blocked_snapshot = self._blocked_now()
        self.aborted = True
        self._done.set()

    def _pick(self, me, kind):
        """Choose the next thread to run and hand the baton over."""
        self.steps += 1
        if self.monitor is not None and not self.aborted:
            self.monitor()
        R = [t for t in self.threads if t.state == RUNNABLE]
        if not R:
            if all(t.state in (FINISHED, NEW) for t in self.threads):
                self.status = 'ok'
                self._done.set()
                return
            self._abort('deadlock')
            if me is not None and me.state != FINISHED:
                raise SchedAbort()
            return
        if self.steps > self.max_steps:
            self._abort('livelock')
            if me is not None and me.state != FINISHED:
                raise SchedAbort()
            return
        n = len(R)
        if n == 1:
            nxt = R[0]
        else:
            # default under the 'stay' policy
            if kind == 'pre' and me in R:
                dflt = R.index(me)
            else:
                dflt = self._after(R, me)
            if self.pos < len(self.schedule):
                c = self.schedule[self.pos] % n
                self.pos += 1
            elif self.tail == 'stay':
                c = dflt
            else:
                c = self._after(R, self.last)
            self.trace.append((n, c, dflt, kind,
                               R.index(me) if me in R else -1))
            nxt = R[c]
            if kind == 'pre' and nxt is not me:
                self.preemptions += 1
        if nxt is not self.last:
            self.switches += 1
        self.last = nxt
        nxt.activity += 1
        self.order.append(nxt.name)
        if nxt is me:
            return
        self.running = nxt
        nxt.go.release()
        if me is not None and me.state != FINISHED:
            me.go.acquire()
            if self.aborted:
                raise SchedAbort()

    @staticmethod
    def _after(R, t):
        """index in R of the first thread after t in cyclic creation order
        (t itself excluded unless it is the only one)."""
        if t is None:
            return 0
        for i, r in enumerate(R):
            if r.index > t.index:
                return i
        return 0

    # ---------------------------------------------------------- inspection
    def choices(self):
        return [t[1] for t in self.trace]

    def _blocked_now(self):
        out = []
        for t in self.threads:
            if t.state == BLOCKED and t.blocked is not None:
                b = t.blocked
                fn, ln, prim = b['site']
                out.append(dict(thread=t.name, role=t.role or t.name,
                                function=fn, lineno=ln, prim=prim,
                                op=b['op'],
                                obj=getattr(b['obj'], 'name', '?'),
                                owner=(b['owner'].name
                                       if b['owner'] is not None else None)))
        return out

    def blocked_info(self):
        if self._blocked_snapshot is not None:
            return self._blocked_snapshot
        return self._blocked_now()

    def activity_except(self, t):
        return sum(x.activity for x in self.threads if x is not t)



# ------------------------------------------------------------------ loader
_THREAD_MODS = ('threading', '_thread', 'thread')


class _Rewrite(ast.NodeTransformer):
    """`import threading` / `from _thread import X` -> bindings to the shim
    (the name __vthreading__ is injected into the module namespace)."""

    def __init__(self):
        self.count = 0

    def visit_Import(self, node):
        keep, new = [], []
        for a in node.names:
            if a.name.split('.')[0] in _THREAD_MODS:
                self.count += 1
                tgt = a.asname or a.name.split('.')[0]
                new.append(ast.Assign(
                    targets=[ast.Name(id=tgt, ctx=ast.Store())],
                    value=ast.Name(id='__vthreading__', ctx=ast.Load())))
            else:
                keep.append(a)
        out = []
        if keep:
            out.append(ast.Import(names=keep))
        out.extend(new)
        for o in out:
            ast.copy_location(o, node)
            ast.fix_missing_locations(o)
        return out

    def visit_ImportFrom(self, node):
        if node.module and node.module.split('.')[0] in _THREAD_MODS \
                and not node.level:
            self.count += 1
            out = []
            for a in node.names:
                tgt = a.asname or a.name
                out.append(ast.Assign(
                    targets=[ast.Name(id=tgt, ctx=ast.Store())],
                    value=ast.Attribute(
                        value=ast.Name(id='__vthreading__', ctx=ast.Load()),
                        attr=a.name, ctx=ast.Load())))
            for o in out:
                ast.copy_location(o, node)
                ast.fix_missing_locations(o)
            return out
        return node


_code_cache = {}


def compile_with_shim(path):
    """Compile the module source at `path` with its threading imports
    rewritten; line numbers are those of the file.  Cached per path."""
    if path in _code_cache:
        return _code_cache[path]
    src = open(path).read()
    tree = ast.parse(src, filename=path)
    rw = _Rewrite()
    tree = rw.visit(tree)
    ast.fix_missing_locations(tree)
    if rw.count == 0:
        raise HarnessError('%s has no threading import to rewrite' % path)
    code = compile(tree, path, 'exec')
    _code_cache[path] = (code, rw.count)
    return _code_cache[path]


def load_with_shim(path, modname, sched):
    """Execute a fresh copy of the module at `path` bound to `sched`."""
    code, _ = compile_with_shim(path)
    mod = types.ModuleType(modname)
    mod.__file__ = path
    mod.__package__ = modname.rpartition('.')[0]
    shim = sched.shim()
    mod.__dict__['__vthreading__'] = shim
    sched.user_globals.add(id(mod.__dict__))
    exec(code, mod.__dict__)
    for k in ('threading',):
        if k in mod.__dict__ and mod.__dict__[k] is not shim:
            raise HarnessError('module still bound to the real threading')
    return mod
