"""Hypothesis driver with collect-then-shrink and signature masking.

search(strategy, execute, seed, max_examples, stats, ...) runs Hypothesis
until the budget is used.  `execute(case)` must return an Outcome.  A failing
outcome whose signature is not masked stops the current round, Hypothesis
shrinks it, the shrunk case is saved, its signature is masked and the search
continues with the rest of the budget, so that several root causes can be
found in one run and a known finding does not hide what lies behind it.
"""
import hashlib
import json
import os
import zlib

import hypothesis
from hypothesis import HealthCheck, Phase, given, settings


def canon(case):
    return json.dumps(case, sort_keys=True, separators=(',', ':'),
                      default=_default)


def _default(o):
    try:
        import numpy as np
        if isinstance(o, np.ndarray):
            return o.tolist()
        if isinstance(o, np.generic):
            return o.item()
    except ImportError:
        pass
    if isinstance(o, (set, frozenset)):
        return sorted(o)
    if isinstance(o, tuple):
        return list(o)
    return repr(o)


def case_hash(case):
    return hashlib.sha1(canon(case).encode()).hexdigest()[:14]


def derive_seed(*parts):
    return zlib.crc32(repr(parts).encode()) & 0x7fffffff


class Failure(object):
    def __init__(self, component, kind, detail='', klass=None,
                 expected=None, observed=None):
        self.component = component
        self.kind = kind
        self.detail = detail
        self.klass = dict(klass or {})
        self.expected = expected
        self.observed = observed

    def flat(self):
        d = dict(self.klass)
        d['component'] = self.component
        d['kind'] = self.kind
        return d

    def sig(self):
        return canon(self.flat())

    def as_dict(self, case=None):
        d = dict(component=self.component, kind=self.kind,
                 klass=self.klass, detail=str(self.detail)[:2000])
        if self.expected is not None:
            d['expected'] = _trim(self.expected)
        if self.observed is not None:
            d['observed'] = _trim(self.observed)
        if case is not None:
            d['case'] = json.loads(canon(case))
        return d


def _trim(x):
    s = x if isinstance(x, str) else canon(x)
    return s[:2000]


class Outcome(object):
    """Result of executing one generated case."""

    def __init__(self, failures=(), labels=(), nontrivial=False,
                 skipped=False, inconclusive=False):
        self.failures = list(failures)
        self.labels = list(labels)
        self.nontrivial = nontrivial
        self.skipped = skipped
        self.inconclusive = inconclusive


class Stats(object):
    def __init__(self, max_samples=6):
        self.evaluations = 0
        self.nontrivial = set()
        self.labels = {}
        self.samples = []
        self.sample_labels = set()
        self.failures = []      # list of dicts (with case)
        self.masked = set()
        self.duplicates = 0
        self.skipped = 0
        self.inconclusive = 0
        self.max_samples = max_samples
        self.extra = {}

    def label(self, name, n=1):
        self.labels[name] = self.labels.get(name, 0) + n

    def record(self, case, out):
        self.evaluations += 1
        if out.skipped:
            self.skipped += 1
        if out.inconclusive:
            self.inconclusive += 1
        for l in out.labels:
            self.label(l)
        if out.nontrivial:
            self.nontrivial.add(case_hash(case))
            # keep a few samples: first ones, then one per new label
            new = [l for l in out.labels if l not in self.sample_labels]
            if len(self.samples) < 2 or (
                    new and len(self.samples) < self.max_samples):
                s = json.loads(canon(case))
                self.samples.append(s)
                self.sample_labels.update(out.labels)

    def result(self):
        return dict(evaluations=self.evaluations,
                    nontrivial=sorted(self.nontrivial),
                    labels=self.labels, samples=self.samples,
                    failures=self.failures, duplicates=self.duplicates,
                    skipped=self.skipped, inconclusive=self.inconclusive,
                    extra=self.extra)


class _Fail(Exception):
    pass


def search(strategy, execute, seed, max_examples, stats, shrink=True,
           max_rounds=8, journal=None, stateful=False):
    """Run Hypothesis over `strategy`; see module docstring."""
    round_no = 0
    phases = [Phase.generate]
    if shrink:
        phases.append(Phase.shrink)
    while round_no < max_rounds:
        remaining = max_examples - stats.evaluations
        if remaining <= 0:
            break
        holder = {}

        def body(case):
            if journal is not None:
                journal(case)
            out = execute(case)
            stats.record(case, out)
            bad = [f for f in out.failures if f.sig() not in stats.masked]
            if out.failures and not bad:
                stats.duplicates += 1
            if bad:
                holder['last'] = (case, bad)
                raise _Fail(bad[0].sig())

        test = given(strategy)(body)
        test = settings(
            max_examples=remaining, database=None, deadline=None,
            derandomize=False, report_multiple_bugs=False,
            phases=phases, print_blob=False,
            suppress_health_check=[HealthCheck.too_slow,
                                   HealthCheck.data_too_large,
                                   HealthCheck.large_base_example],
        )(test)
        test = hypothesis.seed(derive_seed(seed, round_no))(test)
        try:
            test()
        except _Fail:
            case, bad = holder['last']
            for f in bad:
                stats.failures.append(f.as_dict(case))
                stats.masked.add(f.sig())
        else:
            break
        round_no += 1
    return stats
