"""Catalogue of the Equation / IntegratorStep / Integrator classes shipped
under pysph.sph: discovery, instantiation from the __init__ signature and
inference of the particle-array layout an equation needs (by a recording dry
run of the reference interpreter on elastic proxies)."""
import ast
import importlib
import inspect
import pkgutil
import textwrap

import numpy as np

INT_PROPS = {'orig_idx': 'int', 'row_idx': 'int', 'col_idx': 'int',
             'parent_idx': 'int', 'ctr': 'int', 'closest_idx': 'int',
             'body_id': 'int', 'neartag': 'int', 'interior': 'int',
             'filter': 'int', 'tag': 'int', 'pid': 'int',
             'gid': 'unsigned int', 'ioid': 'int', 'disp_allowed': 'int',
             'is_boundary': 'int', 'idx': 'int', 'nbr_idx': 'int',
             'iters': 'int', 'num_body': 'int'}
POSITIVE = ('m', 'rho', 'h', 'V', 'cs', 'rho0', 'h0', 'm_mat', 'rhop', 'arho',
            'e', 'p', 'wij', 'rho_ref', 'vol', 'wdeltap', 'n', 'G', 'sigma',
            'alpha', 'div', 'omega', 'dw', 'grhox', 'rad_s', 'total_mass',
            'aii', 'wij_sum', 'sum_wij', 'rho_adv', 'V0', 'rho_fsi', 'm_fsi',
            'vmag', 'vmag2', 'alpha1', 'alpha2', 'number_density', 'pavg',
            'nnbr', 'E', 'nu', 'youngs_mod', 'shear_mod', 'J2', 'J', 'gamma')
HOOKS = ('initialize', 'initialize_pair', 'loop_all', 'loop', 'post_loop')


def walk(base='pysph.sph'):
    pkg = importlib.import_module(base)
    mods = [pkg]
    for m in pkgutil.walk_packages(pkg.__path__, base + '.'):
        if '.tests' in m.name or 'gpu' in m.name.split('.')[-1]:
            continue
        try:
            mods.append(importlib.import_module(m.name))
        except Exception:
            continue
    return mods


def equation_classes():
    from pysph.sph.equation import Equation
    seen = {}
    for m in walk():
        for name, obj in sorted(vars(m).items()):
            if inspect.isclass(obj) and issubclass(obj, Equation) and \
                    obj is not Equation and obj.__module__ == m.__name__:
                seen[obj.__module__ + '.' + obj.__name__] = obj
    return dict(sorted(seen.items()))


def stepper_classes():
    from pysph.sph.integrator_step import IntegratorStep
    seen = {}
    for m in walk():
        for name, obj in sorted(vars(m).items()):
            if inspect.isclass(obj) and issubclass(obj, IntegratorStep) and \
                    obj is not IntegratorStep and \
                    obj.__module__ == m.__name__:
                seen[obj.__module__ + '.' + obj.__name__] = obj
    return dict(sorted(seen.items()))


def integrator_classes():
    from pysph.sph.integrator import Integrator
    seen = {}
    for m in walk():
        for name, obj in sorted(vars(m).items()):
            if inspect.isclass(obj) and issubclass(obj, Integrator) and \
                    obj.__module__ == m.__name__:
                seen[obj.__module__ + '.' + obj.__name__] = obj
    return dict(sorted(seen.items()))


OVERRIDES = {
    # class name -> kwargs
    'MonaghanKajtarBoundaryForce': dict(K=1.0, beta=1.5, h=0.4),
}


def guess_arg(name, dim, variant=0):
    pos = [1.0, 1.5, 0.5][variant % 3]
    low = name.lower()
    if name == 'dim':
        return dim
    if low in ('gx', 'gy', 'gz', 'fx', 'fy', 'fz', 'ax', 'ay', 'az', 'u0',
               'v0', 'w0', 'ux', 'uy', 'uz', 'vx', 'vy', 'vz'):
        return [0.25, -0.5, 0.75][variant % 3]
    if 'gamma' in low:
        return 1.4
    if low in ('c0', 'co', 'cs', 'c_ref'):
        return 10.0
    if low.startswith('n') and low in ('n', 'nx', 'ny', 'nz'):
        return 1.0
    return pos


def has_alt(cls):
    """Does the constructor have options the `alt` instantiation changes?"""
    try:
        sig = inspect.signature(cls.__init__)
    except (TypeError, ValueError):
        return False
    for pname, p in list(sig.parameters.items())[1:]:
        if pname in ('dest', 'sources', 'dim'):
            continue
        if type(p.default) is bool or (type(p.default) is float and
                                       p.default == 0.0):
            return True
    return False


def instantiate(cls, dest, sources, dim, variant=0, alt=False):
    """-> (object, None) or (None, reason).  alt: the other value of every
    boolean option and 0.375 for every float option that defaults to 0.0
    (options that switch whole terms of the formula on)."""
    sig = inspect.signature(cls.__init__)
    kw = {}
    for pname, p in list(sig.parameters.items())[1:]:
        if pname == 'dest':
            kw[pname] = dest
        elif pname == 'sources':
            kw[pname] = sources
        elif p.kind in (p.VAR_POSITIONAL, p.VAR_KEYWORD):
            continue
        elif pname == 'dim':
            kw[pname] = dim
        elif p.default is not inspect.Parameter.empty:
            if alt and type(p.default) is bool:
                kw[pname] = not p.default
            elif alt and type(p.default) is float and p.default == 0.0:
                kw[pname] = 0.375
            continue
        else:
            kw[pname] = guess_arg(pname, dim, variant)
    kw.update(OVERRIDES.get(cls.__name__, {}))
    try:
        return cls(**kw), None
    except Exception as ex:
        return None, 'cannot instantiate: %r' % (ex,)


def hook_args(obj):
    out = {}
    for h in HOOKS:
        m = getattr(obj, h, None)
        if m is not None:
            out[h] = [a for a in inspect.signature(m).parameters
                      if a != 'self']
    return out


def array_names(obj):
    """(dest props, source props) named explicitly in hook signatures."""
    d, s = set(), set()
    for args in hook_args(obj).values():
        for a in args:
            if a.startswith('d_') and a != 'd_idx':
                d.add(a[2:])
            elif a.startswith('s_') and a != 's_idx':
                s.add(a[2:])
    return d, s


def uses_only_arithmetic(obj):
    """True when the hook methods (and helpers) contain only + - * /,
    comparisons, sqrt, abs/fabs, max, min: results must then agree
    bitwise between Python and C."""
    ok = {'sqrt', 'abs', 'fabs', 'max', 'min', 'declare', 'range', 'float',
          'int'}
    srcs = []
    for h in HOOKS + ('reduce', 'converged'):
        m = getattr(obj, h, None)
        if m is not None:
            try:
                srcs.append(textwrap.dedent(inspect.getsource(m)))
            except Exception:
                return False
    if hasattr(obj, '_get_helpers_'):
        try:
            for f in obj._get_helpers_():
                srcs.append(textwrap.dedent(inspect.getsource(f)))
        except Exception:
            return False
    if hasattr(obj, '_cython_code_'):
        return False
    for src in srcs:
        try:
            tree = ast.parse(src)
        except SyntaxError:
            return False
        for node in ast.walk(tree):
            if isinstance(node, ast.Pow):
                return False
            if isinstance(node, ast.Call):
                f = node.func
                if isinstance(f, ast.Name):
                    if f.id not in ok:
                        # helper functions declared by _get_helpers_ are
                        # scanned themselves
                        helpers = [g.__name__ for g in
                                   (obj._get_helpers_()
                                    if hasattr(obj, '_get_helpers_') else [])]
                        if f.id not in helpers:
                            return False
                elif isinstance(f, ast.Attribute):
                    # SPH_KERNEL.kernel(...) etc: depends on the kernel
                    if not (isinstance(f.value, ast.Name) and
                            f.value.id == 'SPH_KERNEL'):
                        return False
    return True


KERNEL_ARITH = {'CubicSpline', 'QuinticSpline', 'WendlandQuintic',
                'WendlandQuinticC4', 'WendlandQuinticC6',
                'WendlandQuinticC2_1D', 'WendlandQuinticC4_1D',
                'WendlandQuinticC6_1D'}


# ---------------------------------------------------------------- layouts
class Elastic(object):
    """Proxy accepting any non-negative index; logs the largest one."""

    def __init__(self, name, rec):
        self.name = name
        self.rec = rec
        self.vals = {}

    def _i(self, i):
        try:
            i = i.__index__()
        except Exception:
            from vlib.refeval import RefUndefined
            raise RefUndefined('non-integer index into %s' % self.name)
        if i < 0:
            from vlib.refeval import RefUndefined
            raise RefUndefined('negative index into %s' % self.name)
        if i > self.rec.get(self.name, -1):
            self.rec[self.name] = i
        return i

    def __getitem__(self, i):
        i = self._i(i)
        base = self.name[2:]
        if base in INT_PROPS:
            return self.vals.get(i, 0)
        return np.float64(self.vals.get(i, 1.0 if base in POSITIVE else
                                        0.25))

    def __setitem__(self, i, v):
        self.vals[self._i(i)] = v


MATH_NAMES = ('sqrt', 'exp', 'log', 'log10', 'sin', 'cos', 'tan', 'asin',
              'acos', 'atan', 'atan2', 'sinh', 'cosh', 'tanh', 'fabs',
              'pow', 'floor', 'ceil', 'fmod', 'erf', 'erfc', 'hypot')
MATH_CONSTS = dict(M_PI=3.141592653589793, M_E=2.718281828459045,
                   M_PI_2=1.5707963267948966, M_PI_4=0.7853981633974483,
                   M_1_PI=0.3183098861837907, M_2_PI=0.6366197723675814,
                   M_2_SQRTPI=1.1283791670955126,
                   M_SQRT2=1.4142135623730951,
                   M_SQRT1_2=0.7071067811865476,
                   M_LOG2E=1.4426950408889634, M_LOG10E=0.4342944819032518,
                   M_LN2=0.6931471805599453, M_LN10=2.302585092994046,
                   INFINITY=float('inf'), NAN=float('nan'))


def inject_math(cls):
    """The documentation promises every math.h function and constant inside
    equation methods; give the defining module's namespace those names when
    the author relied on that (the Python reference needs them)."""
    import math
    import sys
    from compyle.api import declare
    for klass in cls.__mro__:
        mod = sys.modules.get(klass.__module__)
        if mod is None or not klass.__module__.startswith(('pysph.',
                                                           'checks.')):
            continue
        for n in MATH_NAMES:
            if not hasattr(mod, n) and hasattr(math, n):
                setattr(mod, n, getattr(math, n))
        for n, v in MATH_CONSTS.items():
            if not hasattr(mod, n):
                setattr(mod, n, v)
        if not hasattr(mod, 'declare'):
            mod.declare = declare


class declare_fill(object):
    """Context manager: declared local matrices of the given equation
    objects (and of their helper functions) start filled with `value`
    instead of zeros.  C leaves them uninitialised, so a result that depends
    on the fill value has no defined Python meaning."""

    def __init__(self, objs, value):
        import sys
        self.value = value
        self.mods = []
        seen = set()
        for o in objs:
            cands = [k.__module__ for k in type(o).__mro__]
            if hasattr(o, '_get_helpers_'):
                try:
                    cands += [f.__module__ for f in o._get_helpers_()]
                except Exception:
                    pass
            for mn in cands:
                m = sys.modules.get(mn)
                if m is not None and mn not in seen and \
                        hasattr(m, 'declare') and \
                        mn.startswith(('pysph.', 'checks.', 'c02gen_')):
                    seen.add(mn)
                    self.mods.append(m)

    def __enter__(self):
        import numpy as np
        self.orig = {}
        val = self.value

        def make(orig):
            def declare(type, num=1):
                res = orig(type, num)
                items = res if isinstance(res, tuple) else (res,)
                for r in items:
                    if isinstance(r, np.ndarray):
                        r[...] = val
                return res
            return declare
        for m in self.mods:
            self.orig[m] = m.declare
            m.declare = make(m.declare)
        return self

    def __exit__(self, *a):
        for m, o in self.orig.items():
            m.declare = o
