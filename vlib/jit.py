"""Helpers shared by the checks that execute JIT-compiled code
(C02, C03, C04, C09, C13, C14, C16): building particle arrays from a JSON
spec, building the compiled evaluator, comparing states."""
import numpy as np

CTYPE_NP = {'double': np.float64, 'float': np.float32, 'int': np.int32,
            'long': np.int64, 'unsigned int': np.uint32}


def make_array(spec):
    """spec: {name, n, nghost, props: {name: {type, stride, data|fill}},
    constants: {name: {data, type?}}}.  data are flat lists."""
    from pysph.base.particle_array import ParticleArray
    n = spec['n']
    pa = ParticleArray(name=spec['name'])
    # resize first so that default props (tag, gid, pid) have n entries
    base = {}
    for pname in ('x', 'y', 'z', 'h'):
        pr = spec['props'].get(pname)
        if pr is not None:
            base[pname] = np.asarray(pr['data'], dtype=float)
        else:
            base[pname] = np.zeros(n)
    pa.add_property('x', data=base['x'])
    for pname in ('y', 'z', 'h'):
        pa.add_property(pname, data=base[pname])
    for pname, pr in spec['props'].items():
        if pname in ('x', 'y', 'z', 'h'):
            continue
        tp = pr.get('type', 'double')
        stride = pr.get('stride', 1)
        data = np.asarray(pr['data'], dtype=CTYPE_NP[tp])
        assert len(data) == n * stride, (pname, len(data), n, stride)
        if stride == 1:
            pa.add_property(pname, type=tp, data=data)
        else:
            pa.add_property(pname, type=tp, stride=stride, data=data)
    for cname, c in spec.get('constants', {}).items():
        tp = c.get('type', 'double')
        pa.add_constant(cname, np.asarray(c['data'], dtype=CTYPE_NP[tp]))
    tag = np.zeros(n, dtype=np.int32)
    ng = spec.get('nghost', 0)
    if ng:
        tag[n - ng:] = 2
    if 'tag' not in pa.properties:
        pa.add_property('tag', type='int')
    pa.get_carray('tag').get_npy_array()[:] = tag
    if 'gid' not in pa.properties:
        pa.add_property('gid', type='unsigned int')
    pa.get_carray('gid').get_npy_array()[:] = np.arange(
        spec.get('gid0', 0), spec.get('gid0', 0) + n, dtype=np.uint32)
    if 'pid' not in pa.properties:
        pa.add_property('pid', type='int')
    pa.align_particles()
    return pa


def make_arrays(specs):
    out = []
    g0 = 0
    for s in specs:
        s = dict(s)
        s.setdefault('gid0', g0)
        g0 += s['n']
        out.append(make_array(s))
    return out


def load_data(arrays, specs):
    """Overwrite the values of existing arrays (same layout) with new data;
    resizes when n differs."""
    g0 = 0
    for pa, s in zip(arrays, specs):
        n = s['n']
        cur = pa.get_number_of_particles()
        if cur != n:
            pa.resize(n)
        for pname, pr in s['props'].items():
            tp = pr.get('type', 'double')
            pa.get_carray(pname).get_npy_array()[:] = np.asarray(
                pr['data'], dtype=CTYPE_NP[tp])
        for cname, c in s.get('constants', {}).items():
            pa.get_carray(cname).get_npy_array()[:] = np.asarray(c['data'])
        tag = np.zeros(n, dtype=np.int32)
        ng = s.get('nghost', 0)
        if ng:
            tag[n - ng:] = 2
        pa.get_carray('tag').get_npy_array()[:] = tag
        pa.get_carray('gid').get_npy_array()[:] = np.arange(
            g0, g0 + n, dtype=np.uint32)
        g0 += n
        for pname in pa.properties:
            if pname not in s['props'] and pname not in ('tag', 'gid'):
                pa.get_carray(pname).get_npy_array()[:] = 0
        pa.align_particles()


def sorted_nnps(dim, arrays, radius_scale, domain=None, cache=False):
    from pysph.base.nnps import LinkedListNNPS
    return LinkedListNNPS(dim=dim, particles=arrays,
                          radius_scale=radius_scale, domain=domain,
                          cache=cache, sort_gids=True)


def compiled_evaluator(arrays, equations, kernel, dim, domain=None,
                       cache=False):
    from pysph.tools.sph_evaluator import SPHEvaluator
    from pysph.base.nnps import LinkedListNNPS

    def factory(**kw):
        kw['cache'] = cache
        return LinkedListNNPS(sort_gids=True, **kw)
    return SPHEvaluator(arrays, equations, dim=dim, kernel=kernel,
                        domain_manager=domain, nnps_factory=factory)


def bits_equal(a, b):
    a = np.ascontiguousarray(a)
    b = np.ascontiguousarray(b)
    if a.shape != b.shape or a.dtype != b.dtype:
        return False
    return bool(np.array_equal(a.view(np.uint8), b.view(np.uint8)))


def compare_arrays(ref, got, bitwise=True, rtol=1e-9, skip=()):
    """-> list of (array, prop, index, ref value, got value, why)."""
    diffs = []
    for r, g in zip(ref, got):
        names = sorted(set(list(r.properties) + list(r.constants)))
        gnames = sorted(set(list(g.properties) + list(g.constants)))
        if names != gnames:
            diffs.append((r.name, '<property set>', -1, names, gnames,
                          'sets differ'))
            continue
        for p in names:
            if p in skip:
                continue
            a = r.get_carray(p).get_npy_array()
            b = g.get_carray(p).get_npy_array()
            if len(a) != len(b):
                diffs.append((r.name, p, -1, len(a), len(b), 'length'))
                continue
            if len(a) == 0:
                continue
            if bitwise or a.dtype.kind != 'f':
                if a.dtype.kind == 'f':
                    an, bn = np.isnan(a), np.isnan(b)
                    ne = (a.view(np.uint8).reshape(len(a), -1) !=
                          b.view(np.uint8).reshape(len(b), -1)).any(axis=1)
                    ne &= ~(an & bn)
                else:
                    ne = a != b
                if ne.any():
                    i = int(np.argmax(ne))
                    diffs.append((r.name, p, i, repr(a[i]), repr(b[i]),
                                  'bitwise, %d of %d differ' % (
                                      int(ne.sum()), len(a))))
            else:
                with np.errstate(all='ignore'):
                    fin = np.isfinite(a)
                    scale = np.max(np.abs(a[fin])) if fin.any() else 0.0
                    bad = ~np.isclose(a, b, rtol=0.0,
                                      atol=rtol * max(scale, 1e-300),
                                      equal_nan=True)
                    # inf must match exactly
                    bad |= (np.isinf(a) | np.isinf(b)) & (a != b)
                if bad.any():
                    i = int(np.argmax(bad))
                    diffs.append((r.name, p, i, repr(a[i]), repr(b[i]),
                                  'tolerance %g x scale %g, %d of %d differ'
                                  % (rtol, scale, int(bad.sum()), len(a))))
    return diffs


def public_numeric_attrs(obj):
    out = {}
    for k, v in sorted(vars(obj).items()):
        if k.startswith('_') or k in ('dest', 'sources', 'name', 'var_name',
                                      'no_source', 'tag'):
            continue
        if isinstance(v, (bool, int, float, np.integer, np.floating)):
            out[k] = float(v)
    return out


def compiled_equation_attrs(a_eval, eq):
    """Attributes of the compiled copy of `eq` (a Python Equation that was
    given to the AccelerationEval `a_eval`)."""
    c = getattr(a_eval.c_acceleration_eval, eq.var_name)
    out = {}
    for k in public_numeric_attrs(eq):
        try:
            out[k] = float(getattr(c, k))
        except Exception:
            pass
    return out
