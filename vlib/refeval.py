"""Reference interpreter for PySPH equations, groups and integrators.

Written from the documentation (docs/source/design/equations.rst, the Group
and Integrator docstrings) and the statements of properties C02-C04; it does
not import the code generator, Group.precomputed, MegaGroup or the mako
templates.  It executes the *Python methods* of equation / stepper objects
on bounds-checked proxies over its own copies of the particle arrays.
"""
import inspect
import math

import numpy as np


class RefUndefined(Exception):
    """The Python meaning of the program is undefined on this input
    (out-of-range index, Python-only arithmetic exception ...): the case is
    disqualified, never compared."""


class ArrayProxy(object):
    """Bounds-checked view of a carray with C store semantics."""
    __slots__ = ('a', 'n', 'name', 'isfloat')

    def __init__(self, npy, name):
        self.a = npy
        self.n = len(npy)
        self.name = name
        self.isfloat = npy.dtype.kind == 'f'

    def __getitem__(self, i):
        if type(i) is not int:
            try:
                i = i.__index__()
            except Exception:
                raise RefUndefined('non-integer index into %s' % self.name)
        if i < 0 or i >= self.n:
            raise RefUndefined('index %d out of range for %s (len %d)'
                               % (i, self.name, self.n))
        v = self.a[i]
        if self.isfloat:
            return np.float64(v)
        return int(v)

    def __setitem__(self, i, v):
        if type(i) is not int:
            try:
                i = i.__index__()
            except Exception:
                raise RefUndefined('non-integer index into %s' % self.name)
        if i < 0 or i >= self.n:
            raise RefUndefined('index %d out of range for %s (len %d)'
                               % (i, self.name, self.n))
        if not self.isfloat:
            # C: double -> integer conversion truncates; out of range is UB
            if isinstance(v, (float, np.floating)):
                if not math.isfinite(v) or abs(v) >= 2 ** 31:
                    raise RefUndefined('float->int store out of range')
                v = int(v)
            info = np.iinfo(self.a.dtype)
            span = int(info.max) - int(info.min) + 1
            v = (int(v) - int(info.min)) % span + int(info.min)
        self.a[i] = v

    def __len__(self):
        return self.n


PAIR_SYMBOLS = ('HIJ', 'XIJ', 'R2IJ', 'RIJ', 'WIJ', 'WI', 'WJ', 'DWIJ',
                'DWI', 'DWJ', 'VIJ', 'RHOIJ', 'RHOIJ1', 'EPS', 'WDP', 'GHI',
                'GHJ', 'GHIJ', 'WDASHI', 'WDASHJ', 'WDASHIJ')
VECTOR_SYMBOLS = ('XIJ', 'VIJ', 'DWIJ', 'DWI', 'DWJ')

# documented formulas -> what each symbol is computed from
DEPENDS = {
    'HIJ': (), 'XIJ': (), 'VIJ': (), 'RHOIJ': (),
    'EPS': ('HIJ',), 'RHOIJ1': ('RHOIJ',), 'R2IJ': ('XIJ',),
    'RIJ': ('R2IJ',),
    'WIJ': ('XIJ', 'RIJ', 'HIJ'), 'WI': ('XIJ', 'RIJ'), 'WJ': ('XIJ', 'RIJ'),
    'DWIJ': ('XIJ', 'RIJ', 'HIJ'), 'DWI': ('XIJ', 'RIJ'),
    'DWJ': ('XIJ', 'RIJ'),
    'WDP': ('XIJ', 'HIJ'),
    'GHI': ('XIJ', 'RIJ'), 'GHJ': ('XIJ', 'RIJ'),
    'GHIJ': ('XIJ', 'RIJ', 'HIJ'),
    'WDASHI': ('RIJ',), 'WDASHJ': ('RIJ',), 'WDASHIJ': ('RIJ', 'HIJ'),
}
ORDER = ('HIJ', 'XIJ', 'VIJ', 'RHOIJ', 'EPS', 'RHOIJ1', 'R2IJ', 'RIJ',
         'WIJ', 'WI', 'WJ', 'DWIJ', 'DWI', 'DWJ', 'WDP', 'GHI', 'GHJ',
         'GHIJ', 'WDASHI', 'WDASHJ', 'WDASHIJ')
# arrays a symbol reads (on the destination and on the source)
SYMBOL_ARRAYS = {
    'HIJ': ('h',), 'EPS': ('h',), 'XIJ': ('x', 'y', 'z'),
    'R2IJ': ('x', 'y', 'z'), 'RIJ': ('x', 'y', 'z'), 'VIJ': ('u', 'v', 'w'),
    'RHOIJ': ('rho',), 'RHOIJ1': ('rho',),
}
for _s in ('WIJ', 'WI', 'WJ', 'DWIJ', 'DWI', 'DWJ', 'WDP', 'GHI', 'GHJ',
           'GHIJ', 'WDASHI', 'WDASHJ', 'WDASHIJ'):
    SYMBOL_ARRAYS[_s] = ('x', 'y', 'z', 'h')


def closure(symbols):
    need = set()
    todo = list(symbols)
    while todo:
        s = todo.pop()
        if s in need:
            continue
        need.add(s)
        todo.extend(DEPENDS[s])
    return [s for s in ORDER if s in need]


def args_of(method):
    return [a for a in inspect.signature(method).parameters if a != 'self']


HOOKS = ('initialize', 'initialize_pair', 'loop_all', 'loop', 'post_loop')


def _f64(x):
    return np.float64(x)


class RefEval(object):
    """Evaluate a list of equations / groups over particle arrays.

    arrays : list of ParticleArray (the reference's OWN copies)
    groups : list of Equation objects or of Group objects (own copies)
    nnps   : an NNPS over `arrays` with sort_gids=True (ascending order)
    """

    def __init__(self, arrays, groups, kernel, nnps):
        self.arrays = list(arrays)
        self.by_name = dict((a.name, a) for a in arrays)
        self.index = dict((a.name, i) for i, a in enumerate(arrays))
        self.kernel = kernel
        self.nnps = nnps
        from pysph.sph.equation import Group
        self._Group = Group
        only = [g for g in groups if isinstance(g, Group)]
        if only and len(only) != len(groups):
            raise ValueError('mix of groups and equations')
        if not only:
            groups = [Group(equations=list(groups))]
        self.groups = groups
        self.bufs = dict((s, [0.0, 0.0, 0.0]) for s in VECTOR_SYMBOLS)
        self.pair_calls = 0
        self.iterations = {}
        from cyarray.carray import UIntArray
        self._nbrs = UIntArray()

    # ------------------------------------------------------------ helpers
    def proxies(self, pa, prefix):
        d = {}
        for name in list(pa.properties.keys()) + list(pa.constants.keys()):
            d[prefix + name] = ArrayProxy(
                pa.get_carray(name).get_npy_array(), prefix + name)
        return d

    def _call(self, meth, env):
        kw = {}
        for a in args_of(meth):
            if a in env:
                kw[a] = env[a]
            else:
                raise RefUndefined('argument %s not available' % a)
        try:
            return meth(**kw)
        except RefUndefined:
            raise
        except (ZeroDivisionError, ValueError, OverflowError, TypeError,
                IndexError, AttributeError, NameError) as ex:
            raise RefUndefined('python-only exception %r in %s' % (
                ex, getattr(meth, '__qualname__', meth)))

    def _neighbours(self, src_i, dst_i, d_idx):
        self.nnps.set_context(src_i, dst_i)
        self.nnps.get_nearest_particles(src_i, dst_i, d_idx, self._nbrs)
        return [int(v) for v in self._nbrs.get_npy_array()[
            :self._nbrs.length]]

    def _precompute(self, order, env, d_idx, s_idx):
        k = self.kernel
        D = env
        for s in order:
            if s == 'HIJ':
                D['HIJ'] = 0.5 * (D['d_h'][d_idx] + D['s_h'][s_idx])
            elif s == 'XIJ':
                b = self.bufs['XIJ']
                b[0] = D['d_x'][d_idx] - D['s_x'][s_idx]
                b[1] = D['d_y'][d_idx] - D['s_y'][s_idx]
                b[2] = D['d_z'][d_idx] - D['s_z'][s_idx]
            elif s == 'VIJ':
                b = self.bufs['VIJ']
                b[0] = D['d_u'][d_idx] - D['s_u'][s_idx]
                b[1] = D['d_v'][d_idx] - D['s_v'][s_idx]
                b[2] = D['d_w'][d_idx] - D['s_w'][s_idx]
            elif s == 'RHOIJ':
                D['RHOIJ'] = 0.5 * (D['d_rho'][d_idx] + D['s_rho'][s_idx])
            elif s == 'EPS':
                D['EPS'] = 0.01 * D['HIJ'] * D['HIJ']
            elif s == 'RHOIJ1':
                with np.errstate(all='ignore'):
                    D['RHOIJ1'] = _f64(1.0) / _f64(D['RHOIJ'])
            elif s == 'R2IJ':
                b = self.bufs['XIJ']
                D['R2IJ'] = b[0] * b[0] + b[1] * b[1] + b[2] * b[2]
            elif s == 'RIJ':
                D['RIJ'] = _f64(math.sqrt(D['R2IJ']))
            elif s in ('WIJ', 'WI', 'WJ'):
                h = {'WIJ': lambda: D['HIJ'], 'WI': lambda: D['d_h'][d_idx],
                     'WJ': lambda: D['s_h'][s_idx]}[s]()
                D[s] = _f64(k.kernel(self.bufs['XIJ'], D['RIJ'], h))
            elif s in ('DWIJ', 'DWI', 'DWJ'):
                h = {'DWIJ': lambda: D['HIJ'],
                     'DWI': lambda: D['d_h'][d_idx],
                     'DWJ': lambda: D['s_h'][s_idx]}[s]()
                k.gradient(self.bufs['XIJ'], D['RIJ'], h, self.bufs[s])
            elif s == 'WDP':
                D['WDP'] = _f64(k.kernel(self.bufs['XIJ'],
                                         k.get_deltap() * D['HIJ'],
                                         D['HIJ']))
            elif s in ('GHI', 'GHJ', 'GHIJ'):
                h = {'GHIJ': lambda: D['HIJ'],
                     'GHI': lambda: D['d_h'][d_idx],
                     'GHJ': lambda: D['s_h'][s_idx]}[s]()
                D[s] = _f64(k.gradient_h(self.bufs['XIJ'], D['RIJ'], h))
            elif s in ('WDASHI', 'WDASHJ', 'WDASHIJ'):
                h = {'WDASHIJ': lambda: D['HIJ'],
                     'WDASHI': lambda: D['d_h'][d_idx],
                     'WDASHJ': lambda: D['s_h'][s_idx]}[s]()
                D[s] = _f64(k.dwdq(D['RIJ'], h))

    # -------------------------------------------------------------- groups
    def compute(self, t, dt):
        t = _f64(t)
        dt = _f64(dt)
        try:
            with np.errstate(all='ignore'):
                for g in self.groups:
                    self._run_top(g, t, dt)
        except RefUndefined:
            raise
        except (ZeroDivisionError, OverflowError) as ex:
            raise RefUndefined('python-only exception %r' % (ex,))

    def _all_equations(self, g):
        if g.has_subgroups:
            out = []
            for sg in g.equations:
                out.extend(self._all_equations(sg))
            return out
        return list(g.equations)

    def _run_top(self, g, t, dt):
        if g.condition is not None and not g.condition(t, dt):
            return
        if not g.iterate:
            self._run_once(g, t, dt)
            return
        count = 1
        while True:
            self._run_once(g, t, dt)
            if count >= g.min_iterations:
                # every equation is asked (no short circuit among them)
                conv = [self._call(eq.converged, {}) > 0
                        for eq in self._all_equations(g)]
                if all(conv) or count == g.max_iterations:
                    break
            count += 1
            if count > 10000:
                raise RefUndefined('iteration does not terminate')
        self.iterations[g.name] = count

    def _run_once(self, g, t, dt):
        if g.has_subgroups:
            if g.pre:
                g.pre()
            for sg in g.equations:
                if sg.condition is None or sg.condition(t, dt):
                    self._run_leaf(sg, t, dt)
            if g.update_nnps:
                require_finite_geometry(self.nnps)
                self.nnps.update_domain()
                self.nnps.update()
            if g.post:
                g.post()
        else:
            self._run_leaf(g, t, dt)

    def _bounds(self, g, pa):
        start = g.start_idx
        if isinstance(start, str):
            start = int(pa.get_carray(start).get_npy_array()[0])
        if g.stop_idx is None:
            stop = pa.get_number_of_particles(bool(g.real))
        elif isinstance(g.stop_idx, str):
            stop = int(pa.get_carray(g.stop_idx).get_npy_array()[0])
        else:
            stop = g.stop_idx
        return int(start), int(stop)

    def _run_leaf(self, g, t, dt):
        if g.pre:
            g.pre()
        dests = []
        for eq in g.equations:
            if eq.dest not in dests:
                dests.append(eq.dest)
        for dest in dests:
            eqs = [e for e in g.equations if e.dest == dest]
            dpa = self.by_name[dest]
            dst_i = self.index[dest]
            start, stop = self._bounds(g, dpa)
            for eq in eqs:
                if hasattr(eq, 'py_initialize'):
                    eq.py_initialize(dpa, t, dt)
            env = self.proxies(dpa, 'd_')
            env.update(t=t, dt=dt, SPH_KERNEL=self.kernel)
            rng = range(start, stop)
            if any(hasattr(e, 'initialize') for e in eqs):
                for d_idx in rng:
                    env['d_idx'] = d_idx
                    for e in eqs:
                        if hasattr(e, 'initialize'):
                            self._call(e.initialize, env)
            nosrc = [e for e in eqs if e.sources is None]
            if any(hasattr(e, 'loop') for e in nosrc):
                for d_idx in rng:
                    env['d_idx'] = d_idx
                    for e in nosrc:
                        if hasattr(e, 'loop'):
                            self._call(e.loop, env)
            sources = []
            for e in eqs:
                for s in (e.sources or []):
                    if s not in sources:
                        sources.append(s)
            for src in sources:
                seqs = [e for e in eqs if e.sources and src in e.sources]
                spa = self.by_name[src]
                src_i = self.index[src]
                senv = dict(env)
                senv.update(self.proxies(spa, 's_'))
                for s in VECTOR_SYMBOLS:
                    senv[s] = self.bufs[s]
                if any(hasattr(e, 'initialize_pair') for e in seqs):
                    for d_idx in rng:
                        senv['d_idx'] = d_idx
                        for e in seqs:
                            if hasattr(e, 'initialize_pair'):
                                self._call(e.initialize_pair, senv)
                has_loop = any(hasattr(e, 'loop') for e in seqs)
                has_all = any(hasattr(e, 'loop_all') for e in seqs)
                if not (has_loop or has_all):
                    continue
                want = set()
                for e in seqs:
                    if hasattr(e, 'loop'):
                        want.update(a for a in args_of(e.loop)
                                    if a in DEPENDS)
                order = closure(want)
                for d_idx in rng:
                    nb = self._neighbours(src_i, dst_i, d_idx)
                    senv['d_idx'] = d_idx
                    senv['NBRS'] = nb
                    senv['N_NBRS'] = len(nb)
                    if has_all:
                        for e in seqs:
                            if hasattr(e, 'loop_all'):
                                self._call(e.loop_all, senv)
                    if has_loop:
                        for s_idx in nb:
                            senv['s_idx'] = s_idx
                            self._precompute(order, senv, d_idx, s_idx)
                            self.pair_calls += 1
                            for e in seqs:
                                if hasattr(e, 'loop'):
                                    self._call(e.loop, senv)
            if any(hasattr(e, 'post_loop') for e in eqs):
                for d_idx in rng:
                    env['d_idx'] = d_idx
                    for e in eqs:
                        if hasattr(e, 'post_loop'):
                            self._call(e.post_loop, env)
            for e in eqs:
                if hasattr(e, 'reduce'):
                    try:
                        e.reduce(dpa, t, dt)
                    except (ZeroDivisionError, ValueError, OverflowError,
                            TypeError) as ex:
                        raise RefUndefined('python-only exception %r in '
                                           'reduce' % (ex,))
        if g.update_nnps:
            require_finite_geometry(self.nnps)
            self.nnps.update_domain()
            self.nnps.update()
        if g.post:
            g.post()


def require_finite_geometry(nnps):
    """A neighbour structure can only be rebuilt from finite coordinates and
    smoothing lengths (binning a NaN is a float->int conversion with no
    defined result, in C a wild cell index).  A state that has lost them has
    no defined continuation."""
    for pa in nnps.particles:
        for p in ('x', 'y', 'z', 'h'):
            a = pa.get_carray(p).get_npy_array()
            if len(a) and not np.isfinite(a).all():
                raise RefUndefined('non-finite %s in array %s before a '
                                   'neighbour update' % (p, pa.name))
    # a 1D/2D neighbour search is defined for particles on a line/in a plane
    # (the cell grid of LinkedListNNPS has one layer there; a second layer of
    # cells is a write past the end of its head array)
    for ax in ('x', 'y', 'z')[nnps.dim:]:
        vals = [pa.get_carray(ax).get_npy_array() for pa in nnps.particles]
        vals = [v for v in vals if len(v)]
        if vals and (min(v.min() for v in vals) != max(v.max() for v in vals)):
            raise RefUndefined('particles left the %dD subspace (%s varies)'
                               % (nnps.dim, ax))


class RefIntegrator(object):
    """Executes an Integrator's `one_timestep` literally (the method object
    of the integrator's class is called with this driver as `self`)."""

    def __init__(self, integrator, steppers, arrays, evals, nnps,
                 post_stage=None):
        self.integrator = integrator
        self.steppers = steppers          # name -> stepper (own copies)
        self.by_name = dict((a.name, a) for a in arrays)
        self.evals = evals                # list of RefEval, one per set
        self.nnps = nnps
        self.post_stage = post_stage
        self.t = self.dt = self.orig_t = _f64(0.0)
        self.log = []
        self.real_stepped = 0
        self._cur = None

    # ---- what one_timestep may call
    def compute_accelerations(self, index=0, update_nnps=True):
        if update_nnps:
            require_finite_geometry(self.nnps)
            self.nnps.update()
        self.evals[index].compute(self.t, self.dt)

    def update_domain(self):
        require_finite_geometry(self.nnps)
        self.nnps.update_domain()

    def do_post_stage(self, stage_dt, stage):
        self.t = _f64(self.orig_t + stage_dt)
        self.log.append((float(self.t), float(self.dt), int(stage)))
        if self.post_stage is not None:
            self.post_stage(self.t, self.dt, stage)

    def __getattr__(self, name):
        if name == 'initialize' or (name.startswith('stage') and
                                    name[5:].isdigit()):
            return lambda: self._stage(name)
        raise AttributeError(name)

    def _stage(self, method):
        t, dt = self.t, self.dt
        for dest in sorted(self.steppers):
            st = self.steppers[dest]
            pa = self.by_name[dest]
            py = getattr(st, 'py_' + method, None)
            if py is not None:
                py(pa, t, dt)
            meth = getattr(st, method, None)
            if meth is None:
                continue
            env = {}
            for nm in list(pa.properties.keys()) + list(pa.constants.keys()):
                env['d_' + nm] = ArrayProxy(
                    pa.get_carray(nm).get_npy_array(), 'd_' + nm)
            env['t'] = t
            env['dt'] = dt
            args = args_of(meth)
            n = pa.get_number_of_particles(True)
            for d_idx in range(n):
                env['d_idx'] = d_idx
                kw = {}
                for a in args:
                    if a not in env:
                        raise RefUndefined('stepper argument %s not '
                                           'available' % a)
                    kw[a] = env[a]
                try:
                    meth(**kw)
                except RefUndefined:
                    raise
                except (ZeroDivisionError, ValueError, OverflowError,
                        TypeError, IndexError, NameError) as ex:
                    raise RefUndefined('python-only exception %r in %s' % (
                        ex, method))
                self.real_stepped += 1

    def step(self, t, dt):
        self.orig_t = _f64(t)
        self.t = _f64(t)
        self.dt = _f64(dt)
        with np.errstate(all='ignore'):
            type(self.integrator).one_timestep(self, _f64(t), _f64(dt))
