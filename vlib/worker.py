"""Worker: executes one shard (or one replay) of a check in its own process.

argv: PID TIER SEED MODE SPECFILE OUTFILE JOURNAL
"""
import importlib
import json
import os
import sys
import traceback


class WCtx(object):
    def __init__(self, pid, tier, seed, journal_path):
        self.pid = pid
        self.tier = tier
        self.seed = seed
        self.journal_path = journal_path
        self._jf = None
        self.workdir = os.environ.get('VERIF_WORKDIR', '/var/tmp')
        self.tree = os.environ.get('VERIF_TREE')

    def journal(self, case):
        """Record the case about to be executed (crash containment)."""
        from vlib.hyp import canon
        if self._jf is None:
            self._jf = open(self.journal_path, 'w')
        self._jf.seek(0)
        self._jf.truncate()
        self._jf.write(canon(case) + '\n')
        self._jf.flush()


def main():
    pid, tier, seed, mode, specf, outf, journal = sys.argv[1:8]
    from vlib.driver import CHECKS
    spec = json.load(open(specf))
    ctx = WCtx(pid, tier, int(seed), journal)
    mod = importlib.import_module('checks.' + CHECKS[pid])
    try:
        if mode == 'replay':
            rp = spec['replay']
            fails = mod.run_case(rp['case'], rp.get('component'), ctx)
            res = dict(failures=[f if isinstance(f, dict) else f.as_dict()
                                 for f in fails])
        else:
            res = mod.run_shard(spec, ctx)
    except BaseException as ex:
        if isinstance(ex, KeyboardInterrupt):
            raise
        tb = traceback.format_exception(type(ex), ex, ex.__traceback__)
        tb = ''.join(tb)
        head = '%s: %s' % (type(ex).__name__, str(ex)[:300])
        subs = getattr(ex, 'exceptions', None)
        if subs:
            for e in subs:
                stb = traceback.format_exception(type(e), e, e.__traceback__)
                head += '\n  sub-exception %s: %s\n%s' % (
                    type(e).__name__, str(e)[:300], ''.join(stb)[-1200:])
        res = dict(harness_error=head + '\n' + tb[:2500],
                   failures=[], evaluations=0)
    tmp = outf + '.tmp'
    with open(tmp, 'w') as fp:
        json.dump(res, fp, default=str)
    os.replace(tmp, outf)
    sys.stdout.flush()
    sys.stderr.flush()
    os._exit(0)


if __name__ == '__main__':
    main()
