HOOK_COMMITS = []

ALL = ['C%02d' % i for i in range(1, 21)]

CHECKS = {
 'C08': dict(
  text=("Generated (kernel, dim, h, q, direction) points - piece boundaries "
        "and the support edge exactly and a few ulp around - compared with "
        "an independent mpmath transcription of the documented formulas "
        "(value, dwdq, gradient, gradient_h analytically), plus exhaustive "
        "kernel x dim enumeration for constructor rejections, Gauss-Legendre "
        "normalisation, sign/monotonicity, and compiled-twin equality."),
  note=("Trusts mpmath and the class docstrings as the specification; "
        "rounding band of 8 ulp at the support edge; r<=1e-12 guard "
        "honoured."),
  technique="property-based testing (Hypothesis) against an mpmath reference transcription + exhaustive enumeration of kernel x dim"),
}

NOT_APPLICABLE = [
 dict(property_id=p, reason="check not yet built in this session (planned; see DESIGN.md section 4)")
 for p in ALL if p not in CHECKS
]
