HOOK_COMMITS = []

ALL = ['C%02d' % i for i in range(1, 21)]

CHECKS = {
 'C08': dict(
  text=("Generated (kernel, dim, h, q, direction) points - piece boundaries "
        "and the support edge exactly and a few ulp around - compared with "
        "an independent mpmath transcription of the documented formulas "
        "(value, dwdq, gradient, gradient_h analytically), plus exhaustive "
        "kernel x dim enumeration for constructor rejections, Gauss-Legendre "
        "normalisation, sign/monotonicity, and compiled-twin equality."),
  note=("Trusts mpmath and the class docstrings as the specification; "
        "rounding band of 8 ulp at the support edge; r<=1e-12 guard "
        "honoured."),
  technique="property-based testing (Hypothesis) against an mpmath reference transcription + exhaustive enumeration of kernel x dim"),
 'C10': dict(
  text=("Solver.solve() driven by a recording stand-in integrator over "
        "generated (dt, tf, pfreq, output_at_times, n_damp, max_steps, "
        "adaptive sequences); invariants of the property statement checked "
        "over the recorded history with a model of the documented damping "
        "factor and nominal step."),
  note=("Stand-in integrator replaces the compiled one (as the repository's "
        "own test_solver does); tolerance 4*eps*tf*count on times; recorded "
        "dt not asserted once the next nominal step would pass tf."),
  technique="property-based testing (Hypothesis) with history invariants and a reference model of the step schedule"),
 'C15': dict(
  text=("Generated gas states over 12 orders of magnitude for the 11 solver "
        "functions and the dispatch function; metamorphic oracles "
        "(reflection, equal sides, Galilean shift, joint scaling) decided "
        "tightly on a 60-digit mpmath re-execution of the same solver source "
        "and, for the double-precision run, within its measured rounding "
        "error; exact solver checked against an independent transcription "
        "of Toro's pressure function and the vacuum criterion."),
  note=("Every case also goes through the transpiled solvers (a probe "
        "equation calling riemann_solve with HELPERS, as GSPH does) and is "
        "compared with the Python run; Python-only exceptions on failure "
        "paths count as "
        "'failure reported'; van_leer's absolute 1e-25 pressure clamp is "
        "kept away from the scaling clause."),
  technique="property-based testing (Hypothesis) with metamorphic relations and high-precision re-execution as oracle"),
 'C19': dict(
  text=("Generated sets of particle arrays (empty, ghost-only, lacking "
        "criterion properties, h over six decades incl. all h>1) driven "
        "through NNPS update + Integrator.compute_time_step and "
        "Solver._compute_timestep over 1-3 rounds; result compared with a "
        "numpy evaluation of the documented formula (relative 1e-12); arrays "
        "may be empty in some rounds and filled in others on the same "
        "Integrator object."),
  note=("hmin over all particles or over real particles both accepted; "
        "CPU arrays only (no GPU path)."),
  technique="property-based testing (Hypothesis) against a reference evaluation of the documented formula"),
 'C03': dict(
  text=("Generated group trees (flat groups and one level of sub-groups) of "
        "order-sensitive integer tracer equations with drawn real / "
        "start_idx / stop_idx (int, property, constant) / iterate / "
        "condition / pre / post / update_nnps / several destinations and "
        "sources are compiled through SPHEvaluator (one JIT compile per "
        "program) and compared bitwise - arrays, equation attributes, "
        "callback logs - with a reference interpreter written from the "
        "documentation, over generated data sets with ghost particles and "
        "empty source arrays."),
  note=("Serial and OpenMP shards; neighbour lists from LinkedListNNPS("
        "sort_gids=True) on both sides; a failing JIT compile of a "
        "documented tree is a violation; forced shards run the programs in "
        "periodic, mirror and periodic+mirror boxes and contain a group "
        "with two initialize_pair equations listing different sources."),
  technique="differential property-based testing: generated programs x generated data, compiled code vs. reference interpreter"),
 'C06': dict(
  text=("Model-based sequences (up to 30/60 operations from 24 kinds of the "
        "public ParticleArray API over one or two arrays with all five C "
        "types, strides 1-4, constants, mixed tags, zero particles) applied "
        "to the real array and to a record-list model; invariants (lengths "
        "= n*stride, bookkeeping dicts, whole records by uid, constants, "
        "alignment) after every operation; crash-contained by a journal."),
  note=("Overruns that stay inside a carray's spare capacity are not "
        "observable; values of slots created by a growing resize are "
        "adopted, not asserted; output_property_arrays after pickle carries "
        "no claim."),
  technique="model-based (stateful) property-based testing with Hypothesis against a record-list reference model"),
 'C02': dict(
  text=("Every Equation subclass shipped under pysph.sph is instantiated "
        "from its signature, laid out by a recording dry run (strides, "
        "constants), compiled in bundles (one JIT compile per bundle, each "
        "class on its own destination/source arrays) with a rotating kernel "
        "and dimension, and compared - bitwise for arithmetic-only code, "
        "1e-9 relative otherwise - with a reference interpreter that "
        "executes the same Python methods with pair symbols computed from "
        "their documented formulas and the Python kernel class, on "
        "generated data sets."),
  note=("Classes whose Python meaning is undefined on the generated inputs "
        "are listed (coverage.skipped_classes), not passed; quick covers "
        "about 120 classes per seed (rotating), thorough all of them x 3 "
        "kernels; classes with boolean / zero-float constructor options are "
        "also instantiated with the other values (#alt); every shard first "
        "builds an evaluator with the same kernel class in another "
        "dimension in the same process; generated user classes (G-B, "
        "checks/c02_gen.py) incl. OpenMP shards."),
  technique="differential property-based testing: compiled code vs. reference interpreter over generated data, classes enumerated from the package"),
 'C11': dict(
  text=("Generated lists of particle arrays (five C types, strides 1-4, "
        "non-zero defaults, constants, mixed tags, zero particles, drawn "
        "output lists) and solver data are dumped and loaded through "
        "pysph.solver.utils for {npz, hdf5} x compress x detailed x "
        "only_real, optionally dumped and loaded again; the loaded arrays "
        "are compared with an independent model, per uid and byte-exact; "
        "synthesised version-1 files must still load."),
  note=("mpi_comm path and non-default particle tags not exercised."),
  technique="round-trip property-based testing (Hypothesis) against a record model"),
 'C20': dict(
  text=("All 288 shipped Equation and 36 IntegratorStep classes plus toy and "
        "Hypothesis-generated classes: for every explicitly or implicitly "
        "(pair symbol) needed name removed from the destination or one of "
        "1-3 sources, misspelt array names, in flat lists, groups, "
        "sub-groups and multi-stage sets, building AccelerationEval / "
        "SPHCompiler / get_code must raise a RuntimeError naming class and "
        "name; the complete problem must be accepted. Nothing is ever "
        "compiled or run."),
  note=("Needed names derived independently from hook signatures and the "
        "documented pair-symbol formulas; exhaustive over shipped classes "
        "for the enumerated layouts."),
  technique="exhaustive enumeration over shipped classes plus property-based generation (Hypothesis) with an independent requirement oracle"),
 'C04': dict(
  text=("Programs = shipped Integrator x shipped IntegratorStep pairs it can "
        "drive, and user-defined integrators (1-5 stages, py_stage hooks, "
        "update_nnps=False, two equation sets, out-of-order stages) with "
        "different steppers per array, with or without a periodic domain; "
        "compiled through SPHCompiler (one JIT compile per program) and "
        "stepped 1-3 times on generated states; arrays (bitwise for "
        "arithmetic-only steppers), post-stage callback arguments and "
        "py_stage logs are compared with a reference that calls the "
        "integrator's one_timestep method literally on a Python driver."),
  note=("Shipped steppers are exercised on generic double stride-1 arrays; "
        "those that do not compile or are undefined there are listed as "
        "skipped. Quick rotates through the program list with the seed."),
  technique="differential property-based testing: compiled integrator vs. literal execution of one_timestep by a reference driver"),
 'C09': dict(
  text=("Closed systems of 1-2 mutually interacting arrays with generated "
        "positions (incl. coincident pairs), masses, densities, pressures, "
        "velocities and per-particle h are evaluated with each of 17 shipped "
        "pair-symmetric momentum equations (selected per evaluation), every "
        "kernel (rotating), six neighbour algorithms and dims 1-3; the "
        "oracle is the conservation law: |sum m a| <= 1e-12 sum m|a|, the "
        "same for angular momentum of the central-force terms, and positive "
        "summation density."),
  note=("The list of pair-symmetric equations is fixed in the check with the "
        "reason each qualifies (wc.edac.MomentumEquationPressureGradient is "
        "excluded: it subtracts the destination's own average pressure)."),
  technique="property-based testing (Hypothesis) with a physical invariant (metamorphic a<->b symmetry) as oracle"),
 'C07': dict(
  text=("Generated boxes (far origins, thin boxes), periodic/mirror flags "
        "per axis, n_layers 1-3, 1-3 arrays with particles on/just outside "
        "faces and in corners, per-particle h, copied-property subsets and "
        "typed/strided extra properties, then 1-5 rounds of move / change h "
        "/ update through three NNPS classes and the bare DomainManager; "
        "ghosts are compared as multisets of full records with a closed-form "
        "enumeration of images (per-axis option product), real particles "
        "must only be wrapped, no accumulation over rounds, and a "
        "neighbour-count completeness clause for periodic boxes."),
  note=("Layer thickness T = n_layers*radius_scale*hmax over current real "
        "particles (documented in the DomainManager docstring); particles "
        "within 1e-12*L + 4 ulp of the threshold may go either way; NNPS "
        "capacity rejections are accepted."),
  technique="property-based testing (Hypothesis) against a closed-form reference enumeration of ghost images"),
 'C18': dict(
  text=("controller.py of the tree under test is re-executed with its "
        "threading primitives replaced by a deterministic scheduler that "
        "owns the interleaving at lock/condition granularity; cases = "
        "(well-formed interface programs for 1-2 interface threads + solver "
        "control points, schedule) drawn by Hypothesis plus systematic "
        "enumeration of all schedules with bounded preemptions for fixed "
        "small programs; history invariants: every queued command runs once "
        "inside a control point and its result is delivered, wait() returns "
        "only with the solver held, no progress until cont(), no deadlock."),
  note=("Interleavings at synchronisation-primitive granularity only "
        "(no preemption inside a bytecode); Condition.notify wakes FIFO; "
        "serial (DummyComm) runs."),
  technique="schedule-controlled property-based testing (deterministic scheduler shim, Hypothesis-drawn and bounded-preemption enumerated schedules) with history invariants"),
 'C12': dict(
  text=("16 scheme classes x their boolean/enumerated options x dim x "
        "with/without solids x clean: stage 1 (pairwise-covering + drawn "
        "sample in quick, full product in thorough) runs configure_solver, "
        "setup_properties on plain arrays and get_equations, then an "
        "independent requirement scan (hook signatures + documented "
        "pair-symbol formulas) over every equation and stepper, evaluator "
        "and compiler construction and code generation; stage 2 (sampled) "
        "JIT-compiles and runs 3 steps on a filled lattice (periodic box, or "
        "a block on its wall when solids exist) and requires finite values."),
  note=("ElasticSolidsScheme (no setup_properties) is outside C12; stage 2 "
        "forces has_ghosts on in the periodic box and uses scipy from the "
        "offline wheelhouse for ISPH."),
  technique="enumeration + property-based sampling (Hypothesis) of configurations with an independent requirement oracle, plus run-to-finite smoke oracle"),
 'C13': dict(
  text=("Generated n x n systems (n=1..6, 1-3 right-hand sides, eleven "
        "families incl. permuted diagonally dominant, zero/tiny pivots, "
        "scaled, singular) through augmented_matrix + gj_solve, in Python "
        "and transpiled (one JIT compile), with an SVD/exact-rational "
        "residual oracle; helper products vs numpy; symmetric 3x3 matrices "
        "(repeated/zero eigenvalues, graded entries, 1e+-8 scaling) through "
        "the eigen-decomposition wrappers with orthonormality, residual and "
        "eigvalsh oracles."),
  note=("Entries below 1e-290*max|A| are outside the eigen domain; the "
        "documented 1e-12 pivot literal is honoured."),
  technique="property-based testing (Hypothesis) against numpy/SVD/rational reference oracles, Python vs transpiled differential"),
 'C16': dict(
  text=("Histories of 1-40 (advect, inlet.update, outlet.update) steps for "
        "the five shipped inlet/outlet families (updaters from "
        "InletOutletManager.get_inlet_outlet), drawn normals (axis aligned "
        "and oblique), zone lengths, dims, velocity fields of both signs and "
        "active stages; the three arrays are compared after every update "
        "with a uid-tracked record model of the documented zone rule, plus "
        "bookkeeping identities."),
  note=("Particles are kept out of the +-1e-5 threshold band by "
        "construction; one fluid array, unit normals."),
  technique="model-based property-based testing (Hypothesis histories) against a record model"),
 'C14': dict(
  text=("1-3 source arrays with fixed property sets (one compile per method "
        "x kernel x number of arrays), dims 1-3, per-particle h, m, rho, "
        "random/constant/linear fields, explicit targets or automatic "
        "grids, optional periodic domain, then up to four steps of "
        "set_interpolation_points / set_domain / update_particle_arrays / "
        "move+update / new data; every field is compared with a numpy "
        "evaluation of the defining sums with the Python kernel over all "
        "sources and periodic images (Shepard bounds and zero, sph, splash "
        "variants, order1 via the moment system where cond < 1e6 and exact "
        "reproduction of linear fields)."),
  note=("Targets on a kernel cut-off band or with a denominator below the "
        "documented 1e-12 literal are skipped; degenerate (coincident) "
        "clouds are a precondition."),
  technique="property-based testing (Hypothesis, stateful tail) against a numpy reference evaluation of the defining formulas"),
 'C01': dict(
  text=("Per algorithm class (12 classes, own crash-contained shard each): "
        "generated particle sets in 1-3 dimensions (uniform, clustered, "
        "lattice points on cell faces, collinear/coplanar, coincident, "
        "single, empty; offsets to +-1e6; h over up to three decades; 1-4 "
        "arrays), class knobs, sort_gids, cache, thread counts and update "
        "histories (move, rescale h, add, remove, empty, refill); every "
        "(source, destination) pair is queried in three call styles and "
        "compared with a brute-force oracle with an 8-eps band; cache on = "
        "off, sorted output, history = fresh construction. Every case runs "
        "in a forked child so that crashes and hangs are ordinary, "
        "shrinkable failures. Stratified shards pin per-particle h for every "
        "algorithm and each tree-builder variant (serial / parallel)."),
  note=("Two open findings are excluded by construction and counted "
        "(StratifiedSFC across different arrays; StratifiedHash with h over "
        "several decades); grid capacity limits of the classes are "
        "preconditions; OpenMP cache-fill schedules are only sampled by "
        "thread count."),
  technique="property-based testing (Hypothesis) against a brute-force oracle, per-case process isolation, known-finding exclusion by construction"),
 'C05': dict(
  text=("Seven small Applications (free-surface drop in 2-D and 3-D, fluid "
        "column on a solid floor, doubly periodic TVF box, gas dynamics with "
        "evolving h, periodic channel with walls, pipe with inlet/outlet) "
        "with drawn problem options (scheme variants, adaptive dt, pfreq "
        "with all dumps compared, permuted gids, passive properties) are run "
        "through Application.run(argv) in subprocesses for drawn sets of "
        "configurations from --nnps (10, with tuning options) x --cache-nnps "
        "x --openmp with 1..16 threads and schedules x --reorder-freq x "
        "--sort-gids x --fixed-h; metamorphic oracle: "
        "agreement with the reference configuration per particle (by gid) "
        "to 1e-9*scale, bit-identity among sorted runs (OpenMP and serial "
        "groups) with the same reorder frequency, bit-reproducibility of a "
        "repeated run."),
  note=("OpenMP interleavings are sampled, not controlled; neighbour "
        "algorithms without spatial ordering reject --reorder-freq with "
        "NotImplementedError (accepted); strat_sfc on multi-array problems "
        "is an open finding excluded by construction."),
  technique="metamorphic/differential property-based testing (Hypothesis-drawn configurations) of whole runs through the application front end"),
 'C17': dict(
  text=("For the eight classes offering get_spatially_ordered_indices: "
        "generated arrays (typed and strided properties, ghost/remote tail "
        "or periodic ghosts, far offsets, 1-2 arrays) are re-ordered 1-3 "
        "times through spatially_order_particles or "
        "Solver.reorder_particles; the index list must be a permutation, "
        "the multiset of whole particle records unchanged, real particles "
        "first, and neighbour queries after the following update equal "
        "brute force."),
  note=("StratifiedSFC with two arrays is an open finding (root cause in "
        "C01) excluded by construction; capacity rejections accepted."),
  technique="property-based testing (Hypothesis) with permutation/record-multiset invariants and a brute-force neighbour oracle"),
}

NOT_APPLICABLE = [
 dict(property_id=p, reason="check not yet built in this session (planned; see DESIGN.md section 4)")
 for p in ALL if p not in CHECKS
]
