#!/venv/bin/python
"""Confirm and evaluate a seeded change produced by a sub-agent.

usage: tools/eval_seed.py PID N [--checks C03,C02] [--slot s]

Reads /tmp/seed-PID-N/SEED/{patch.diff,demo.py,notes.md}; then
 1. applies the patch to a scratch copy of /repo (must apply),
 2. runs the pinned suite there WITHOUT built extensions (55 must pass),
 3. builds the patched copy (seeded from the main build tree) and runs the
    demo against the patched build (must fail) and the unpatched build (must
    pass),
 4. runs ./check for the property (and --checks) against the patched copy.
Writes /verif/seeded/PID-N/{patch.diff,demo.py,notes.md,meta.json}.
"""
import argparse
import json
import os
import re
import shutil
import subprocess
import sys
import time

VERIF = os.path.dirname(os.path.dirname(os.path.abspath(__file__)))
PY = '/venv/bin/python'


def sh(cmd, **kw):
    return subprocess.run(cmd, capture_output=True, text=True, **kw)


def main():
    ap = argparse.ArgumentParser()
    ap.add_argument('pid')
    ap.add_argument('n')
    ap.add_argument('--checks', default=None)
    ap.add_argument('--slot', default=None)
    ap.add_argument('--tier', default='quick')
    ap.add_argument('--skip-suite', action='store_true')
    a = ap.parse_args()
    pid, n = a.pid, a.n
    slot = a.slot or ('seed%s%s' % (pid, n))
    seed = '/tmp/seed-%s-%s/SEED' % (pid, n)
    out = os.path.join(VERIF, 'seeded', '%s-%s' % (pid, n))
    os.makedirs(out, exist_ok=True)
    for f in ('patch.diff', 'demo.py', 'notes.md'):
        if os.path.exists(os.path.join(seed, f)):
            shutil.copy(os.path.join(seed, f), os.path.join(out, f))
    patch = os.path.join(out, 'patch.diff')
    meta = dict(property=pid, n=int(n), ran=[])
    src = '/var/tmp/pysph-mut-src-%s' % slot
    root = '/var/tmp/pysph-mut-build-%s' % slot
    main_root = '/var/tmp/pysph-verif'
    shutil.rmtree(src, ignore_errors=True)
    sh(['rsync', '-a', '--exclude=.git', '--exclude=/build', '/repo/',
        src + '/'])
    r = sh(['patch', '-p1', '-i', patch], cwd=src)
    meta['patch_applies'] = r.returncode == 0
    if r.returncode != 0:
        print('patch does not apply:', r.stdout[-500:], r.stderr[-300:])
        json.dump(meta, open(os.path.join(out, 'meta.json'), 'w'), indent=1)
        return 2
    files = re.findall(r'^\+\+\+ b/(\S+)', open(patch).read(), re.M)
    meta['files'] = files
    # 2. pinned suite
    if not a.skip_suite:
        t0 = time.time()
        r = sh([PY, '-m', 'pytest', '-q', '-p', 'no:cacheprovider',
                '--timeout=900', '--continue-on-collection-errors'],
               cwd=src, env=dict(os.environ, HOME='/var/tmp/seed-home'))
        tail = (r.stdout.strip().splitlines() or [''])[-1]
        m = re.search(r'(\d+) passed', tail)
        mf = re.search(r'(\d+) failed', tail)
        meta['pinned_suite'] = tail
        meta['pinned_pass'] = bool(m and int(m.group(1)) >= 55 and not mf)
        meta['ran'].append('pinned suite in patched copy: ' + tail)
        print('pinned suite:', tail, '(%.0fs)' % (time.time() - t0))
    # 3. build patched copy
    if not os.path.isdir(os.path.join(root, 'tree')):
        os.makedirs(root, exist_ok=True)
        sh(['cp', '-a', os.path.join(main_root, 'tree'),
            os.path.join(root, 'tree')])
        open(os.path.join(root, '.built'), 'w').write('seeded')
        for d in os.listdir(main_root):
            if d.startswith('home-') and d != 'home-build':
                # hard links (the JIT cache is large and append-only)
                sh(['cp', '-al', os.path.join(main_root, d),
                    os.path.join(root, d)])
    env = dict(os.environ, VERIF_REPO=src, VERIF_BUILD_ROOT=root)
    r = sh([PY, '-m', 'vlib.build'], cwd=VERIF, env=env)
    if r.returncode != 0:
        print('build failed', r.stderr[-800:])
        meta['build'] = 'failed'
        json.dump(meta, open(os.path.join(out, 'meta.json'), 'w'), indent=1)
        return 2
    ptree = os.path.join(root, 'tree')
    demo = os.path.join(out, 'demo.py')
    if os.path.exists(demo):
        for name, tree in (('patched', ptree),
                           ('unpatched', os.path.join(main_root, 'tree'))):
            home = '/var/tmp/seed-home-%s-%s' % (slot, name)
            os.makedirs(home, exist_ok=True)
            e = dict(os.environ, PYTHONPATH=tree, HOME=home,
                     OMP_NUM_THREADS='4')
            try:
                r = sh([PY, demo], env=e, cwd=os.path.dirname(demo),
                       timeout=1800)
                rc = r.returncode
                tail = (r.stdout + r.stderr)[-300:].replace('\n', ' | ')
            except subprocess.TimeoutExpired:
                rc, tail = 'timeout', ''
            meta['demo_' + name] = rc
            meta['ran'].append('demo on %s tree: rc=%s %s' % (name, rc,
                                                              tail[-160:]))
            print('demo %s: rc=%s %s' % (name, rc, tail[-200:]))
            shutil.rmtree(home, ignore_errors=True)
    # 4. my checks
    checks = [pid] + ([c for c in a.checks.split(',') if c != pid]
                      if a.checks else [])
    meta['checks'] = {}
    for c in checks:
        t0 = time.time()
        r = sh([os.path.join(VERIF, 'check'), c, '--tier', a.tier,
                '--no-evidence'], env=dict(env, VERIF_SEED='1'), cwd=VERIF)
        viol = [l for l in r.stdout.splitlines() if l.startswith('VIOLATION')]
        first = [l.strip() for l in r.stdout.splitlines()
                 if l.startswith('  ')][:1]
        verdict = 'CAUGHT' if (r.returncode == 1 and viol) else (
            'MISSED' if r.returncode == 0 else 'ERROR rc=%d' % r.returncode)
        meta['checks'][c] = dict(verdict=verdict, secs=round(
            time.time() - t0), first=(first[0][:300] if first else ''))
        meta['ran'].append('./check %s --tier %s on patched copy: %s' % (
            c, a.tier, verdict))
        print('check %s: %s (%.0fs) %s' % (c, verdict, time.time() - t0,
                                          first[0][:200] if first else ''))
        if verdict.startswith('ERROR'):
            print(r.stdout[-1500:], r.stderr[-800:])
        shutil.rmtree(os.path.join(VERIF, 'replays', c, 'found'),
                      ignore_errors=True)
    json.dump(meta, open(os.path.join(out, 'meta.json'), 'w'), indent=1)
    shutil.rmtree(src, ignore_errors=True)
    shutil.rmtree(root, ignore_errors=True)
    return 0


if __name__ == '__main__':
    sys.exit(main())
