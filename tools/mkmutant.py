#!/venv/bin/python
"""tools/mkmutant.py NAME FILE OLD NEW  -> tools/mutants/NAME.patch
(FILE relative to /repo; OLD must occur exactly once)."""
import difflib
import os
import sys

name, rel, old, new = sys.argv[1:5]
p = os.path.join('/repo', rel)
s = open(p).read()
old = old.encode().decode('unicode_escape')
new = new.encode().decode('unicode_escape')
assert s.count(old) == 1, 'OLD occurs %d times' % s.count(old)
t = s.replace(old, new)
d = difflib.unified_diff(s.splitlines(True), t.splitlines(True),
                         'a/' + rel, 'b/' + rel)
out = os.path.join(os.path.dirname(os.path.abspath(__file__)), 'mutants',
                   name + '.patch')
open(out, 'w').write(''.join(d))
print(out)
