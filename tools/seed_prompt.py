#!/venv/bin/python
"""Print the prompt for a seeding sub-agent: tools/seed_prompt.py C03 [n]"""
import json, sys
pid = sys.argv[1]
n = sys.argv[2] if len(sys.argv) > 2 else '1'
for l in open('/verif/properties.jsonl'):
    p = json.loads(l)
    if p['id'] == pid:
        break
wt = '/tmp/seed-%s-%s' % (pid, n)
print(f"""You are testing how well a verification harness detects regressions in the open-source SPH framework pypr/pysph. You get ONE semantic property of pysph and your own scratch git worktree of the repository at {wt} (create it with: git -C /repo worktree add --detach {wt} HEAD). Work ONLY inside {wt}; never edit /repo itself, never look at or use anything under /verif, and do not commit anything.

The property (id {pid}): {p['title']}
Statement: {p['statement']}
It quantifies over: {p['quantifier']['text']}
Why the existing tests cannot settle it: {p['why_tests_cant']}
Code anchors: {json.dumps(p['anchors'].get('files'))}; mechanisms: {json.dumps(p['anchors'].get('mechanism'))}

Your task: produce a realistic, subtle change to the pysph source in {wt} that BREAKS this property while the code still compiles/imports and the repository's existing pinned test suite still passes. The change should look like a plausible maintenance edit or refactoring slip (off-by-one, wrong variable, dropped update, swapped arguments, stale cache, missing case ...), not sabotage, and it must need something SPECIFIC to manifest: a particular interleaving, a multi-step sequence of operations, an unusual but legal input, a particular option combination, or two cooperating sites that each look fine alone - NOT something ordinary use would expose at once. Keep it small (1-15 changed lines, at most 2 files).

Practicalities:
* The pinned suite is: cd {wt} && /venv/bin/python -m pytest -ra -q -p no:cacheprovider --timeout=900 --continue-on-collection-errors  (it is run WITHOUT built Cython extensions, so only 55 pure-Python tests run and about 133 collection errors are expected; the requirement is that those 55 still pass with your change).
* To actually execute pysph from your worktree you need the compiled extensions: copy the ready-made ones with  rsync -a --include='*/' --include='*.so' --exclude='*' /var/tmp/pysph-verif/tree/ {wt}/  and then run things with PYTHONPATH={wt} HOME=/tmp/seed-home-{pid}-{n} /venv/bin/python ... (JIT-compiled code is cached under $HOME/.pysph; first compile of an evaluator takes 10-60 s). If you change a .pyx/.pxd/.mako-generated file rebuild only what changed with  cd {wt} && /venv/bin/python setup.py build_ext --inplace  (1-3 min). Remove the .so files again (find {wt} -name '*.so' -delete) before running the pinned suite so that it runs exactly as specified.
* Python is /venv/bin/python (numpy, h5py, mako, Cython, hypothesis available; no network).
* Anything taking more than a minute: run it in the background and poll.

Deliverables, all inside {wt}/SEED/ (create it):
1. patch.diff  - `git -C {wt} diff` of your source change only (not SEED/).
2. demo.py     - a small self-contained program (or test) that exercises the specific situation and exits 0 when the property holds and non-zero (with a clear message) when it is violated. Confirm yourself: it FAILS with your change and PASSES without it (save your change with `git diff > SEED/patch.diff` inside your own worktree - never to a path outside it: other agents work concurrently, undo it with `git apply -R`, re-apply with `git apply`; do NOT use `git stash`: the stash is shared by all worktrees of the repository and other agents use it concurrently; rebuild an extension if your change is in one).
3. notes.md    - 5-15 lines: what you changed, why it breaks the property, exactly what is needed for it to manifest, why the pinned tests do not notice, and the commands you ran with their outcomes (pinned suite result line, demo with/without).
Finish with a short report (under 25 lines) repeating the essentials. Do not remove the worktree.""")
