"""Regenerate MANIFEST.json from tools/manifest_table.py (keeps it valid)."""
import json
import os
import sys

HERE = os.path.dirname(os.path.abspath(__file__))
VERIF = os.path.dirname(HERE)
sys.path.insert(0, HERE)
from manifest_table import CHECKS, NOT_APPLICABLE, HOOK_COMMITS  # noqa

BASE_OFF = ("cd /repo && env -u PYSPH_VERIF /venv/bin/python -m pytest -ra -q "
            "-p no:cacheprovider --timeout=900 "
            "--continue-on-collection-errors")

m = {
    "version": 1,
    "setup_cmd": "/venv/bin/python -m vlib.build",
    "hooks": {
        "guard": "PYSPH_VERIF",
        "enable": ("no hooks are compiled in: checks rebuild the current "
                   "/repo tree under /var/tmp/pysph-verif/tree and observe "
                   "it through public APIs only; PYSPH_VERIF is reserved "
                   "and unused"),
        "baseline_off_cmd": BASE_OFF,
        "source_commits": HOOK_COMMITS,
        "add_only": True,
    },
    "engines": [
        {"name": "hypothesis-driver", "path": "vlib/",
         "serves_properties": sorted(CHECKS),
         "kind_free_text": ("Hypothesis 6.168 strategies / stateful "
                            "sequences run in crash-contained shard "
                            "subprocesses with collect-then-shrink and "
                            "signature masking; explicit oracles per check "
                            "module under checks/")},
    ],
    "checks": [],
    "not_applicable": NOT_APPLICABLE,
    "notes": ("./check <ID> --tier quick|thorough [--replay FILE]; exit 0 "
              "clean, 1 VIOLATION, 2 harness error. known_findings.json "
              "lists fixed/open findings."),
}
for pid in sorted(CHECKS):
    c = CHECKS[pid]
    m["checks"].append({
        "property_id": pid,
        "quick_cmd": "./check %s --tier quick" % pid,
        "thorough_cmd": "./check %s --tier thorough" % pid,
        "evidence_file": "evidence/%s.json" % pid,
        "replay_cmd_template": "./check %s --replay {path}" % pid,
        "engine": "hypothesis-driver",
        "level_claimed": {"category": "exploration", "text": c["text"],
                          "design_ref": c.get("design_ref",
                                              "DESIGN.md section 4 " + pid)},
        "level_note": c["note"],
        "technique": c["technique"],
    })
json.dump(m, open(os.path.join(VERIF, "MANIFEST.json"), "w"), indent=1)
try:
    sys.path.insert(0, os.path.join(VERIF, ".deps"))
    import jsonschema
    jsonschema.validate(m, json.load(open(os.path.join(
        VERIF, "vlib", "MANIFEST.schema.json"))))
    print("MANIFEST.json valid:", len(m["checks"]), "checks,",
          len(NOT_APPLICABLE), "not applicable")
except ImportError:
    print("written (jsonschema not available)")
