#!/bin/sh
# usage: tools/run_mutants.sh SLOT OUTFILE ID patch [ID patch ...]
slot=$1; out=$2; shift 2
while [ $# -ge 2 ]; do
  id=$1; p=$2; shift 2
  /verif/tools/sensitivity.py "$p" "$id" --slot "$slot" >> "$out" 2>&1
done
echo "DONE $slot" >> "$out"
