#!/venv/bin/python
"""Run a check against a scratch copy of /repo with a patch applied.

usage: tools/sensitivity.py PATCH ID [ID ...] [--tier quick] [--keep]

The scratch source copy and its build root live under /var/tmp and are
removed afterwards (the build root is kept as a warm cache between mutants
unless --clean is given; it is seeded from the main build tree so only the
extensions touched by the patch are rebuilt).
Prints one line per check:  <patch> <ID> CAUGHT|MISSED|ERROR rc=<rc> <secs>
"""
import argparse
import os
import shutil
import subprocess
import sys
import time

VERIF = os.path.dirname(os.path.dirname(os.path.abspath(__file__)))


def main():
    ap = argparse.ArgumentParser()
    ap.add_argument('patch')
    ap.add_argument('ids', nargs='+')
    ap.add_argument('--tier', default='quick')
    ap.add_argument('--slot', default='0')
    ap.add_argument('--clean', action='store_true')
    ap.add_argument('--seed', default='1')
    ap.add_argument('--verbose', action='store_true')
    ap.add_argument('--only', default=None)
    a = ap.parse_args()
    patch = os.path.abspath(a.patch)
    src = '/var/tmp/pysph-mut-src-%s' % a.slot
    root = '/var/tmp/pysph-mut-build-%s' % a.slot
    main_root = os.environ.get('VERIF_BUILD_ROOT', '/var/tmp/pysph-verif')
    shutil.rmtree(src, ignore_errors=True)
    subprocess.run(['rsync', '-a', '--exclude=.git', '--exclude=/build',
                    '/repo/', src + '/'], check=True)
    p = subprocess.run(['patch', '-p1', '-s', '-i', patch], cwd=src)
    if p.returncode != 0:
        print('%s: patch does not apply' % a.patch)
        return 2
    if not os.path.isdir(os.path.join(root, 'tree')) and \
            os.path.isdir(os.path.join(main_root, 'tree')):
        os.makedirs(root, exist_ok=True)
        subprocess.run(['cp', '-a', os.path.join(main_root, 'tree'),
                        os.path.join(root, 'tree')], check=True)
        open(os.path.join(root, '.built'), 'w').write('seeded')
        for d in os.listdir(main_root):
            if d.startswith('home-') and d != 'home-build':
                # hard links: the JIT cache is ~15 GB and only ever gets
                # new files (modules are named by source hash)
                subprocess.run(['cp', '-al', os.path.join(main_root, d),
                                os.path.join(root, d)], check=False,
                               stderr=subprocess.DEVNULL)
    env = dict(os.environ, VERIF_REPO=src, VERIF_BUILD_ROOT=root,
               VERIF_SEED=a.seed)
    rc_all = 0
    for pid in a.ids:
        t0 = time.time()
        r = subprocess.run([os.path.join(VERIF, 'check'), pid, '--tier',
                            a.tier, '--no-evidence'] +
                           (['--only', a.only] if a.only else []),
                           env=env, cwd=VERIF,
                           capture_output=True, text=True)
        out = r.stdout + r.stderr
        viol = [l for l in r.stdout.splitlines() if l.startswith('VIOLATION')]
        if r.returncode == 1 and viol:
            verdict = 'CAUGHT'
        elif r.returncode == 0:
            verdict = 'MISSED'
            rc_all = 1
        else:
            verdict = 'ERROR'
            rc_all = 1
        print('%s %s %s rc=%d %.0fs' % (os.path.basename(a.patch), pid,
                                        verdict, r.returncode,
                                        time.time() - t0))
        if a.verbose or verdict == 'ERROR':
            print(out[-3000:])
        else:
            for l in r.stdout.splitlines():
                if l.startswith('  ') and verdict == 'CAUGHT':
                    print('   ', l.strip()[:200])
                    break
    # found-replays written by mutant runs are not wanted in /verif
    for pid in a.ids:
        shutil.rmtree(os.path.join(VERIF, 'replays', pid, 'found'),
                      ignore_errors=True)
    shutil.rmtree(src, ignore_errors=True)
    if a.clean:
        shutil.rmtree(root, ignore_errors=True)
    return rc_all


if __name__ == '__main__':
    sys.exit(main())
