"""C11 - saved output loads back to the same particles and solver data.

A case is a record-list model of 1-3 particle arrays plus solver data and
the dump options.  The arrays are built from the model, written with
pysph.solver.utils.dump, read with pysph.solver.utils.load and the loaded
arrays are compared with the *model* (not with the dumped objects): name,
property set with C type / stride / default, constants, output-array list,
values per particle looked up by the unique `uid` property, defaults of the
properties that were not stored, num_real_particles against the loaded tags,
solver data.  Version-1 files are synthesised with numpy.savez in the layout
NumpyOutput._load documents for `version == 1` (optionally with the byte
keys a Python-2 pickle yields) and must still load.
"""
import os
import re
import shutil

from hypothesis import strategies as st

from vlib.hyp import Failure, Outcome, Stats, search, derive_seed

RULE = ('cases = 1-3 particle arrays with distinct identifier names, each '
        'with tag/pid/gid, a unique uid property and 0-4 further properties '
        'of the C types double/float/int/long/unsigned int, strides 1-4, '
        'non-zero defaults, 0-3 constants (double/float/long/int data, '
        'length 0-6), 0-15 particles with tags drawn from {Local, Remote, '
        'Ghost}, output-array list = drawn subset or empty (= all); solver '
        'data t, dt, count plus 0-3 numeric extras; x {npz, hdf5} x compress '
        'x detailed_output x only_real x file name with/without extension '
        'x optionally dumping the loaded arrays once more (npz or hdf5, same '
        'or other detailed/only_real options) and '
        're-loading, solver data as Python or numpy scalars, str and bool '
        'values, or an empty dict; 0 arrays allowed; names include non-ASCII '
        'identifiers; zero defaults; x call style (keywords, positional, '
        'documented defaults omitted, Output classes used directly and '
        're-used for dump and load, single-rank communicator) x loader '
        '(load, Output.load, iter_output with and without array names) x '
        'dotted directory/base names x optional history (the same arrays '
        'dumped once before in another state: particles removed/added and a '
        'property added afterwards, other output list). '
        'v1 shards synthesise version-1 npz files (stride 1, str or bytes '
        'keys). Non-trivial = (>= 1 stored property that is non-double or '
        'strided, and >= 1 ghost/remote particle) or an array with zero '
        'particles; distinct by case hash.')
ASSUMPTIONS = [
    'property / constant / array names are identifiers (ASCII or not) or '
    'other strings with blanks, dots, dashes or a leading digit, but never '
    'contain "/" and are never "." (HDF5 path syntax: such names do not '
    'survive the hdf5 writer; not generated), and are not keyword names of '
    'the ParticleArray and get_particle_array constructors (name, constants, '
    'backend, default_particle_tag, additional_props)',
    'defaults and values are representable in the C type of their property; '
    'tag, pid and gid keep their built-in type and default',
    'the uid property is always among the stored properties (it identifies '
    'the particles)',
    'solver data values are finite 64-bit ints and floats (Python or numpy '
    'scalars), bools and str; a str must come back as an equal str, a bool '
    'as an equal bool/numpy.bool_',
    'a duck-typed communicator with one rank (gather -> [data], rank 0, '
    'size 1) must give the same file as mpi_comm=None (documented: only rank '
    '0 dumps the gathered output)',
    'iter_output(files[, names]) is documented to load the files and yield '
    'the solver data and the (requested) arrays: it is used as a loader',
    'with only_real the expected tags of the loaded particles are all Local; '
    'when tag is not stored the loaded tags are the default (Local), and '
    'num_real_particles is checked against the loaded tags',
    'version-1 files carry no types, strides, defaults, constants or output '
    'lists: stride-1 properties only, values compared after conversion to '
    'the type the v1 reader documents (double; int for tag/pid; unsigned '
    'int for gid)',
]
ESSENTIAL_LABELS = {'all': [
    'fmt:npz', 'fmt:hdf5', 'compress', 'detailed', 'brief', 'only_real',
    'all_particles', 'nonlocal_stored', 'empty_array', 'zero_real',
    'strided_stored', 'nondouble_stored', 'nonstored_prop',
    'nonstored_strided', 'output_all',
    'output_subset', 'multi_array', 'constants', 'tag_not_stored',
    'solver_extras', 'noext', 'again:npz', 'again:hdf5', 'np_solver', 'v1',
    'v1_bytes', 'v1_nonlocal',
    'call:pos', 'call:defaults', 'default_only_real', 'call:class',
    'call:class_defaults', 'call:comm', 'loader:class', 'loader:iter',
    'loader:iter_named', 'history', 'history_class_reuse', 'late_prop',
    'held_back', 'decoys_removed', 'dotted_path', 'dotted_noext',
    'unicode_name', 'unicode_output', 'zero_default', 'no_arrays',
    'sd_empty', 'sd_str', 'sd_bool', 'again_other_opts', 'v1_sd_str',
    'big_long_default', 'big_long_value', 'sd_big_int', 'odd_name']}

UINT_MAX = (1 << 32) - 1
TYPES = ['double', 'float', 'int', 'long', 'unsigned int']
NPT = {'double': 'f8', 'float': 'f4', 'int': 'i4', 'long': 'i8',
       'unsigned int': 'u4'}
# constants: numpy dtype of the data given -> C type add_constant documents
CONST_CT = {'f8': 'double', 'f4': 'float', 'i8': 'long', 'i4': 'long'}

PROP_NAMES = ['x', 'y', 'h', 'rho', 'vel', 'a_1', 'T', 'Fx', '_q', 'auhat',
              'data', 'type', 'stored', 'arrays', 'default', 'm0', 'R2',
              '\u03c1', '\u0394p', 'a b', 'x.y', '2nd', 'p-q']
CONST_NAMES = ['c0', 'alpha', 'total_mass', 'cm', 'version', 'particles',
               'K_', '\u03bd0', 'c-1', 'k.1']
ARRAY_NAMES = ['fluid', 'solid', 'a', 'boundary_1', 'Inlet', '_b',
               'solver_data', 'arrays', 'fl\u00fcssig', 'fluid-1',
              'my fluid', 'a.b']
EXTRA_NAMES = ['tf', 'pfreq', 'max_steps', 'cfl', '_x', 'arrays', 'name',
               'version', 'particles', '\u03c4', 'a b']


BIG_LONGS = [2 ** 63 - 1, -2 ** 63, 2 ** 53 + 1, -2 ** 53 - 1,
             2 ** 62 + 12345, -2 ** 61 - 7, 10 ** 18 + 1]


# ---------------------------------------------------------------- generation
def value_st(t):
    if t == 'double':
        return st.one_of(st.integers(-9, 9).map(float),
                         st.floats(allow_nan=False, allow_infinity=False,
                                   width=64))
    if t == 'float':
        return st.one_of(st.integers(-9, 9).map(float),
                         st.floats(allow_nan=False, allow_infinity=False,
                                   width=32))
    if t == 'int':
        return st.one_of(st.integers(-9, 9),
                         st.integers(-2 ** 31, 2 ** 31 - 1),
                         st.sampled_from([2 ** 31 - 1, -2 ** 31]))
    if t == 'long':
        # values a double cannot hold must be frequent (Hypothesis prefers
        # small magnitudes)
        return st.one_of(st.integers(-9, 9),
                         st.integers(-2 ** 63, 2 ** 63 - 1),
                         st.sampled_from(BIG_LONGS))
    return st.one_of(st.integers(0, 9), st.integers(0, UINT_MAX),
                     st.sampled_from([UINT_MAX, 2 ** 31, UINT_MAX - 1]))


def default_st(t):
    nz = value_st(t).filter(lambda v: v != 0)
    zero = 0.0 if t in ('double', 'float') else 0
    return st.one_of(nz, nz, nz, nz, st.just(zero))


@st.composite
def array_st(draw, name, v1):
    n = draw(st.sampled_from([0, 0, 1, 2, 3, 4, 6, 9, 15]))
    tk = draw(st.sampled_from(['local', 'mixed', 'mixed', 'mixed',
                               'nonlocal']))
    if tk == 'local':
        tags = [0] * n
    elif tk == 'nonlocal':
        tags = [draw(st.sampled_from([1, 2])) for _ in range(n)]
    else:
        tags = [draw(st.sampled_from([0, 0, 1, 2])) for _ in range(n)]
    names = draw(st.lists(st.sampled_from(PROP_NAMES), min_size=0,
                          max_size=4, unique=True))
    props = []
    for pn in names:
        t = draw(st.sampled_from(TYPES))
        s = 1 if v1 else draw(st.sampled_from([1, 1, 2, 3, 4]))
        props.append(dict(
            name=pn, type=t, stride=s, default=draw(default_st(t)),
            values=draw(st.lists(value_st(t), min_size=n * s,
                                 max_size=n * s))))
    props.append(dict(name='pid', type='int', stride=1, default=0,
                      values=draw(st.lists(st.integers(0, 5), min_size=n,
                                           max_size=n))))
    props.append(dict(name='gid', type='unsigned int', stride=1,
                      default=UINT_MAX,
                      values=draw(st.lists(value_st('unsigned int'),
                                           min_size=n, max_size=n))))
    ut = draw(st.sampled_from(['long', 'long', 'int', 'unsigned int',
                               'double']))
    uids = draw(st.lists(st.integers(1, 999), min_size=n, max_size=n,
                         unique=True))
    props.append(dict(name='uid', type=ut, stride=1,
                      default=draw(st.integers(1000, 1005)),
                      values=[float(u) if ut == 'double' else u
                              for u in uids]))
    order = draw(st.permutations(list(range(len(props) + 1))))
    allnames = [p['name'] for p in props] + ['tag']
    if draw(st.integers(0, 3)) == 0:
        output = []
    else:
        output = [x for x in draw(st.permutations(allnames))
                  if x == 'uid' or draw(st.booleans())]
    consts = []
    if not v1:
        cn = draw(st.lists(st.sampled_from(CONST_NAMES), min_size=0,
                           max_size=3, unique=True))
        for c in cn:
            dt = draw(st.sampled_from(['f8', 'f8', 'i8', 'f4', 'i4']))
            t = {'f8': 'double', 'f4': 'float', 'i8': 'long',
                 'i4': 'int'}[dt]
            consts.append(dict(
                name=c, dtype=dt,
                values=draw(st.lists(value_st(t), min_size=0, max_size=6))))
    return dict(name=name, n=n, tags=tags, props=props, order=list(order),
                output=output, constants=consts)


@st.composite
def solver_data_st(draw):
    sd = dict(t=draw(st.floats(0, 1e6, allow_nan=False)),
              dt=draw(st.floats(1e-12, 1e3, allow_nan=False)),
              count=draw(st.integers(0, 10 ** 7)))
    if draw(st.sampled_from([0] * 11 + [1])):
        return {}
    for k in draw(st.lists(st.sampled_from(EXTRA_NAMES), min_size=0,
                           max_size=3, unique=True)):
        sd[k] = draw(st.one_of(
            st.integers(-2 ** 63, 2 ** 63 - 1), st.integers(-9, 9),
            st.sampled_from(BIG_LONGS),
            st.floats(allow_nan=False, allow_infinity=False),
            st.floats(allow_nan=False, allow_infinity=False),
            st.booleans(),
            st.sampled_from(['abc', 'a b', 'out_3.npz', '\u00fc\u03c1'])))
    return sd


@st.composite
def pre_st(draw, a):
    """An earlier state of array `a` (see build_array / grow_array)."""
    cands = [p['name'] for p in a['props']
             if p['name'] not in ('pid', 'gid', 'uid')]
    late = draw(st.sampled_from([None] + cands)) if cands else None
    avail = [p['name'] for p in a['props'] if p['name'] != late] + ['tag']
    if draw(st.booleans()):
        out = []
    else:
        out = [x for x in avail if x == 'uid' or draw(st.booleans())]
    return dict(hold=draw(st.integers(0, min(a['n'], 3))), late=late,
                extra=draw(st.integers(0, 3)), output=out)


@st.composite
def case_strategy(draw, mode, fmt, bytes_keys=False):
    v1 = mode == 'v1'
    names = draw(st.lists(st.sampled_from(ARRAY_NAMES), min_size=1,
                          max_size=3, unique=True))
    if draw(st.sampled_from([0] * 15 + [1])):
        names = []      # an empty list of arrays is a list of arrays
    arrays = [draw(array_st(nm, v1)) for nm in names]
    case = dict(mode=mode, fmt=fmt, arrays=arrays,
                solver_data=draw(solver_data_st()),
                detailed=draw(st.booleans()),
                only_real=draw(st.booleans()))
    if v1:
        case['bytes_keys'] = bytes_keys
    else:
        case['compress'] = draw(st.booleans())
        case['again'] = draw(st.sampled_from([None, None, 'npz', 'hdf5']))
        case['np_solver'] = draw(st.booleans())
        case['ext'] = True if fmt == 'npz' else draw(st.booleans())
        case['call'] = draw(st.sampled_from(
            ['kw', 'pos', 'defaults', 'defaults', 'class', 'class_defaults',
             'comm']))
        case['loader'] = draw(st.sampled_from(
            ['load', 'load', 'class', 'iter', 'iter_named']))
        case['path'] = draw(st.sampled_from(
            ['plain', 'plain', 'dotdir', 'dotbase', 'dotboth']))
        if draw(st.sampled_from([0, 0, 1])):
            case['pre'] = [draw(pre_st(a)) for a in arrays]
        else:
            case['pre'] = None
        if case['again'] and draw(st.booleans()):
            case['again_opts'] = dict(detailed=draw(st.booleans()),
                                      only_real=draw(st.booleans()))
        else:
            case['again_opts'] = None
    return case


# --------------------------------------------------------------------- model
def stored_names(a, detailed):
    allnames = [p['name'] for p in a['props']] + ['tag']
    if detailed or not a['output']:
        return allnames
    return list(a['output'])


def prop_table(a):
    """name -> (ctype, stride, default, flat values) including tag."""
    tab = {}
    for p in a['props']:
        tab[p['name']] = (p['type'], p['stride'], p['default'], p['values'])
    tab['tag'] = ('int', 1, 0, a['tags'])
    return tab


def expectation(a, rounds):
    """What is expected after the dump/load rounds [(detailed, only_real)]:
    names of the properties that still carry the model's values, indices of
    the surviving particles, their expected tags."""
    keep = list(range(a['n']))
    tags = list(a['tags'])
    stored = None
    for detailed, only_real in rounds:
        now = stored_names(a, detailed)
        stored = now if stored is None else [x for x in stored if x in now]
        if only_real:
            sel = [j for j, t in enumerate(tags) if t == 0]
            keep = [keep[j] for j in sel]
            tags = [tags[j] for j in sel]
        if 'tag' not in stored:
            tags = [0] * len(keep)
    return stored, keep, tags


DECOY_UID = 2000


def build_array(a, pre=None):
    """The array of the model; with `pre` an earlier state of it: the last
    `hold` particles and the property `late` are missing, `extra` decoy
    particles (uid >= 2000) are present and the output list is another."""
    import numpy as np
    from pysph.base.particle_array import ParticleArray
    tab = prop_table(a)
    names = [p['name'] for p in a['props']] + ['tag']
    kw = {}
    n0 = a['n'] - (pre['hold'] if pre else 0)
    ne = pre['extra'] if pre else 0
    for i in a['order']:
        nm = names[i]
        if pre and nm == pre['late']:
            continue
        t, s, d, v = tab[nm]
        data = np.array(v, dtype=NPT[t])[:n0 * s]
        if ne:
            if nm == 'uid':
                ext = np.arange(DECOY_UID, DECOY_UID + ne)
            elif nm == 'tag':
                ext = np.array([(0, 2, 1)[j % 3] for j in range(ne)])
            else:
                ext = np.empty(ne * s, dtype=NPT[t])
                ext[:] = d
            data = np.concatenate([data, ext.astype(NPT[t])])
        kw[nm] = dict(data=data, type=t, default=d, stride=s)
    consts = {c['name']: np.array(c['values'], dtype=c['dtype'])
              for c in a['constants']}
    pa = ParticleArray(name=a['name'], constants=consts, **kw)
    pa.set_output_arrays(list(pre['output'] if pre else a['output']))
    return pa


def grow_array(pa, a, pre):
    """Bring the earlier state built by build_array(a, pre) to the model's
    state with the public ParticleArray operations."""
    import numpy as np
    tab = prop_table(a)
    names = [p['name'] for p in a['props']] + ['tag']
    uid = pa.get('uid', only_real_particles=False)
    rm = np.where(uid >= DECOY_UID)[0]
    if len(rm):
        pa.remove_particles(rm)
    n0 = a['n'] - pre['hold']
    if pre['hold']:
        kw = {}
        for nm in names:
            if nm == pre['late']:
                continue
            t, s, d, v = tab[nm]
            kw[nm] = np.array(v, dtype=NPT[t])[n0 * s:]
        pa.add_particles(**kw)
    if pre['late']:
        nm = pre['late']
        t, s, d, v = tab[nm]
        mv = np.array(v, dtype=NPT[t])
        where = {float(u): i for i, u in enumerate(tab['uid'][3])}
        cur = pa.get('uid', only_real_particles=False).tolist()
        if cur:
            data = np.concatenate([mv[where[float(u)] * s:
                                      (where[float(u)] + 1) * s]
                                   for u in cur])
            pa.add_property(nm, type=t, default=d, data=data, stride=s)
        else:
            pa.add_property(nm, type=t, default=d, stride=s)
    pa.set_output_arrays(list(a['output']))


class FakeComm(object):
    """A communicator with a single rank."""

    def gather(self, data, root=0):
        return [data]

    def Get_rank(self):
        return 0

    def Get_size(self):
        return 1


def call_dump(case, arg, target, pas, sd, state):
    from pysph.solver.utils import dump
    from pysph.solver.output import NumpyOutput, HDFOutput
    det, onr, cmp_ = case['detailed'], case['only_real'], case['compress']
    style = case.get('call') or 'kw0'
    if style == 'kw0':      # committed replays
        dump(arg, pas, sd, detailed_output=det, only_real=onr, compress=cmp_)
    elif style == 'kw':
        dump(arg, pas, sd, detailed_output=det, only_real=onr,
             mpi_comm=None, compress=cmp_)
    elif style == 'pos':
        dump(arg, pas, sd, det, onr, None, cmp_)
    elif style == 'comm':
        dump(arg, pas, sd, detailed_output=det, only_real=onr,
             mpi_comm=FakeComm(), compress=cmp_)
    else:
        kw = {}
        if det:
            kw['detailed_output'] = True
        if not onr:
            kw['only_real'] = False
        if cmp_:
            kw['compress'] = True
        if style == 'defaults':
            dump(arg, pas, sd, **kw)
            return
        out = state.get('out')
        if out is None:
            klass = HDFOutput if case['fmt'] == 'hdf5' else NumpyOutput
            if style == 'class':
                out = klass(det, onr, None, cmp_)
            else:
                out = klass(**kw)
            state['out'] = out
        out.dump(target, pas, sd)


def call_load(case, target, state):
    from pysph.solver.utils import load, iter_output
    from pysph.solver.output import NumpyOutput, HDFOutput
    how = case.get('loader') or 'load'
    names = [a['name'] for a in case['arrays']][::-1]
    if how == 'iter_named' and not names:
        how = 'iter'
    if how == 'load':
        return load(target)
    if how == 'class':
        out = state.get('out')
        if out is None:
            out = HDFOutput() if target.endswith('hdf5') else NumpyOutput()
        return out.load(target)
    if how == 'iter':
        res = list(iter_output([target]))
        if len(res) != 1 or len(res[0]) != 2:
            return res
        return dict(solver_data=res[0][0], arrays=res[0][1])
    res = list(iter_output([target], *names))
    if len(res) != 1 or len(res[0]) != 1 + len(names):
        return res
    return dict(solver_data=res[0][0], arrays=dict(zip(names, res[0][1:])))


def _eq(a, b):
    try:
        if hasattr(a, 'item'):
            a = a.item()     # numpy scalar -> exact Python number
        return bool(a == b)
    except Exception:
        return False


def _records(arr, uids, stride):
    """uid -> tuple of bytes of the particle's values."""
    out = {}
    for i, u in enumerate(uids):
        out[u] = arr[i * stride:(i + 1) * stride].tobytes()
    return out


def compare_array(comp, pa, a, stored, keep, exp_tags, exp_output, kl0,
                  only_real=False):
    """Compare ParticleArray `pa` with model `a`.

    stored: names of the properties whose values were stored; keep: indices
    (into the model) of the particles expected in `pa`; exp_tags: expected
    tag of each kept particle after loading.
    """
    import numpy as np
    F = []

    def fail(kind, detail, klass=None, expected=None, observed=None):
        k = dict(kl0)
        k.update(klass or {})
        F.append(Failure(comp, kind, '%s: %s' % (a['name'], detail), k,
                         expected, observed))

    tab = prop_table(a)
    if pa.name != a['name']:
        fail('name', 'array name %r' % (pa.name,))
    got = set(pa.properties.keys())
    if got != set(tab):
        fail('property_set', 'properties differ: missing %s, extra %s' % (
            sorted(set(tab) - got), sorted(got - set(tab))))
    nexp = len(keep)
    ntot = pa.get_number_of_particles()
    if ntot != nexp:
        fail('particle_count', 'loaded %d particles, expected %d' % (
            ntot, nexp), dict(only_real=only_real))
        return F
    for nm in sorted(tab):
        if nm not in got:
            continue
        t, s, d, v = tab[nm]
        is_st = nm in stored
        ca = pa.properties[nm]
        if ca.get_c_type() != t:
            fail('ctype', 'property %s has C type %r, expected %r' % (
                nm, ca.get_c_type(), t), dict(ctype=t, stored=is_st))
            continue
        gs = pa.stride.get(nm, 1)
        if gs != s:
            fail('stride', 'property %s has stride %r, expected %r' % (
                nm, gs, s), dict(stored=is_st))
            continue
        gd = pa.default_values.get(nm)
        if not _eq(gd, d):
            fail('default', 'property %s has default %r, expected %r' % (
                nm, gd, d), dict(stored=is_st), repr(d), repr(gd))
        if ca.length != nexp * s:
            fail('length', 'property %s has %d values for %d particles of '
                 'stride %d' % (nm, ca.length, nexp, s), dict(stored=is_st))
    if F:
        return F

    # constants
    cexp = {c['name']: c for c in a['constants']}
    if set(pa.constants.keys()) != set(cexp):
        fail('constants', 'constant names %s, expected %s' % (
            sorted(pa.constants.keys()), sorted(cexp)),
            dict(what='names'))
    else:
        for cn, c in cexp.items():
            ca = pa.constants[cn]
            ct = CONST_CT[c['dtype']]
            ev = np.array(c['values'], dtype=c['dtype']).astype(
                NPT[ct])
            gv = ca.get_npy_array()
            if ca.get_c_type() != ct:
                fail('constants', 'constant %s has C type %r, expected '
                     '%r' % (cn, ca.get_c_type(), ct),
                     dict(what='type', ctype=ct))
            elif gv.shape != ev.shape or \
                    gv.tobytes() != ev.tobytes():
                fail('constants', 'constant %s = %r, expected %r' % (
                    cn, gv.tolist(), ev.tolist()),
                    dict(what='values', ctype=ct))

    # output arrays
    if exp_output is not None:
        go = list(pa.output_property_arrays)
        if go != list(exp_output):
            if set(go) != set(exp_output):
                eff_g = set(go) or set(tab)
                eff_e = set(exp_output) or set(tab)
                diff = 'set' if eff_g != eff_e else 'explicit_all'
            else:
                diff = 'order'
            fail('output_arrays', 'output_property_arrays %r, expected %r'
                 % (go, list(exp_output)), dict(diff=diff),
                 repr(list(exp_output)), repr(go))

    # tags / num_real_particles
    tags = pa.get('tag', only_real_particles=False)
    nreal = int(np.sum(tags == 0))
    kl_t = dict(tag_stored='tag' in stored, only_real=only_real,
                nonlocal_loaded=bool(any(t != 0 for t in exp_tags)))
    aligned = False
    if pa.num_real_particles != nreal:
        fail('num_real_particles', 'num_real_particles = %d but %d loaded '
             'particles carry the Local tag (tags %s)' % (
                 pa.num_real_particles, nreal, tags.tolist()), kl_t,
             nreal, int(pa.num_real_particles))
    elif not np.all(tags[:nreal] == 0):
        fail('not_aligned', 'Local particles do not come first: tags %s' %
             tags.tolist(), kl_t)
    else:
        aligned = True

    # values, by uid
    uid_t = tab['uid'][0]
    uid_all = pa.get('uid', only_real_particles=False)
    exp_uid = [tab['uid'][3][i] for i in keep]
    if sorted(uid_all.tolist()) != sorted(exp_uid):
        fail('values', 'uid values %s, expected %s' % (
            sorted(uid_all.tolist()), sorted(exp_uid)),
            dict(prop='uid', ctype=uid_t))
        return F
    uids = uid_all.tolist()
    nr = int(pa.num_real_particles)
    exp_real = set(tab['uid'][3][i] for i, tg in zip(keep, exp_tags)
                   if tg == 0)
    for nm in sorted(tab):
        t, s, d, v = tab[nm]
        full = pa.get(nm, only_real_particles=False)
        if full.dtype != np.dtype(NPT[t]):
            fail('ctype', 'numpy dtype of %s is %s' % (nm, full.dtype),
                 dict(ctype=t, stored=nm in stored))
            continue
        kl_v = dict(ctype=t, strided=s > 1, stored=nm in stored)
        if nm in stored:
            src = exp_tags if nm == 'tag' else None
            mv = np.array(v, dtype=NPT[t])
            exp = {}
            for j, i in enumerate(keep):
                if src is not None:
                    exp[tab['uid'][3][i]] = np.array(
                        [src[j]], dtype='i4').tobytes()
                else:
                    exp[tab['uid'][3][i]] = mv[i * s:(i + 1) * s].tobytes()
        else:
            one = np.empty(s, dtype=NPT[t])
            one[:] = d
            exp = {u: one.tobytes() for u in exp_uid}
        gotr = _records(full, uids, s)
        bad = [u for u in exp if gotr.get(u) != exp[u]]
        if bad:
            u = bad[0]
            fail('values' if nm in stored else 'nonstored_values',
                 'property %s of particle uid=%r is %s, expected %s '
                 '(%d of %d particles differ)' % (
                     nm, u,
                     np.frombuffer(gotr[u], dtype=NPT[t]).tolist(),
                     np.frombuffer(exp[u], dtype=NPT[t]).tolist(),
                     len(bad), len(exp)), kl_v)
            continue
        # the default accessors (meaningless once num_real_particles is
        # known to be wrong: that is reported above)
        if not aligned:
            continue
        for how, arr in (('getattr', getattr(pa, nm)), ('get', pa.get(nm))):
            ok = arr.dtype == full.dtype and arr.size == nr * s
            if ok:
                r = _records(arr, uids[:nr], s)
                ok = set(r) == exp_real and all(r[u] == exp[u] for u in r)
            if not ok:
                fail('real_accessor', '%s(%s) returns %s; expected the '
                     'values of the Local particles uid=%s' % (
                         how, nm, arr.tolist(), sorted(exp_real)),
                     dict(kl_v, **kl_t))
                break
    return F


def sanitize(msg):
    msg = str(msg).split(':')[0]
    msg = re.sub(r"'[^']*'|\"[^\"]*\"", 'S', msg)
    msg = re.sub(r'[0-9]+', 'N', msg)
    return msg[:80]


# ------------------------------------------------------------------ execution
class Scratch(object):
    def __init__(self, path):
        self.path = path
        self.count = 0
        shutil.rmtree(path, ignore_errors=True)
        os.makedirs(path, exist_ok=True)

    def fresh(self):
        self.count += 1
        d = os.path.join(self.path, 'c%d' % self.count)
        os.makedirs(d, exist_ok=True)
        return d

    def drop(self, d):
        shutil.rmtree(d, ignore_errors=True)


def labels_of(case):
    L = ['fmt:' + case['fmt']]
    v1 = case['mode'] == 'v1'
    if v1:
        L.append('v1')
        if case.get('bytes_keys'):
            L.append('v1_bytes')
    else:
        L.append('compress' if case['compress'] else 'plain')
        if not case['ext']:
            L.append('noext')
        if case.get('again'):
            L.append('again:' + case['again'])
        if case.get('np_solver'):
            L.append('np_solver')
        call = case.get('call') or 'kw'
        L.append('call:' + call)
        if call in ('defaults', 'class_defaults') and case['only_real'] \
                and any(t != 0 for a in case['arrays'] for t in a['tags']):
            L.append('default_only_real')
        L.append('loader:' + (case.get('loader') or 'load'))
        path = case.get('path') or 'plain'
        if path != 'plain':
            L.append('dotted_path')
            if not case['ext'] and path in ('dotbase', 'dotboth') and \
                    not call.startswith('class'):
                L.append('dotted_noext')
        if case.get('pre') and case['arrays']:
            L.append('history')
            if call.startswith('class'):
                L.append('history_class_reuse')
            for q in case['pre']:
                if q['late']:
                    L.append('late_prop')
                if q['hold']:
                    L.append('held_back')
                if q['extra']:
                    L.append('decoys_removed')
        if case.get('again') and case.get('again_opts') and (
                case['again_opts']['detailed'] != case['detailed'] or
                case['again_opts']['only_real'] != case['only_real']):
            L.append('again_other_opts')
    L.append('detailed' if case['detailed'] else 'brief')
    L.append('only_real' if case['only_real'] else 'all_particles')
    if len(case['arrays']) > 1:
        L.append('multi_array')
    if len(case['solver_data']) > 3:
        L.append('solver_extras')
    if not case['solver_data']:
        L.append('sd_empty')
    for v in case['solver_data'].values():
        if isinstance(v, str):
            L.append('v1_sd_str' if v1 else 'sd_str')
        elif isinstance(v, bool):
            L.append('sd_bool')
    if not case['arrays']:
        L.append('no_arrays')
    if any(isinstance(v, int) and not isinstance(v, bool) and
           abs(v) > 2 ** 53 for v in case['solver_data'].values()):
        L.append('sd_big_int')

    def uni(x):
        return any(ord(ch) > 127 for ch in x)
    nontrivial = False
    for a in case['arrays']:
        stored = stored_names(a, case['detailed'])
        tab = prop_table(a)
        nonlocal_ = any(t != 0 for t in a['tags'])
        if a['n'] == 0:
            L.append('empty_array')
            nontrivial = True
        elif all(t != 0 for t in a['tags']):
            L.append('zero_real')
        if nonlocal_ and not case['only_real']:
            L.append('v1_nonlocal' if v1 else 'nonlocal_stored')
        special = False
        for nm in stored:
            if nm in ('tag', 'pid', 'gid'):
                continue
            if tab[nm][1] > 1:
                L.append('strided_stored')
                special = True
            if tab[nm][0] != 'double':
                if nm != 'uid':
                    L.append('nondouble_stored')
                special = True
        if special and nonlocal_:
            nontrivial = True
        if len(stored) < len(tab):
            L.append('nonstored_prop')
            if any(tab[nm][1] > 1 for nm in tab if nm not in stored):
                L.append('nonstored_strided')
        if 'tag' not in stored:
            L.append('tag_not_stored')
        L.append('output_subset' if a['output'] else 'output_all')
        if a['constants']:
            L.append('constants')
        if uni(a['name']) or any(uni(x) for x in tab) or \
                any(uni(c['name']) for c in a['constants']):
            L.append('unicode_name')
        if any(uni(x) for x in a['output']):
            L.append('unicode_output')
        if not all(x.isidentifier() for x in [a['name']] + list(tab) +
                   [c['name'] for c in a['constants']]):
            L.append('odd_name')
        if any(p['default'] == 0 for p in a['props']
               if p['name'] not in ('pid', 'gid', 'uid')):
            L.append('zero_default')
        if any(p['type'] == 'long' and abs(p['default']) > 2 ** 53
               for p in a['props']):
            L.append('big_long_default')
        if any(p['type'] == 'long' and p['name'] in stored and
               any(abs(v) > 2 ** 53 for v in p['values'])
               for p in a['props']):
            L.append('big_long_value')
    return sorted(set(L)), nontrivial


def run_v2(case, d):
    fmt = case['fmt']
    kl0 = dict(fmt=fmt)
    pre_case = case.get('pre') if case['arrays'] else None
    try:
        if pre_case:
            pas = [build_array(a, q)
                   for a, q in zip(case['arrays'], pre_case)]
        else:
            pas = [build_array(a) for a in case['arrays']]
    except Exception as ex:
        raise RuntimeError('cannot build the input arrays: %r' % (ex,))
    cnt = case['solver_data'].get('count', 0) % 1000
    path = case.get('path') or 'plain'
    if path in ('dotdir', 'dotboth'):
        d = os.path.join(d, 'run.v2_output')
        os.makedirs(d)
    stem = 'my.out_%d' if path in ('dotbase', 'dotboth') else 'out_%d'
    base = os.path.join(d, stem % cnt)
    target = base + '.' + fmt
    arg = target if case['ext'] else base
    sd = dict(case['solver_data'])
    if case.get('np_solver'):
        import numpy as np
        sd = {k: (v if isinstance(v, str) else np.bool_(v)
                  if isinstance(v, bool) else np.int64(v)
                  if isinstance(v, int) else np.float64(v))
              for k, v in sd.items()}
    sd0 = dict(sd)
    state = {}
    expect_files = [os.path.basename(target)]
    if pre_case:
        # the same arrays were dumped once before, in an earlier state
        base0 = os.path.join(d, stem % (cnt + 1000))
        target0 = base0 + '.' + fmt
        try:
            call_dump(case, target0 if case['ext'] else base0, target0,
                      pas[::-1], dict(sd), state)
        except Exception as ex:
            return [Failure(fmt, 'exception', 'dump raised %r' % (ex,),
                            dict(kl0, stage='dump', exc=type(ex).__name__,
                                 msg=sanitize(ex)))]
        expect_files.append(os.path.basename(target0))
        try:
            for pa, a, q in zip(pas, case['arrays'], pre_case):
                grow_array(pa, a, q)
        except Exception as ex:
            raise RuntimeError('cannot grow the input arrays: %r' % (ex,))
    pre = []
    for pa, a in zip(pas, case['arrays']):
        keep = list(range(a['n']))
        pre += compare_array('input', pa, a, list(prop_table(a)), keep,
                             [a['tags'][i] for i in keep], a['output'], {})
    if pre:
        raise RuntimeError('input arrays do not match the model: %s' %
                           pre[0].detail)
    try:
        call_dump(case, arg, target, pas, sd, state)
    except Exception as ex:
        return [Failure(fmt, 'exception', 'dump raised %r' % (ex,),
                        dict(kl0, stage='dump', exc=type(ex).__name__,
                             msg=sanitize(ex)))]
    files = sorted(os.listdir(d))
    if files != sorted(expect_files):
        return [Failure(fmt, 'file_name', 'dump(%r) wrote %s' % (
            os.path.basename(arg), files),
            dict(kl0, dotted=path != 'plain'))]
    F = []
    if sd != sd0:
        F.append(Failure(fmt, 'input_modified', 'dump changed the solver '
                         'data dict', kl0))
    try:
        data = call_load(case, target, state)
    except Exception as ex:
        return F + [Failure(fmt, 'exception', 'load raised %r' % (ex,),
                            dict(kl0, stage='load', exc=type(ex).__name__,
                                 msg=sanitize(ex)))]
    rounds = [(case['detailed'], case['only_real'])]
    F += compare_loaded(case, data, kl0, rounds=rounds)
    if not F and case.get('again'):
        F += second_round(case, data, d, rounds)
    # the dumped arrays themselves must be unchanged
    for pa, a in zip(pas, case['arrays']):
        keep = list(range(a['n']))
        post = compare_array('input', pa, a, list(prop_table(a)), keep,
                             [a['tags'][i] for i in keep], a['output'], {})
        if post:
            F.append(Failure(fmt, 'input_modified', 'dump/load changed the '
                             'dumped array: ' + post[0].detail, kl0))
    return F


def second_round(case, data, d, rounds):
    """Dump what was loaded (same or other options, drawn format) and load
    again: the result must still match the model."""
    from pysph.solver.utils import dump, load
    fmt2 = case['again']
    kl0 = dict(fmt=fmt2, reload_of=case['fmt'])
    opts = case.get('again_opts') or dict(detailed=case['detailed'],
                                          only_real=case['only_real'])
    pas = [data['arrays'][a['name']] for a in case['arrays']]
    d2 = os.path.join(d, 'again')
    os.makedirs(d2)
    target = os.path.join(d2, 'again_1.' + fmt2)
    try:
        dump(target, pas, data['solver_data'],
             detailed_output=opts['detailed'], only_real=opts['only_real'],
             compress=case['compress'])
    except Exception as ex:
        return [Failure(fmt2, 'exception', 'dump of loaded arrays raised %r'
                        % (ex,), dict(kl0, stage='dump',
                                      exc=type(ex).__name__,
                                      msg=sanitize(ex)))]
    try:
        data2 = load(target)
    except Exception as ex:
        return [Failure(fmt2, 'exception', 'load raised %r' % (ex,),
                        dict(kl0, stage='load', exc=type(ex).__name__,
                             msg=sanitize(ex)))]
    return compare_loaded(case, data2, kl0, fmt2,
                          rounds + [(opts['detailed'], opts['only_real'])])


def compare_solver_data(fmt, got, exp, kl0):
    import math
    import numpy as np
    F = []
    try:
        gk = sorted(got.keys())
    except Exception:
        return [Failure(fmt, 'solver_data', 'solver_data is %r' % (got,),
                        kl0)]
    if gk != sorted(exp):
        return [Failure(fmt, 'solver_data', 'keys %s, expected %s' % (
            gk, sorted(exp)), dict(kl0, what='keys'))]
    for k, v in exp.items():
        g = got[k]
        if isinstance(v, str):
            ok = isinstance(g, str) and g == v
        elif isinstance(v, bool):
            ok = isinstance(g, (bool, np.bool_)) and bool(g) == v
        else:
            ok = _eq(g, v) and not isinstance(g, (bool, np.bool_, str))
            if ok:
                # an int must not come back as a rounded float and vice
                # versa
                try:
                    ok = (int(g) == int(v)) if isinstance(v, int) else \
                        (float(g) == v and math.isfinite(float(g)))
                except Exception:
                    ok = False
        if not ok:
            F.append(Failure(fmt, 'solver_data', '%s = %r, expected %r' % (
                k, g, v), dict(kl0, what='value',
                               vtype=type(v).__name__), repr(v), repr(g)))
            break
    return F


def compare_loaded(case, data, kl0, fmt=None, rounds=None):
    fmt = fmt or case['fmt']
    if rounds is None:
        rounds = [(case['detailed'], case['only_real'])]
    F = []
    if not isinstance(data, dict) or 'arrays' not in data or \
            'solver_data' not in data:
        return [Failure(fmt, 'structure', 'load returned %r' % (data,),
                        kl0)]
    F += compare_solver_data(fmt, data['solver_data'],
                             case['solver_data'], kl0)
    names = [a['name'] for a in case['arrays']]
    if sorted(data['arrays'].keys()) != sorted(names):
        F.append(Failure(fmt, 'array_names', 'arrays %s, expected %s' % (
            sorted(data['arrays'].keys()), sorted(names)), kl0))
        return F
    for a in case['arrays']:
        pa = data['arrays'][a['name']]
        stored, keep, exp_tags = expectation(a, rounds)
        F += compare_array(fmt, pa, a, stored, keep, exp_tags, a['output'],
                           kl0, only_real=rounds[-1][1])
    return F


# ------------------------------------------------------------------ version 1
V1_DEFAULT = ('x', 'y', 'z', 'u', 'v', 'w', 'm', 'h', 'rho', 'p', 'au', 'av',
              'aw', 'gid', 'pid', 'tag')


def run_v1(case, d):
    """Write a version-1 file as the old writer did: numpy.savez(fname,
    version=1, arrays={array name: {prop: ndarray}}, solver_data={...})."""
    import numpy as np
    from pysph.solver.utils import load
    comp = 'npz-v1'
    by = case.get('bytes_keys')
    kl0 = dict(fmt='npz', version=1, bytes_keys=bool(by))

    def key(s):
        return s.encode('utf-8') if by else s

    arrays = {}
    exp = {}
    for a in case['arrays']:
        tab = prop_table(a)
        stored = stored_names(a, case['detailed'])
        if case['only_real']:
            keep = [i for i in range(a['n']) if a['tags'][i] == 0]
        else:
            keep = list(range(a['n']))
        ad = {}
        for nm in stored:
            t, s, dflt, v = tab[nm]
            full = np.array(v, dtype=NPT[t])
            ad[key(nm)] = full[keep] if keep else full[:0]
        arrays[key(a['name'])] = ad
        exp[a['name']] = (a, tab, stored, keep)
    sd = {key(k): (key(v) if isinstance(v, str) else v)
          for k, v in case['solver_data'].items()}
    target = os.path.join(d, 'old_%d.npz' % (
        case['solver_data'].get('count', 0) % 1000))
    np.savez(target, version=1, arrays=arrays, solver_data=sd)
    try:
        data = load(target)
    except Exception as ex:
        return [Failure(comp, 'exception', 'load of a version-1 file raised'
                        ' %r' % (ex,),
                        dict(kl0, stage='load', exc=type(ex).__name__,
                             msg=sanitize(ex)))]
    F = []
    if not isinstance(data, dict) or 'arrays' not in data or \
            'solver_data' not in data:
        return [Failure(comp, 'structure', 'load returned %r' % (data,),
                        kl0)]
    F += compare_solver_data(comp, data['solver_data'],
                             case['solver_data'], kl0)
    if sorted(data['arrays'].keys()) != sorted(exp):
        F.append(Failure(comp, 'array_names', 'arrays %r, expected %s' % (
            sorted(data['arrays'].keys(), key=repr), sorted(exp)), kl0))
        return F
    for name, (a, tab, stored, keep) in exp.items():
        pa = data['arrays'][name]

        def fail(kind, detail, klass=None):
            F.append(Failure(comp, kind, '%s: %s' % (name, detail),
                             dict(kl0, **(klass or {}))))
        if pa.name != name:
            fail('name', 'array name %r' % (pa.name,))
        need = set(stored) | set(V1_DEFAULT)
        if not need <= set(pa.properties.keys()):
            fail('property_set', 'missing properties %s' % sorted(
                need - set(pa.properties.keys())))
            continue
        if pa.get_number_of_particles() != len(keep):
            fail('particle_count', 'loaded %d particles, expected %d' % (
                pa.get_number_of_particles(), len(keep)))
            continue
        tags = pa.get('tag', only_real_particles=False)
        nreal = int(np.sum(tags == 0))
        if pa.num_real_particles != nreal or not np.all(tags[:nreal] == 0):
            fail('num_real_particles', 'num_real_particles = %d, tags %s' % (
                pa.num_real_particles, tags.tolist()),
                dict(tag_stored='tag' in stored))
            continue
        uid_model = [float(tab['uid'][3][i]) for i in keep]
        uids = pa.get('uid', only_real_particles=False).tolist()
        if sorted(uids) != sorted(uid_model):
            fail('values', 'uid values %s, expected %s' % (uids, uid_model),
                 dict(prop='uid'))
            continue
        exp_tags = [a['tags'][i] if 'tag' in stored else 0 for i in keep]
        exp_real = set(u for u, tg in zip(uid_model, exp_tags) if tg == 0)
        for nm in stored:
            t, s, dflt, v = tab[nm]
            lt = {'tag': 'i4', 'pid': 'i4', 'gid': 'u4'}.get(nm, 'f8')
            src = a['tags'] if nm == 'tag' else v
            mv = np.array(src, dtype='i4' if nm == 'tag' else NPT[t])
            ev = mv[keep].astype(lt) if keep else mv[:0].astype(lt)
            full = pa.get(nm, only_real_particles=False)
            e = {u: ev[j:j + 1].tobytes() for j, u in enumerate(uid_model)}
            g = _records(full, uids, 1) if full.dtype == np.dtype(lt) \
                else {}
            if g != e:
                fail('values', 'property %s is %s (%s), expected %s' % (
                    nm, full.tolist(), full.dtype, ev.tolist()),
                    dict(ctype=t, special=nm in ('tag', 'pid', 'gid')))
                continue
            arr = getattr(pa, nm)
            r = _records(arr, uids[:nreal], 1) if arr.size == nreal else None
            if r is None or set(r) != exp_real or \
                    any(r[u] != e[u] for u in r):
                fail('real_accessor', 'pa.%s = %s, expected the Local '
                     'particles uid=%s' % (nm, arr.tolist(),
                                           sorted(exp_real)),
                     dict(tag_stored='tag' in stored))
    return F


def check(case, scratch):
    labels, nontrivial = labels_of(case)
    d = scratch.fresh()
    try:
        if case['mode'] == 'v1':
            fails = run_v1(case, d)
        else:
            fails = run_v2(case, d)
    finally:
        scratch.drop(d)
    return fails, labels, nontrivial


# -------------------------------------------------------------------- driver
def plan(ctx):
    n = 1600 if ctx['tier'] == 'quick' else 40000
    k = 16
    specs = []
    for i in range(k):
        if i < 7:
            mode, fmt = 'v2', 'hdf5'
        elif i < 14:
            mode, fmt = 'v2', 'npz'
        else:
            mode, fmt = 'v1', 'npz'
        specs.append(dict(name='%s-%s-%02d' % (mode, fmt, i), mode=mode,
                          fmt=fmt, bytes_keys=(i == 15),
                          max_examples=n // k))
    return specs


def run_shard(spec, ctx):
    stats = Stats()
    scratch = Scratch(os.path.join(ctx.workdir, 'c11-' + spec['name']))

    def execute(case):
        fails, labels, nt = check(case, scratch)
        return Outcome(fails, labels, nt)
    try:
        search(case_strategy(spec['mode'], spec['fmt'],
                             spec.get('bytes_keys', False)), execute,
               derive_seed(ctx.seed, 'C11', spec['name']),
               spec['max_examples'], stats, shrink=True,
               journal=ctx.journal)
    finally:
        shutil.rmtree(scratch.path, ignore_errors=True)
    return stats.result()


def run_case(case, component, ctx):
    scratch = Scratch(os.path.join(ctx.workdir, 'c11-replay-%d' %
                                   os.getpid()))
    try:
        fails, _, _ = check(case, scratch)
    finally:
        shutil.rmtree(scratch.path, ignore_errors=True)
    return [f.as_dict(case) for f in fails]
