"""Equation used by checks/c13_linalg.py to exercise the *transpiled* form of
the helpers in pysph/sph/wc/linalg.py.

One particle is one test system.  Everything the helpers need is read from
strided properties of particle d_idx, copied into local `matrix(...)`
buffers exactly the way the shipped equations do (kernel_correction.py,
density_correction.py, crksph.py), and every output is written back to other
strided properties.  n, nb and nmax are per-particle values, so a single JIT
compile serves every generated case.

This has to be a real .py file: compyle obtains the source of the equation
and of the helpers with inspect.getsource.
"""
from compyle.api import declare
from pysph.sph.equation import Equation
from pysph.sph.wc.linalg import (augmented_matrix, dot, gj_solve, identity,
                                 mat_mult, mat_vec_mult)

NMAX = 6            # largest n
NBMAX = 3           # largest nb
SA = NMAX * NMAX            # 36: a (nmax x nmax) matrix
SB = NMAX * NBMAX           # 18: right-hand sides / solution
SM = NMAX * (NMAX + NBMAX)  # 54: augmented matrix

# property name -> stride
PROPS = dict(pn=1, pnb=1, pnmax=1, amat=SA, bmat=SB, cmat=SA, vec1=NMAX,
             vec2=NMAX, aug=SM, work=SM, sol=SB, rc=1, mm=SA, mv=NMAX,
             ident=SA, dotr=1)


class LinalgProbe(Equation):
    def _get_helpers_(self):
        return [augmented_matrix, gj_solve, identity, dot, mat_mult,
                mat_vec_mult]

    def initialize(self, d_idx, d_pn, d_pnb, d_pnmax, d_amat, d_bmat, d_cmat,
                   d_vec1, d_vec2, d_aug, d_work, d_sol, d_rc, d_mm, d_mv,
                   d_ident, d_dotr):
        i, n, nb, nmax = declare('int', 4)
        a = declare('matrix(36)')
        c = declare('matrix(36)')
        b = declare('matrix(18)')
        v1 = declare('matrix(6)')
        v2 = declare('matrix(6)')
        m = declare('matrix(54)')
        res = declare('matrix(18)')
        r36 = declare('matrix(36)')
        r6 = declare('matrix(6)')
        n = int(d_pn[d_idx])
        nb = int(d_pnb[d_idx])
        nmax = int(d_pnmax[d_idx])
        for i in range(36):
            a[i] = d_amat[36*d_idx + i]
            c[i] = d_cmat[36*d_idx + i]
        for i in range(18):
            b[i] = d_bmat[18*d_idx + i]
            res[i] = d_sol[18*d_idx + i]
        for i in range(6):
            v1[i] = d_vec1[6*d_idx + i]
            v2[i] = d_vec2[6*d_idx + i]
        for i in range(54):
            m[i] = d_aug[54*d_idx + i]

        # augmented_matrix + gj_solve: the sequence used by the equations.
        augmented_matrix(a, b, n, nb, nmax, m)
        for i in range(54):
            d_aug[54*d_idx + i] = m[i]
        d_rc[d_idx] = gj_solve(m, n, nb, res)
        for i in range(54):
            d_work[54*d_idx + i] = m[i]
        for i in range(18):
            d_sol[18*d_idx + i] = res[i]

        # The remaining helpers (on the leading n x n block layout, i.e.
        # matrices stored with row length n).
        for i in range(36):
            r36[i] = d_mm[36*d_idx + i]
        mat_mult(a, c, n, r36)
        for i in range(36):
            d_mm[36*d_idx + i] = r36[i]
        for i in range(6):
            r6[i] = d_mv[6*d_idx + i]
        mat_vec_mult(a, v1, n, r6)
        for i in range(6):
            d_mv[6*d_idx + i] = r6[i]
        for i in range(36):
            r36[i] = d_ident[36*d_idx + i]
        identity(r36, n)
        for i in range(36):
            d_ident[36*d_idx + i] = r36[i]
        d_dotr[d_idx] = dot(v1, v2, n)
