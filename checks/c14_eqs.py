"""Equation used by the 'ev-' shards of C14 next to the shipped interpolation
equations: it records the (t, dt) that SPHEvaluator.evaluate(t, dt) hands to
the equations ("dummy t and dt values can be passed").  Lives in a file of its
own because the code generator reads class sources with inspect."""
from pysph.sph.equation import Equation


class C14TimeStamp(Equation):
    def initialize(self, d_idx, d_tstamp, t, dt):
        d_tstamp[d_idx] = t + 2.0*dt
