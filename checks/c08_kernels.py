"""C08 - every SPH kernel is normalised, compactly supported, self-consistent.

Oracle: an independent transcription of the documented formulas (class
docstrings of pysph/base/kernels.py) evaluated with mpmath at 40 digits; all
derivatives are taken analytically from that transcription (mpmath.diff of
the smooth piece active at q), never from the code under test.
"""
import math

from hypothesis import strategies as st

from vlib.hyp import Failure, Outcome, Stats, search, derive_seed

RULE = ('cases = (kernel class, dim, h log-uniform in [1e-6,1e6], q=r/h '
        'drawn uniformly / exactly on and a few ulp around every piece '
        'boundary and the support edge / tiny / far outside, unit direction '
        '(axis, generic, in the x-y plane, along x), second point of the '
        'wrapper call at the origin / near / far away, kernel objects from '
        'the per-process cache or freshly constructed, positional or '
        'keyword call form); the finite set kernel x dim is enumerated '
        'completely (constructor, default constructor, attributes of the '
        'compiled twin, get_deltap, normalisation, monotonicity). '
        'Non-trivial = 0 < q < radius_scale and r > 1e-12; distinct by case '
        'hash.')
ASSUMPTIONS = [
    'documented formulas in the class docstrings are the specification',
    'pairs with |q - radius_scale| <= 4 ulp may be inside or outside '
    '(rounding of q = r*(1/h))',
    'for r <= 1e-12 (documented guard) only finiteness of the gradient is '
    'asserted',
    'get_deltap is the inflection point of W (comments in get_deltap of '
    'Gaussian, SuperGaussian, QuinticSpline; the tabulated values of the '
    'others are the same quantity), asserted to 1e-7',
    'the wrapper call with a second point away from the origin is compared '
    'with the Python class at the separation the wrapper itself forms '
    '(xi - xj in double precision)',
]
EXHAUSTIVE = {}
ESSENTIAL_LABELS = {'all': ['q:boundary_exact', 'q:edge_exact', 'q:interior',
                            'q:outside', 'q:zero', 'q:far', 'h:small',
                            'h:large', 'twin:checked', 'wrap:origin',
                            'wrap:offset_near', 'wrap:offset_far',
                            'wrap:offset_coincident', 'dir:planar',
                            'dir:xonly', 'dir:axis', 'dir:generic',
                            'obj:fresh', 'obj:cached', 'call:keywords',
                            'enum:ctor', 'enum:default_ctor',
                            'enum:twin_attrs', 'enum:deltap',
                            'enum:normalisation']}

KERNELS = ['CubicSpline', 'WendlandQuinticC2_1D', 'WendlandQuintic',
           'WendlandQuinticC4_1D', 'WendlandQuinticC4',
           'WendlandQuinticC6_1D', 'WendlandQuinticC6', 'Gaussian',
           'SuperGaussian', 'QuinticSpline']

# documented supported dims
DIMS = {
    'CubicSpline': [1, 2, 3], 'WendlandQuinticC2_1D': [1],
    'WendlandQuintic': [2, 3], 'WendlandQuinticC4_1D': [1],
    'WendlandQuinticC4': [2, 3], 'WendlandQuinticC6_1D': [1],
    'WendlandQuinticC6': [2, 3], 'Gaussian': [1, 2, 3],
    'SuperGaussian': [1, 2, 3], 'QuinticSpline': [1, 2, 3],
}
RS = {k: 2.0 for k in KERNELS}
RS.update(Gaussian=3.0, SuperGaussian=3.0, QuinticSpline=3.0)
BREAKS = {k: [2.0] for k in KERNELS}
BREAKS['CubicSpline'] = [1.0, 2.0]
BREAKS['QuinticSpline'] = [1.0, 2.0, 3.0]
BREAKS['Gaussian'] = [3.0]
BREAKS['SuperGaussian'] = [3.0]
DISCONTINUOUS_EDGE = {'Gaussian', 'SuperGaussian'}
SIGN_EXEMPT = {'SuperGaussian'}


def _mp():
    import mpmath
    mpmath.mp.dps = 40
    return mpmath


# ---------------------------------------------------------------- reference
def ref_sigma(name, d):
    mp = _mp()
    pi = mp.pi
    m = mp.mpf
    if name == 'CubicSpline':
        return {1: m(2) / 3, 2: m(10) / (7 * pi), 3: 1 / pi}[d]
    if name == 'WendlandQuinticC2_1D':
        return m(5) / 8
    if name == 'WendlandQuintic':
        return {2: m(7) / (4 * pi), 3: m(21) / (16 * pi)}[d]
    if name == 'WendlandQuinticC4_1D':
        return m(3) / 4
    if name == 'WendlandQuinticC4':
        return {2: m(9) / (4 * pi), 3: m(495) / (256 * pi)}[d]
    if name == 'WendlandQuinticC6_1D':
        return m(55) / 64
    if name == 'WendlandQuinticC6':
        return {2: m(78) / (28 * pi), 3: m(1365) / (512 * pi)}[d]
    if name in ('Gaussian', 'SuperGaussian'):
        return 1 / pi ** (m(d) / 2)
    if name == 'QuinticSpline':
        return {1: m(1) / 120, 2: m(7) / (478 * pi), 3: 1 / (120 * pi)}[d]
    raise KeyError(name)


def ref_piece(name, d, q):
    """Return the smooth piece function f (shape, W = sigma h^-d f(q)) that
    is active at q (q an mpf); f is valid as an analytic function."""
    mp = _mp()
    m = mp.mpf
    if name == 'CubicSpline':
        if q > 2:
            return lambda x: m(0) * x
        if q > 1:
            return lambda x: (2 - x) ** 3 / 4
        return lambda x: 1 - m(3) / 2 * x * x * (1 - x / 2)
    if name == 'QuinticSpline':
        if q > 3:
            return lambda x: m(0) * x
        if q > 2:
            return lambda x: (3 - x) ** 5
        if q > 1:
            return lambda x: (3 - x) ** 5 - 6 * (2 - x) ** 5
        return lambda x: (3 - x) ** 5 - 6 * (2 - x) ** 5 + 15 * (1 - x) ** 5
    if name in ('Gaussian', 'SuperGaussian'):
        if q >= 3:
            return lambda x: m(0) * x
        if name == 'Gaussian':
            return lambda x: mp.exp(-x * x)
        return lambda x: mp.exp(-x * x) * (m(d) / 2 + 1 - x * x)
    if q > 2:
        return lambda x: m(0) * x
    if name == 'WendlandQuinticC2_1D':
        return lambda x: (1 - x / 2) ** 3 * (m(3) / 2 * x + 1)
    if name == 'WendlandQuintic':
        return lambda x: (1 - x / 2) ** 4 * (2 * x + 1)
    if name == 'WendlandQuinticC4_1D':
        return lambda x: (1 - x / 2) ** 5 * (2 * x * x + m(5) / 2 * x + 1)
    if name == 'WendlandQuinticC4':
        return lambda x: (1 - x / 2) ** 6 * (m(35) / 12 * x * x + 3 * x + 1)
    if name == 'WendlandQuinticC6_1D':
        return lambda x: (1 - x / 2) ** 7 * (
            m(21) / 8 * x ** 3 + m(19) / 4 * x * x + m(7) / 2 * x + 1)
    if name == 'WendlandQuinticC6':
        return lambda x: (1 - x / 2) ** 8 * (
            4 * x ** 3 + m(25) / 4 * x * x + 4 * x + 1)
    raise KeyError(name)


def ref_values(name, d, q, h):
    """(W, dW/dq-shape*sigma h^-d, dW/dh) as mpf at exact q,h (mpf)."""
    mp = _mp()
    f = ref_piece(name, d, q)
    s = ref_sigma(name, d) / h ** d
    fq = f(q)
    dfq = mp.diff(f, q)
    W = s * fq
    dwdq = s * dfq
    dWdh = -s / h * (d * fq + q * dfq)
    return W, dwdq, dWdh


# --------------------------------------------------------------- generators
def ulp_shift(x, k):
    for _ in range(abs(k)):
        x = math.nextafter(x, math.inf if k > 0 else -math.inf)
    return x


@st.composite
def case_strategy(draw, pairs):
    name, d = draw(st.sampled_from(pairs))
    hexp = draw(st.floats(-6, 6))
    hman = draw(st.sampled_from([1.0, 1.0, 3.0, 0.7, 1.9999]))
    hk = draw(st.sampled_from(['pow10', 'generic', 'one']))
    if hk == 'pow10':
        h = 10.0 ** round(hexp)
    elif hk == 'one':
        h = 1.0
    else:
        h = hman * 10.0 ** hexp
    rs = RS[name]
    qk = draw(st.sampled_from(['interior', 'interior', 'interior', 'boundary',
                               'edge', 'outside', 'zero', 'tiny', 'far']))
    if qk == 'interior':
        q = draw(st.floats(0.0, rs, exclude_min=True, exclude_max=True))
        ul = 0
    elif qk == 'boundary':
        b = draw(st.sampled_from(BREAKS[name]))
        ul = draw(st.sampled_from([0, 0, 1, -1, 2, -2, 16, -16]))
        q = ulp_shift(b, ul)
    elif qk == 'edge':
        ul = draw(st.sampled_from([0, 0, 1, -1, 2, -2, 16, -16, 64]))
        q = ulp_shift(rs, ul)
    elif qk == 'outside':
        q = draw(st.floats(rs, rs + 1.5, exclude_min=True))
        ul = 0
    elif qk == 'zero':
        q = 0.0
        ul = 0
    elif qk == 'far':
        # far beyond the support (q*q up to 1e16: exp underflows, the
        # polynomial pieces would be huge if they were evaluated)
        q = rs * 10.0 ** draw(st.floats(0.5, 8))
        ul = 0
    else:
        q = 10.0 ** draw(st.floats(-16, -3))
        ul = 0
    # direction: axis aligned / generic / negative components / the
    # directions a 2-D or 1-D simulation produces (zero z, zero y and z)
    dk = draw(st.sampled_from(['axis', 'generic', 'generic', 'planar',
                               'xonly']))
    if dk == 'axis':
        ax = draw(st.integers(0, 2))
        sg = draw(st.sampled_from([-1.0, 1.0]))
        dirv = [0.0, 0.0, 0.0]
        dirv[ax] = sg
    elif dk == 'xonly':
        dirv = [draw(st.sampled_from([-1.0, 1.0])), 0.0, 0.0]
    else:
        comps = [draw(st.floats(-1, 1)) for _ in range(3)]
        if dk == 'planar':
            comps[2] = 0.0
        n = math.sqrt(sum(c * c for c in comps))
        if n < 1e-3:
            comps = [0.6, -0.8, 0.0]
            n = 1.0
        dirv = [c / n for c in comps]
    # second point of the wrapper call (the wrapper forms xi - xj itself)
    ok = draw(st.sampled_from(['origin', 'near', 'near', 'far']))
    if ok == 'origin':
        origin = [0.0, 0.0, 0.0]
    else:
        sc = h * (3.0 if ok == 'near' else 10.0 ** draw(st.floats(2, 6)))
        origin = [sc * draw(st.floats(-1, 1)) for _ in range(3)]
        if dk == 'xonly' or dk == 'planar':
            origin[2] = draw(st.sampled_from([0.0, origin[2]]))
    fresh = draw(st.sampled_from([False, False, False, True]))
    kw = draw(st.sampled_from([False, False, True]))
    return dict(kernel=name, dim=d, h=h, q=q, qkind=qk, ulps=ul, dir=dirv,
                dirkind=dk, origin=origin, okind=ok, fresh=fresh,
                keywords=kw)


# ------------------------------------------------------------------ oracle
def _kernel_obj(name, d):
    from pysph.base import kernels
    return getattr(kernels, name)(dim=d)


_TWINS = {}


def _twin(name, d):
    key = (name, d)
    if key not in _TWINS:
        from pysph.base.kernels import get_compiled_kernel
        k = _kernel_obj(name, d)
        _TWINS[key] = (k, get_compiled_kernel(k))
    return _TWINS[key]


def check_point(case):
    """Return (failures, labels, nontrivial)."""
    mp = _mp()
    name, d, h, q = case['kernel'], case['dim'], case['h'], case['q']
    dirv = case['dir']
    rs = RS[name]
    fails = []
    labels = ['q:' + {'boundary': 'boundary_exact' if case['ulps'] == 0
                      else 'boundary_ulps',
                      'edge': 'edge_exact' if case['ulps'] == 0
                      else 'edge_ulps'}.get(case['qkind'], case['qkind'])]
    if h < 1e-3:
        labels.append('h:small')
    if h > 1e3:
        labels.append('h:large')
    kl = dict(dim=d)
    if case.get('fresh'):
        # constructed for this case only (several objects of one class, of
        # different dim, are alive in the process at the same time)
        from pysph.base.kernels import get_compiled_kernel
        kern = _kernel_obj(name, d)
        wrap = get_compiled_kernel(kern)
        labels.append('obj:fresh')
    else:
        kern, wrap = _twin(name, d)
        labels.append('obj:cached')
    labels.append('dir:' + case.get('dirkind', 'generic'))
    r = q * h
    xij = [r * c for c in dirv]
    # the true q of the (r, h) the code is given
    qm = mp.mpf(r) / mp.mpf(h)
    hm = mp.mpf(h)
    peak = ref_sigma(name, d) / hm ** d
    if name == 'SuperGaussian':
        peak = peak * (mp.mpf(d) / 2 + 1)
    else:
        peak = peak * ref_piece(name, d, mp.mpf(0))(mp.mpf(0))
    W, dwdq, dWdh = ref_values(name, d, qm, hm)
    # within the rounding band of the support edge both sides are allowed
    edge_band = abs(float(qm) - rs) <= 8 * rs * 2.2e-16
    disc_band = edge_band and name in DISCONTINUOUS_EDGE
    alt = None
    if disc_band:
        qa = mp.mpf(rs) * (1 - mp.mpf(2) ** -40) if qm >= rs else \
            mp.mpf(rs) * (1 + mp.mpf(2) ** -40)
        alt = ref_values(name, d, qa, hm)

    def close(val, ref, scale, tol, altref=None):
        if not math.isfinite(val):
            return False
        if abs(mp.mpf(val) - ref) <= tol * scale:
            return True
        if altref is not None and abs(mp.mpf(val) - altref) <= tol * scale:
            return True
        return False

    try:
        if case.get('keywords'):
            # documented signatures: kernel(xij, rij, h), dwdq(rij, h),
            # gradient(xij, rij, h, grad), gradient_h(xij, rij, h); the
            # positional and the keyword form are the same call
            labels.append('call:keywords')
            wk = kern.kernel(rij=r, h=h, xij=xij)
            dqk = kern.dwdq(h=h, rij=r)
            gk = [2.5, 2.5, 2.5]
            kern.gradient(grad=gk, h=h, rij=r, xij=xij)
            ghk = kern.gradient_h(h=h, xij=xij, rij=r)
        w = kern.kernel(xij, r, h)
        dq = kern.dwdq(r, h)
        # the output buffer is re-used by callers (one DWIJ per thread in
        # the generated loops): it holds the previous pair's values
        g = [7.0, -3.0, 11.0]
        kern.gradient(xij, r, h, g)
        gh = kern.gradient_h(xij, r, h)
    except Exception as ex:
        return ([Failure(name, 'exception', repr(ex), kl)], labels, False)

    if case.get('keywords'):
        def same(a, b):
            return a == b or (a != a and b != b)
        if not (same(wk, w) and same(dqk, dq) and same(ghk, gh) and
                all(same(x, y) for x, y in zip(gk, g))):
            fails.append(Failure(
                name, 'call_form', 'keyword call differs from positional '
                'call: %r vs %r (q=%r h=%r)' % (
                    (wk, dqk, gk, ghk), (w, dq, g, gh), q, h), kl))

    TOL_W = mp.mpf('1e-13')
    TOL_D = mp.mpf('2e-13')
    # (a) formula
    if not close(w, W, peak, TOL_W, alt and alt[0]):
        fails.append(Failure(name, 'formula', 'W(q=%r,h=%r)=%r ref=%s' % (
            q, h, w, mp.nstr(W, 17)), kl, expected=mp.nstr(W, 17),
            observed=repr(w)))
    # (b) support
    if float(qm) >= rs * (1 + 8 * 2.2e-16):
        if w != 0.0 or dq != 0.0 or any(c != 0.0 for c in g):
            fails.append(Failure(name, 'support',
                                 'non-zero outside support: q=%r W=%r '
                                 'dwdq=%r grad=%r' % (q, w, dq, g), kl))
    elif float(qm) >= rs:
        if abs(w) > 1e-12 * float(peak) and name not in DISCONTINUOUS_EDGE:
            fails.append(Failure(name, 'support',
                                 'W not ~0 at the support edge', kl))
    if name not in SIGN_EXEMPT and w < 0.0:
        fails.append(Failure(name, 'negative', 'W=%r at q=%r' % (w, q), kl))
    # (d) derivatives
    guard = r > 1e-12
    if guard:
        if not close(dq, dwdq, peak, TOL_D, alt and alt[1]):
            fails.append(Failure(name, 'dwdq', 'dwdq(q=%r,h=%r)=%r ref=%s' % (
                q, h, dq, mp.nstr(dwdq, 17)), kl,
                expected=mp.nstr(dwdq, 17), observed=repr(dq)))
        for a in range(3):
            refa = dwdq / hm * mp.mpf(xij[a]) / mp.mpf(r)
            alta = None
            if alt is not None:
                alta = alt[1] / hm * mp.mpf(xij[a]) / mp.mpf(r)
            if not close(g[a], refa, peak / hm, TOL_D, alta):
                fails.append(Failure(
                    name, 'gradient', 'grad[%d](q=%r,h=%r,dir=%r)=%r ref=%s'
                    % (a, q, h, dirv, g[a], mp.nstr(refa, 17)), kl,
                    expected=mp.nstr(refa, 17), observed=repr(g[a])))
                break
    else:
        if not all(math.isfinite(c) for c in g) or not math.isfinite(dq):
            fails.append(Failure(name, 'gradient', 'non-finite at r~0', kl))
        if r == 0.0 and (any(c != 0.0 for c in g) or dq != 0.0):
            fails.append(Failure(name, 'gradient',
                                 'gradient not zero at r = 0: %r %r'
                                 % (g, dq), kl))
    if not close(gh, dWdh, peak / hm * max(d, 1) * 2, TOL_D,
                 alt and alt[2]):
        fails.append(Failure(name, 'gradient_h',
                             'gradient_h(q=%r,h=%r)=%r but dW/dh=%s' % (
                                 q, h, gh, mp.nstr(dWdh, 17)), kl,
                             expected=mp.nstr(dWdh, 17), observed=repr(gh)))
    # (e) compiled twins
    try:
        import numpy as np
        ck = wrap.kern
        xa = np.array(xij, dtype=float)
        cw = ck.py_kernel(xa, r, h)
        cdq = ck.py_dwdq(r, h)
        cg = np.array([7.0, -3.0, 11.0])
        ck.py_gradient(xa, r, h, cg)
        cgh = ck.py_gradient_h(xa, r, h)
        # wrapper computes xij = xi - xj and rij itself from coordinates
        org = [float(c) for c in case.get('origin') or [0.0, 0.0, 0.0]]
        xi = [org[a] + xij[a] for a in range(3)]
        dx = [xi[a] - org[a] for a in range(3)]
        ww = wrap.kernel(xi[0], xi[1], xi[2], org[0], org[1], org[2], h)
        wg = wrap.gradient(xi[0], xi[1], xi[2], org[0], org[1], org[2], h)
        if not any(org):
            labels.append('wrap:origin')
        else:
            labels.append('wrap:offset_' + (
                'far' if case.get('okind') == 'far' else 'near'))
            if not any(dx):
                labels.append('wrap:offset_coincident')
        labels.append('twin:checked')
    except Exception as ex:
        fails.append(Failure(name, 'compiled_twin', repr(ex), kl))
    else:
        def near(a, b, scale):
            if a == b:
                return True
            return abs(a - b) <= 4 * 2.2e-16 * scale
        pk = float(peak)
        bad = []
        if not near(cw, w, pk):
            bad.append(('kernel', cw, w))
        if not near(cdq, dq, pk):
            bad.append(('dwdq', cdq, dq))
        if not near(cgh, gh, pk / h * 2 * d):
            bad.append(('gradient_h', cgh, gh))
        for a in range(3):
            if not near(cg[a], g[a], pk / h):
                bad.append(('gradient[%d]' % a, cg[a], g[a]))
        # Wrapper: rij recomputed via sqrt -> compare to python at that rij
        # exactly the wrapper's expression (x*x, not pow(x, 2)) on the
        # separation the wrapper forms (dx == xij when xj is the origin)
        rr = math.sqrt(dx[0] * dx[0] + dx[1] * dx[1] + dx[2] * dx[2])
        pw = kern.kernel(dx, rr, h)
        pg = [5.0, 5.0, 5.0]
        kern.gradient(dx, rr, h, pg)
        # the wrapper recomputes r from the coordinates: within the
        # rounding band of a discontinuous support edge it may legitimately
        # land on the other side
        wband = disc_band or (name in DISCONTINUOUS_EDGE and
                              abs(rr / h - rs) <= 16 * rs * 2.2e-16)
        if not wband:
            if not near(ww, pw, pk):
                bad.append(('Wrapper.kernel', ww, pw))
            for a in range(3):
                if not near(wg[a], pg[a], pk / h):
                    bad.append(('Wrapper.gradient[%d]' % a, wg[a], pg[a]))
            # outside the support the wrapper returns exact zeros too
            if rr / h >= rs * (1 + 16 * 2.2e-16) and (
                    ww != 0.0 or any(c != 0.0 for c in wg)):
                bad.append(('Wrapper outside support', ww, list(wg)))
        if bad:
            fails.append(Failure(name, 'compiled_twin',
                                 'compiled != python: %r (q=%r h=%r)' % (
                                     bad[:3], q, h), kl))
    nontrivial = (0.0 < float(qm) < rs) and guard
    return fails, labels, nontrivial


def execute(case):
    fails, labels, nt = check_point(case)
    return Outcome(fails, labels, nt)


# -------------------------------------------- enumeration: ctor, integrals
def _record(stats, case, fails, label):
    stats.record(case, Outcome(fails, [label], False))
    for f in fails:
        stats.failures.append(f.as_dict(case))


def _enum_attrs(stats, name, d, k):
    """Attributes of the class and of its compiled twin, get_deltap."""
    mp = _mp()
    from pysph.base import kernels
    from pysph.base.kernels import get_compiled_kernel
    kl = dict(dim=d)
    # ---- the compiled twin carries the same numbers
    case = dict(kernel=name, dim=d, kind='twin_attrs')
    fails = []
    try:
        sig = float(ref_sigma(name, d))
        if not abs(k.fac - sig) <= 4 * 2.2e-16 * sig:
            fails.append(Failure(name, 'attrs', 'fac=%r but the documented '
                                 'normalisation is %r' % (k.fac, sig), kl))
        if k.dim != d:
            fails.append(Failure(name, 'attrs', 'dim attribute %r' % (
                k.dim,), kl))
        # two wrappers of one Python object, and one of a second object
        for obj in (k, k, getattr(kernels, name)(dim=d)):
            w = get_compiled_kernel(obj)
            got = dict(wrapper_radius_scale=w.radius_scale, wrapper_fac=w.fac,
                       radius_scale=w.kern.radius_scale, fac=w.kern.fac,
                       dim=w.kern.dim, deltap=w.kern.py_get_deltap())
            exp = dict(wrapper_radius_scale=k.radius_scale, wrapper_fac=k.fac,
                       radius_scale=k.radius_scale, fac=k.fac, dim=d,
                       deltap=k.get_deltap())
            if got != exp:
                fails.append(Failure(
                    name, 'compiled_twin', 'attributes of the compiled twin '
                    '%r differ from the Python class %r' % (got, exp), kl))
                break
    except Exception as ex:
        fails.append(Failure(name, 'compiled_twin', repr(ex), kl))
    _record(stats, case, fails, 'enum:twin_attrs')
    # ---- get_deltap: the inflection point of W (maximum of |dW/dq|)
    case = dict(kernel=name, dim=d, kind='deltap')
    fails = []
    try:
        dp = k.get_deltap()
        if not (isinstance(dp, float) and 0.0 < dp < RS[name]):
            fails.append(Failure(name, 'deltap', 'get_deltap() = %r' % (dp,),
                                 kl))
        else:
            f = ref_piece(name, d, mp.mpf(dp))
            root = mp.findroot(lambda x: mp.diff(f, x, 2), mp.mpf(dp))
            d3 = mp.diff(f, root, 3)
            # a minimum of dW/dq (third derivative > 0) next to the value
            if abs(root - dp) > mp.mpf('1e-7') or not d3 > 0:
                fails.append(Failure(
                    name, 'deltap', 'get_deltap() = %r but the inflection '
                    'point of the documented W is %s' % (
                        dp, mp.nstr(root, 12)), kl))
    except Exception as ex:
        fails.append(Failure(name, 'deltap', repr(ex), kl))
    _record(stats, case, fails, 'enum:deltap')


def _enum_default_ctor(stats, name):
    """K() is K(dim=<its documented default>): same numbers."""
    from pysph.base import kernels
    case = dict(kernel=name, dim=0, kind='default_ctor')
    fails = []
    try:
        k0 = getattr(kernels, name)()
        d = k0.dim
        kl = dict(dim=d)
        if d not in DIMS[name]:
            fails.append(Failure(name, 'ctor', 'default constructor gives '
                                 'dim %r' % (d,), dict(dim=0)))
        else:
            k1 = getattr(kernels, name)(dim=d)
            if k0.__dict__ != k1.__dict__:
                fails.append(Failure(
                    name, 'ctor', 'default constructor %r differs from '
                    'dim=%d: %r' % (k0.__dict__, d, k1.__dict__), kl))
            for q in (0.0, 0.4, 1.3, 2.6):
                a = (k0.kernel([q, 0.0, 0.0], q, 1.0), k0.dwdq(q, 1.0),
                     k0.gradient_h([q, 0.0, 0.0], q, 1.0))
                b = (k1.kernel([q, 0.0, 0.0], q, 1.0), k1.dwdq(q, 1.0),
                     k1.gradient_h([q, 0.0, 0.0], q, 1.0))
                if a != b:
                    fails.append(Failure(name, 'ctor', 'default-constructed '
                                         'kernel differs at q=%r: %r vs %r'
                                         % (q, a, b), kl))
                    break
    except Exception as ex:
        fails.append(Failure(name, 'ctor', repr(ex), dict(dim=0)))
    _record(stats, case, fails, 'enum:default_ctor')


def enumeration(stats, hs):
    """Finite part: constructor rejections, normalisation, monotonicity."""
    import numpy as np
    mp = _mp()
    from pysph.base import kernels
    xs, ws = np.polynomial.legendre.leggauss(24)
    for name in KERNELS:
        _enum_default_ctor(stats, name)
        for d in (1, 2, 3):
            case = dict(kernel=name, dim=d, kind='ctor')
            fails = []
            labels = ['enum:ctor']
            try:
                k = getattr(kernels, name)(dim=d)
                ok = True
            except ValueError:
                ok = False
            except Exception as ex:
                ok = None
                fails.append(Failure(name, 'ctor', repr(ex), dict(dim=d)))
            if ok is True and d not in DIMS[name]:
                fails.append(Failure(name, 'ctor',
                                     'unsupported dim %d accepted' % d,
                                     dict(dim=d)))
            if ok is False and d in DIMS[name]:
                fails.append(Failure(name, 'ctor',
                                     'documented dim %d rejected' % d,
                                     dict(dim=d)))
            if ok and d in DIMS[name]:
                if k.radius_scale != RS[name]:
                    fails.append(Failure(name, 'ctor', 'radius_scale %r' %
                                         k.radius_scale, dict(dim=d)))
            stats.record(case, Outcome(fails, labels, False))
            for f in fails:
                stats.failures.append(f.as_dict(case))
            if not (ok and d in DIMS[name]):
                continue
            _enum_attrs(stats, name, d, k)
            rs = RS[name]
            sd = {1: 2.0, 2: 2 * math.pi, 3: 4 * math.pi}[d]
            # analytic expectation from the documented formula
            def integrand(x, name=name, d=d):
                return ref_piece(name, d, x)(x) * x ** (d - 1)
            pts = [mp.mpf(i) for i in range(int(rs) + 1)]
            expect = mp.mpf(sd) * ref_sigma(name, d) * mp.quad(integrand,
                                                                pts)
            for h in hs:
                case = dict(kernel=name, dim=d, kind='normalisation', h=h)
                fails = []
                total = 0.0
                for p in range(int(rs)):
                    qq = p + 0.5 * (xs + 1.0)
                    vals = np.array([k.kernel([q * h, 0.0, 0.0], q * h, h)
                                     for q in qq])
                    total += 0.5 * float(np.sum(
                        ws * vals * (qq * h) ** (d - 1))) * h
                total *= sd
                gauss = name in DISCONTINUOUS_EDGE
                if gauss:
                    # truncated family: equal to the analytic truncation
                    # constant, which itself is within 4e-3 of one
                    okn = abs(total - float(expect)) <= 1e-12 and \
                        abs(float(expect) - 1) < 4e-3
                else:
                    okn = abs(total - 1.0) <= 1e-12 and \
                        abs(float(expect) - 1) <= 1e-30
                if not okn:
                    fails.append(Failure(
                        name, 'normalisation',
                        'integral of W over space = %.15g (documented '
                        'formula gives %s) h=%r' % (
                            total, mp.nstr(expect, 15), h), dict(dim=d)))
                # monotone / sign on a fine sorted grid
                grid = np.linspace(0.0, rs * 1.05, 2001)
                vals = np.array([k.kernel([q * h, 0, 0], q * h, h)
                                 for q in grid])
                pk = abs(vals[0])
                if name not in SIGN_EXEMPT:
                    if (vals < 0).any():
                        fails.append(Failure(name, 'negative',
                                             'W<0 on grid', dict(dim=d)))
                    inc = np.diff(vals) > 1e-15 * pk
                    if inc.any():
                        i = int(np.argmax(inc))
                        fails.append(Failure(
                            name, 'monotone', 'W increases between q=%r and '
                            'q=%r' % (grid[i], grid[i + 1]), dict(dim=d)))
                stats.record(case, Outcome(fails, ['enum:normalisation'],
                                           True))
                for f in fails:
                    stats.failures.append(f.as_dict(case))


# ------------------------------------------------------------ entry points
def all_pairs():
    return [(k, d) for k in KERNELS for d in DIMS[k]]


def plan(ctx):
    pairs = all_pairs()
    n = 1500 if ctx["tier"] == "quick" else 50000
    shards = [dict(name='enumeration', kind='enum')]
    for i in range(0, len(pairs), 2):
        grp = pairs[i:i + 2]
        shards.append(dict(name='points-%s' % '+'.join(
            '%s%d' % p for p in grp), kind='points', pairs=grp,
            max_examples=n * len(grp)))
    return shards


def run_shard(spec, ctx):
    stats = Stats()
    if spec['kind'] == 'enum':
        hs = [1.0, 1e-3, 37.0] if ctx.tier == 'quick' else \
            [1.0, 1e-6, 1e-3, 0.3, 37.0, 1e3, 1e6]
        enumeration(stats, hs)
        stats.label('enum:done')
        return stats.result()
    pairs = [tuple(p) for p in spec['pairs']]
    search(case_strategy(pairs), execute,
           derive_seed(ctx.seed, 'C08', spec['name']),
           spec['max_examples'], stats, shrink=True)
    return stats.result()


def run_case(case, component, ctx):
    if case.get('kind') in ('ctor', 'normalisation', 'twin_attrs', 'deltap',
                            'default_ctor'):
        stats = Stats()
        enumeration(stats, [case.get('h', 1.0)])
        return [f for f in stats.failures
                if f['component'] == case['kernel'] and
                (case['kind'] == 'default_ctor' or
                 f['klass'].get('dim') == case['dim'])]
    fails, _, _ = check_point(case)
    return [f.as_dict(case) for f in fails]
