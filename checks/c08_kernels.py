"""C08 - every SPH kernel is normalised, compactly supported, self-consistent.

Oracle: an independent transcription of the documented formulas (class
docstrings of pysph/base/kernels.py) evaluated with mpmath at 40 digits; all
derivatives are taken analytically from that transcription (mpmath.diff of
the smooth piece active at q), never from the code under test.
"""
import math

from hypothesis import strategies as st

from vlib.hyp import Failure, Outcome, Stats, search, derive_seed

RULE = ('cases = (kernel class, dim, h log-uniform in [1e-6,1e6], q=r/h '
        'drawn uniformly / exactly on and a few ulp around every piece '
        'boundary and the support edge / tiny, unit direction); the finite '
        'set kernel x dim is enumerated completely. Non-trivial = '
        '0 < q < radius_scale and r > 1e-12; distinct by case hash.')
ASSUMPTIONS = [
    'documented formulas in the class docstrings are the specification',
    'pairs with |q - radius_scale| <= 4 ulp may be inside or outside '
    '(rounding of q = r*(1/h))',
    'for r <= 1e-12 (documented guard) only finiteness of the gradient is '
    'asserted',
]
EXHAUSTIVE = {}
ESSENTIAL_LABELS = {'all': ['q:boundary_exact', 'q:edge_exact', 'q:interior',
                            'q:outside', 'q:zero', 'h:small', 'h:large',
                            'twin:checked']}

KERNELS = ['CubicSpline', 'WendlandQuinticC2_1D', 'WendlandQuintic',
           'WendlandQuinticC4_1D', 'WendlandQuinticC4',
           'WendlandQuinticC6_1D', 'WendlandQuinticC6', 'Gaussian',
           'SuperGaussian', 'QuinticSpline']

# documented supported dims
DIMS = {
    'CubicSpline': [1, 2, 3], 'WendlandQuinticC2_1D': [1],
    'WendlandQuintic': [2, 3], 'WendlandQuinticC4_1D': [1],
    'WendlandQuinticC4': [2, 3], 'WendlandQuinticC6_1D': [1],
    'WendlandQuinticC6': [2, 3], 'Gaussian': [1, 2, 3],
    'SuperGaussian': [1, 2, 3], 'QuinticSpline': [1, 2, 3],
}
RS = {k: 2.0 for k in KERNELS}
RS.update(Gaussian=3.0, SuperGaussian=3.0, QuinticSpline=3.0)
BREAKS = {k: [2.0] for k in KERNELS}
BREAKS['CubicSpline'] = [1.0, 2.0]
BREAKS['QuinticSpline'] = [1.0, 2.0, 3.0]
BREAKS['Gaussian'] = [3.0]
BREAKS['SuperGaussian'] = [3.0]
DISCONTINUOUS_EDGE = {'Gaussian', 'SuperGaussian'}
SIGN_EXEMPT = {'SuperGaussian'}


def _mp():
    import mpmath
    mpmath.mp.dps = 40
    return mpmath


# ---------------------------------------------------------------- reference
def ref_sigma(name, d):
    mp = _mp()
    pi = mp.pi
    m = mp.mpf
    if name == 'CubicSpline':
        return {1: m(2) / 3, 2: m(10) / (7 * pi), 3: 1 / pi}[d]
    if name == 'WendlandQuinticC2_1D':
        return m(5) / 8
    if name == 'WendlandQuintic':
        return {2: m(7) / (4 * pi), 3: m(21) / (16 * pi)}[d]
    if name == 'WendlandQuinticC4_1D':
        return m(3) / 4
    if name == 'WendlandQuinticC4':
        return {2: m(9) / (4 * pi), 3: m(495) / (256 * pi)}[d]
    if name == 'WendlandQuinticC6_1D':
        return m(55) / 64
    if name == 'WendlandQuinticC6':
        return {2: m(78) / (28 * pi), 3: m(1365) / (512 * pi)}[d]
    if name in ('Gaussian', 'SuperGaussian'):
        return 1 / pi ** (m(d) / 2)
    if name == 'QuinticSpline':
        return {1: m(1) / 120, 2: m(7) / (478 * pi), 3: 1 / (120 * pi)}[d]
    raise KeyError(name)


def ref_piece(name, d, q):
    """Return the smooth piece function f (shape, W = sigma h^-d f(q)) that
    is active at q (q an mpf); f is valid as an analytic function."""
    mp = _mp()
    m = mp.mpf
    if name == 'CubicSpline':
        if q > 2:
            return lambda x: m(0) * x
        if q > 1:
            return lambda x: (2 - x) ** 3 / 4
        return lambda x: 1 - m(3) / 2 * x * x * (1 - x / 2)
    if name == 'QuinticSpline':
        if q > 3:
            return lambda x: m(0) * x
        if q > 2:
            return lambda x: (3 - x) ** 5
        if q > 1:
            return lambda x: (3 - x) ** 5 - 6 * (2 - x) ** 5
        return lambda x: (3 - x) ** 5 - 6 * (2 - x) ** 5 + 15 * (1 - x) ** 5
    if name in ('Gaussian', 'SuperGaussian'):
        if q >= 3:
            return lambda x: m(0) * x
        if name == 'Gaussian':
            return lambda x: mp.exp(-x * x)
        return lambda x: mp.exp(-x * x) * (m(d) / 2 + 1 - x * x)
    if q > 2:
        return lambda x: m(0) * x
    if name == 'WendlandQuinticC2_1D':
        return lambda x: (1 - x / 2) ** 3 * (m(3) / 2 * x + 1)
    if name == 'WendlandQuintic':
        return lambda x: (1 - x / 2) ** 4 * (2 * x + 1)
    if name == 'WendlandQuinticC4_1D':
        return lambda x: (1 - x / 2) ** 5 * (2 * x * x + m(5) / 2 * x + 1)
    if name == 'WendlandQuinticC4':
        return lambda x: (1 - x / 2) ** 6 * (m(35) / 12 * x * x + 3 * x + 1)
    if name == 'WendlandQuinticC6_1D':
        return lambda x: (1 - x / 2) ** 7 * (
            m(21) / 8 * x ** 3 + m(19) / 4 * x * x + m(7) / 2 * x + 1)
    if name == 'WendlandQuinticC6':
        return lambda x: (1 - x / 2) ** 8 * (
            4 * x ** 3 + m(25) / 4 * x * x + 4 * x + 1)
    raise KeyError(name)


def ref_values(name, d, q, h):
    """(W, dW/dq-shape*sigma h^-d, dW/dh) as mpf at exact q,h (mpf)."""
    mp = _mp()
    f = ref_piece(name, d, q)
    s = ref_sigma(name, d) / h ** d
    fq = f(q)
    dfq = mp.diff(f, q)
    W = s * fq
    dwdq = s * dfq
    dWdh = -s / h * (d * fq + q * dfq)
    return W, dwdq, dWdh


# --------------------------------------------------------------- generators
def ulp_shift(x, k):
    for _ in range(abs(k)):
        x = math.nextafter(x, math.inf if k > 0 else -math.inf)
    return x


@st.composite
def case_strategy(draw, pairs):
    name, d = draw(st.sampled_from(pairs))
    hexp = draw(st.floats(-6, 6))
    hman = draw(st.sampled_from([1.0, 1.0, 3.0, 0.7, 1.9999]))
    hk = draw(st.sampled_from(['pow10', 'generic', 'one']))
    if hk == 'pow10':
        h = 10.0 ** round(hexp)
    elif hk == 'one':
        h = 1.0
    else:
        h = hman * 10.0 ** hexp
    rs = RS[name]
    qk = draw(st.sampled_from(['interior', 'interior', 'interior', 'boundary',
                               'edge', 'outside', 'zero', 'tiny']))
    if qk == 'interior':
        q = draw(st.floats(0.0, rs, exclude_min=True, exclude_max=True))
        ul = 0
    elif qk == 'boundary':
        b = draw(st.sampled_from(BREAKS[name]))
        ul = draw(st.sampled_from([0, 0, 1, -1, 2, -2, 16, -16]))
        q = ulp_shift(b, ul)
    elif qk == 'edge':
        ul = draw(st.sampled_from([0, 0, 1, -1, 2, -2, 16, -16, 64]))
        q = ulp_shift(rs, ul)
    elif qk == 'outside':
        q = draw(st.floats(rs, rs + 1.5, exclude_min=True))
        ul = 0
    elif qk == 'zero':
        q = 0.0
        ul = 0
    else:
        q = 10.0 ** draw(st.floats(-16, -3))
        ul = 0
    # direction: axis aligned / generic / negative components
    dk = draw(st.sampled_from(['axis', 'generic', 'generic']))
    if dk == 'axis':
        ax = draw(st.integers(0, 2))
        sg = draw(st.sampled_from([-1.0, 1.0]))
        dirv = [0.0, 0.0, 0.0]
        dirv[ax] = sg
    else:
        comps = [draw(st.floats(-1, 1)) for _ in range(3)]
        n = math.sqrt(sum(c * c for c in comps))
        if n < 1e-3:
            comps = [0.6, -0.8, 0.0]
            n = 1.0
        dirv = [c / n for c in comps]
    return dict(kernel=name, dim=d, h=h, q=q, qkind=qk, ulps=ul, dir=dirv)


# ------------------------------------------------------------------ oracle
def _kernel_obj(name, d):
    from pysph.base import kernels
    return getattr(kernels, name)(dim=d)


_TWINS = {}


def _twin(name, d):
    key = (name, d)
    if key not in _TWINS:
        from pysph.base.kernels import get_compiled_kernel
        k = _kernel_obj(name, d)
        _TWINS[key] = (k, get_compiled_kernel(k))
    return _TWINS[key]


def check_point(case):
    """Return (failures, labels, nontrivial)."""
    mp = _mp()
    name, d, h, q = case['kernel'], case['dim'], case['h'], case['q']
    dirv = case['dir']
    rs = RS[name]
    fails = []
    labels = ['q:' + {'boundary': 'boundary_exact' if case['ulps'] == 0
                      else 'boundary_ulps',
                      'edge': 'edge_exact' if case['ulps'] == 0
                      else 'edge_ulps'}.get(case['qkind'], case['qkind'])]
    if h < 1e-3:
        labels.append('h:small')
    if h > 1e3:
        labels.append('h:large')
    kl = dict(dim=d)
    kern, wrap = _twin(name, d)
    r = q * h
    xij = [r * c for c in dirv]
    # the true q of the (r, h) the code is given
    qm = mp.mpf(r) / mp.mpf(h)
    hm = mp.mpf(h)
    peak = ref_sigma(name, d) / hm ** d
    if name == 'SuperGaussian':
        peak = peak * (mp.mpf(d) / 2 + 1)
    else:
        peak = peak * ref_piece(name, d, mp.mpf(0))(mp.mpf(0))
    W, dwdq, dWdh = ref_values(name, d, qm, hm)
    # within the rounding band of the support edge both sides are allowed
    edge_band = abs(float(qm) - rs) <= 8 * rs * 2.2e-16
    disc_band = edge_band and name in DISCONTINUOUS_EDGE
    alt = None
    if disc_band:
        qa = mp.mpf(rs) * (1 - mp.mpf(2) ** -40) if qm >= rs else \
            mp.mpf(rs) * (1 + mp.mpf(2) ** -40)
        alt = ref_values(name, d, qa, hm)

    def close(val, ref, scale, tol, altref=None):
        if not math.isfinite(val):
            return False
        if abs(mp.mpf(val) - ref) <= tol * scale:
            return True
        if altref is not None and abs(mp.mpf(val) - altref) <= tol * scale:
            return True
        return False

    try:
        w = kern.kernel(xij, r, h)
        dq = kern.dwdq(r, h)
        # the output buffer is re-used by callers (one DWIJ per thread in
        # the generated loops): it holds the previous pair's values
        g = [7.0, -3.0, 11.0]
        kern.gradient(xij, r, h, g)
        gh = kern.gradient_h(xij, r, h)
    except Exception as ex:
        return ([Failure(name, 'exception', repr(ex), kl)], labels, False)

    TOL_W = mp.mpf('1e-13')
    TOL_D = mp.mpf('2e-13')
    # (a) formula
    if not close(w, W, peak, TOL_W, alt and alt[0]):
        fails.append(Failure(name, 'formula', 'W(q=%r,h=%r)=%r ref=%s' % (
            q, h, w, mp.nstr(W, 17)), kl, expected=mp.nstr(W, 17),
            observed=repr(w)))
    # (b) support
    if float(qm) >= rs * (1 + 8 * 2.2e-16):
        if w != 0.0 or dq != 0.0 or any(c != 0.0 for c in g):
            fails.append(Failure(name, 'support',
                                 'non-zero outside support: q=%r W=%r '
                                 'dwdq=%r grad=%r' % (q, w, dq, g), kl))
    elif float(qm) >= rs:
        if abs(w) > 1e-12 * float(peak) and name not in DISCONTINUOUS_EDGE:
            fails.append(Failure(name, 'support',
                                 'W not ~0 at the support edge', kl))
    if name not in SIGN_EXEMPT and w < 0.0:
        fails.append(Failure(name, 'negative', 'W=%r at q=%r' % (w, q), kl))
    # (d) derivatives
    guard = r > 1e-12
    if guard:
        if not close(dq, dwdq, peak, TOL_D, alt and alt[1]):
            fails.append(Failure(name, 'dwdq', 'dwdq(q=%r,h=%r)=%r ref=%s' % (
                q, h, dq, mp.nstr(dwdq, 17)), kl,
                expected=mp.nstr(dwdq, 17), observed=repr(dq)))
        for a in range(3):
            refa = dwdq / hm * mp.mpf(xij[a]) / mp.mpf(r)
            alta = None
            if alt is not None:
                alta = alt[1] / hm * mp.mpf(xij[a]) / mp.mpf(r)
            if not close(g[a], refa, peak / hm, TOL_D, alta):
                fails.append(Failure(
                    name, 'gradient', 'grad[%d](q=%r,h=%r,dir=%r)=%r ref=%s'
                    % (a, q, h, dirv, g[a], mp.nstr(refa, 17)), kl,
                    expected=mp.nstr(refa, 17), observed=repr(g[a])))
                break
    else:
        if not all(math.isfinite(c) for c in g) or not math.isfinite(dq):
            fails.append(Failure(name, 'gradient', 'non-finite at r~0', kl))
        if r == 0.0 and (any(c != 0.0 for c in g) or dq != 0.0):
            fails.append(Failure(name, 'gradient',
                                 'gradient not zero at r = 0: %r %r'
                                 % (g, dq), kl))
    if not close(gh, dWdh, peak / hm * max(d, 1) * 2, TOL_D,
                 alt and alt[2]):
        fails.append(Failure(name, 'gradient_h',
                             'gradient_h(q=%r,h=%r)=%r but dW/dh=%s' % (
                                 q, h, gh, mp.nstr(dWdh, 17)), kl,
                             expected=mp.nstr(dWdh, 17), observed=repr(gh)))
    # (e) compiled twins
    try:
        import numpy as np
        ck = wrap.kern
        xa = np.array(xij, dtype=float)
        cw = ck.py_kernel(xa, r, h)
        cdq = ck.py_dwdq(r, h)
        cg = np.array([7.0, -3.0, 11.0])
        ck.py_gradient(xa, r, h, cg)
        cgh = ck.py_gradient_h(xa, r, h)
        # wrapper computes rij itself from coordinates
        ww = wrap.kernel(xij[0], xij[1], xij[2], 0.0, 0.0, 0.0, h)
        wg = wrap.gradient(xij[0], xij[1], xij[2], 0.0, 0.0, 0.0, h)
        labels.append('twin:checked')
    except Exception as ex:
        fails.append(Failure(name, 'compiled_twin', repr(ex), kl))
    else:
        def near(a, b, scale):
            if a == b:
                return True
            return abs(a - b) <= 4 * 2.2e-16 * scale
        pk = float(peak)
        bad = []
        if not near(cw, w, pk):
            bad.append(('kernel', cw, w))
        if not near(cdq, dq, pk):
            bad.append(('dwdq', cdq, dq))
        if not near(cgh, gh, pk / h * 2 * d):
            bad.append(('gradient_h', cgh, gh))
        for a in range(3):
            if not near(cg[a], g[a], pk / h):
                bad.append(('gradient[%d]' % a, cg[a], g[a]))
        # Wrapper: rij recomputed via sqrt -> compare to python at that rij
        # exactly the wrapper's expression (x*x, not pow(x, 2))
        rr = math.sqrt(xij[0] * xij[0] + xij[1] * xij[1] + xij[2] * xij[2])
        pw = kern.kernel(xij, rr, h)
        pg = [5.0, 5.0, 5.0]
        kern.gradient(xij, rr, h, pg)
        # the wrapper recomputes r from the coordinates: within the
        # rounding band of a discontinuous support edge it may legitimately
        # land on the other side
        if not disc_band:
            if not near(ww, pw, pk):
                bad.append(('Wrapper.kernel', ww, pw))
            for a in range(3):
                if not near(wg[a], pg[a], pk / h):
                    bad.append(('Wrapper.gradient[%d]' % a, wg[a], pg[a]))
        if bad:
            fails.append(Failure(name, 'compiled_twin',
                                 'compiled != python: %r (q=%r h=%r)' % (
                                     bad[:3], q, h), kl))
    nontrivial = (0.0 < float(qm) < rs) and guard
    return fails, labels, nontrivial


def execute(case):
    fails, labels, nt = check_point(case)
    return Outcome(fails, labels, nt)


# -------------------------------------------- enumeration: ctor, integrals
def enumeration(stats, hs):
    """Finite part: constructor rejections, normalisation, monotonicity."""
    import numpy as np
    mp = _mp()
    from pysph.base import kernels
    xs, ws = np.polynomial.legendre.leggauss(24)
    for name in KERNELS:
        for d in (1, 2, 3):
            case = dict(kernel=name, dim=d, kind='ctor')
            fails = []
            labels = ['enum:ctor']
            try:
                k = getattr(kernels, name)(dim=d)
                ok = True
            except ValueError:
                ok = False
            except Exception as ex:
                ok = None
                fails.append(Failure(name, 'ctor', repr(ex), dict(dim=d)))
            if ok is True and d not in DIMS[name]:
                fails.append(Failure(name, 'ctor',
                                     'unsupported dim %d accepted' % d,
                                     dict(dim=d)))
            if ok is False and d in DIMS[name]:
                fails.append(Failure(name, 'ctor',
                                     'documented dim %d rejected' % d,
                                     dict(dim=d)))
            if ok and d in DIMS[name]:
                if k.radius_scale != RS[name]:
                    fails.append(Failure(name, 'ctor', 'radius_scale %r' %
                                         k.radius_scale, dict(dim=d)))
            stats.record(case, Outcome(fails, labels, False))
            for f in fails:
                stats.failures.append(f.as_dict(case))
            if not (ok and d in DIMS[name]):
                continue
            rs = RS[name]
            sd = {1: 2.0, 2: 2 * math.pi, 3: 4 * math.pi}[d]
            # analytic expectation from the documented formula
            def integrand(x, name=name, d=d):
                return ref_piece(name, d, x)(x) * x ** (d - 1)
            pts = [mp.mpf(i) for i in range(int(rs) + 1)]
            expect = mp.mpf(sd) * ref_sigma(name, d) * mp.quad(integrand,
                                                                pts)
            for h in hs:
                case = dict(kernel=name, dim=d, kind='normalisation', h=h)
                fails = []
                total = 0.0
                for p in range(int(rs)):
                    qq = p + 0.5 * (xs + 1.0)
                    vals = np.array([k.kernel([q * h, 0.0, 0.0], q * h, h)
                                     for q in qq])
                    total += 0.5 * float(np.sum(
                        ws * vals * (qq * h) ** (d - 1))) * h
                total *= sd
                gauss = name in DISCONTINUOUS_EDGE
                if gauss:
                    # truncated family: equal to the analytic truncation
                    # constant, which itself is within 4e-3 of one
                    okn = abs(total - float(expect)) <= 1e-12 and \
                        abs(float(expect) - 1) < 4e-3
                else:
                    okn = abs(total - 1.0) <= 1e-12 and \
                        abs(float(expect) - 1) <= 1e-30
                if not okn:
                    fails.append(Failure(
                        name, 'normalisation',
                        'integral of W over space = %.15g (documented '
                        'formula gives %s) h=%r' % (
                            total, mp.nstr(expect, 15), h), dict(dim=d)))
                # monotone / sign on a fine sorted grid
                grid = np.linspace(0.0, rs * 1.05, 2001)
                vals = np.array([k.kernel([q * h, 0, 0], q * h, h)
                                 for q in grid])
                pk = abs(vals[0])
                if name not in SIGN_EXEMPT:
                    if (vals < 0).any():
                        fails.append(Failure(name, 'negative',
                                             'W<0 on grid', dict(dim=d)))
                    inc = np.diff(vals) > 1e-15 * pk
                    if inc.any():
                        i = int(np.argmax(inc))
                        fails.append(Failure(
                            name, 'monotone', 'W increases between q=%r and '
                            'q=%r' % (grid[i], grid[i + 1]), dict(dim=d)))
                stats.record(case, Outcome(fails, ['enum:normalisation'],
                                           True))
                for f in fails:
                    stats.failures.append(f.as_dict(case))


# ------------------------------------------------------------ entry points
def all_pairs():
    return [(k, d) for k in KERNELS for d in DIMS[k]]


def plan(ctx):
    pairs = all_pairs()
    n = 1500 if ctx["tier"] == "quick" else 50000
    shards = [dict(name='enumeration', kind='enum')]
    for i in range(0, len(pairs), 2):
        grp = pairs[i:i + 2]
        shards.append(dict(name='points-%s' % '+'.join(
            '%s%d' % p for p in grp), kind='points', pairs=grp,
            max_examples=n * len(grp)))
    return shards


def run_shard(spec, ctx):
    stats = Stats()
    if spec['kind'] == 'enum':
        hs = [1.0, 1e-3, 37.0] if ctx.tier == 'quick' else \
            [1.0, 1e-6, 1e-3, 0.3, 37.0, 1e3, 1e6]
        enumeration(stats, hs)
        stats.label('enum:done')
        return stats.result()
    pairs = [tuple(p) for p in spec['pairs']]
    search(case_strategy(pairs), execute,
           derive_seed(ctx.seed, 'C08', spec['name']),
           spec['max_examples'], stats, shrink=True)
    return stats.result()


def run_case(case, component, ctx):
    if case.get('kind') in ('ctor', 'normalisation'):
        stats = Stats()
        enumeration(stats, [case.get('h', 1.0)])
        return [f for f in stats.failures
                if f['component'] == case['kernel'] and
                f['klass'].get('dim') == case['dim']]
    fails, _, _ = check_point(case)
    return [f.as_dict(case) for f in fails]
