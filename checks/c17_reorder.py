"""C17 - spatial re-ordering is a pure permutation of whole particles.

For every neighbour algorithm that offers `get_spatially_ordered_indices`
generated particle arrays (typed and strided properties, constants, a
non-local tail, ghosts of a periodic domain; empty, single-particle,
coincident and ghost-only arrays included) go through a drawn program of
re-orderings (NNPS.spatially_order_particles for all arrays or for one,
Solver.reorder_particles, Solver.solve with a reorder frequency and a
stand-in integrator) interleaved with what happens between two re-orderings
of a run: particles move, are added, removed (down to an empty array), change
their h, get a new property.  Oracle: the index list is a permutation; the
multiset of whole particle records (all properties of a particle together) is
unchanged by a re-ordering; constants are untouched; real particles stay
ahead of ghost/remote ones; neighbour queries after the following update
equal brute force.
"""
import math

from hypothesis import strategies as st

from vlib.hyp import (Failure, Outcome, Stats, search, derive_seed, canon,
                      case_hash)

RULE = ('case = (algorithm class with its knobs, cache / sort_gids / thread '
        'count, dim 1-3, 1-3 arrays of 0-40 particles from uniform / '
        'clustered / lattice-on-cell-face / collinear / all-coincident '
        'families with an optional far offset, per-particle h (ratios up to '
        '8), typed (double, float, int, long, unsigned) and strided '
        'properties, constants (one as long as the array), a ghost/remote '
        'tail (up to the whole array) or ghosts of a periodic domain, a '
        'program of 1-6 operations: re-order all arrays / one array through '
        'spatially_order_particles (fresh or re-used index array, drawn '
        'neighbour context left behind), Solver.reorder_particles, '
        'Solver.solve '
        'with reorder_freq and a moving stand-in integrator; between them '
        'move, add, remove (also all), scale h, add a property, each '
        'followed by update_domain + update).  Non-trivial = a re-ordering '
        'that actually permuted an array carrying strided properties; '
        'distinct by case hash.')
ASSUMPTIONS = [
    'classes without get_spatially_ordered_indices (BoxSort variants built '
    'on dicts, hashes) raise NotImplementedError: a clean rejection',
    'neighbour oracle: required if d2 < c2(1-1e-12), forbidden if '
    'd2 > c2(1+1e-12)',
    'input classes on which C01 records an open finding for the class are '
    'skipped by construction and counted',
    'after particles were added, removed, moved or had h changed the caller '
    'runs update_domain() and update() before asking for an ordering (what '
    'the integrators do); an ordering asked for on a stale structure is '
    'not generated',
    'a property added to an array after a periodic domain manager created '
    'its ghost buffers is not generated (C07 territory)',
    'idempotence of re-ordering is not documented and not asserted',
]
ESSENTIAL_LABELS = {'all': [
    'nonlocal_tail', 'periodic_ghosts', 'strided', 'via_solver', 'repeat',
    'two_arrays', 'permuted',
    # coverage audit
    'three_arrays', 'empty_array', 'all_empty', 'single_particle',
    'ghost_only_array', 'coincident', 'h_ratio_ge4', 'cache', 'sort_gids',
    'threads:1', 'threads:2', 'periodic_remote_tail', 'reorder_one_array',
    'reorder_after:move', 'reorder_after:add', 'reorder_after:remove',
    'reorder_after:hscale', 'reorder_after:lateprop', 'array_emptied',
    'array_grown', 'array_shrunk', 'permuted_later_round', 'solve',
    'solve_permuted', 'solve_periodic', 'const_len_n', 'reused_index_array',
    'context_not_last_array']}
CLASSES = ['LinkedListNNPS', 'BoxSortNNPS', 'CellIndexingNNPS', 'ZOrderNNPS',
           'ExtendedZOrderNNPS', 'StratifiedSFCNNPS', 'OctreeNNPS',
           'CompressedOctreeNNPS']
TREES = ('OctreeNNPS', 'CompressedOctreeNNPS')


# ------------------------------------------------------------- strategies
@st.composite
def array_strategy(draw, dim, L, h0, allow_tail, periodic=False):
    fam = draw(st.sampled_from(['uniform', 'uniform', 'clustered', 'lattice',
                                'collinear', 'coincident']))
    nk = draw(st.sampled_from(['n'] * 9 + ['0', '1', '2']))
    n = draw(st.integers(3, 40)) if nk == 'n' else int(nk)
    pts = []
    cpt = [draw(st.integers(0, 255)) / 256.0 * L for _ in range(dim)]

    def ints(lo, hi, m):
        return draw(st.lists(st.integers(lo, hi), min_size=m, max_size=m))
    if fam == 'uniform':
        raw = ints(0, 255 if periodic else 256, n * dim)
    elif fam == 'clustered':
        raw = ints(-8, 8, n * dim)
    elif fam == 'lattice':
        raw = ints(0, 6, n * dim)
    elif fam == 'collinear':
        raw = ints(0, 64 - periodic, n)
    for i in range(n):
        if fam == 'uniform':
            p = [v / 256.0 * L for v in raw[i * dim:(i + 1) * dim]]
        elif fam == 'clustered':
            c = 0.3 * L
            p = [c + v / 64.0 * h0 for v in raw[i * dim:(i + 1) * dim]]
        elif fam == 'lattice':
            p = [v * 2.0 * h0 for v in raw[i * dim:(i + 1) * dim]]
            if periodic:
                # stay inside the periodic box
                p = [c if c < L else c - L * math.floor(c / L) for c in p]
        elif fam == 'coincident':
            p = list(cpt)
        else:
            p = [raw[i] / 64.0 * L] + [0.25 * L] * (dim - 1)
        pts.append(p + [0.0] * (3 - dim))
    if n >= 3 and fam != 'coincident' and draw(st.integers(0, 3)) > 0:
        # most sets span the box
        pts[0] = [0.0] * 3
        pts[1] = [0.9 * L if a < dim else 0.0 for a in range(3)]
    if allow_tail and n:
        ntail = draw(st.sampled_from([0, 0, 0, 1, 1, 2, 2, 3, 4, n]))
        ntail = min(ntail, max(n - 2, 1) if ntail != n else n)
    else:
        ntail = 0
    # ghosts are owned by a periodic domain manager (it deletes every
    # particle tagged ghost): only remote ones may be handed in there
    tail_tag = 1 if periodic else draw(st.sampled_from([1, 2]))
    hset = draw(st.sampled_from([[0.8, 1.0, 1.0, 1.3], [0.8, 1.0, 1.0, 1.3],
                                 [1.0], [0.5, 1.0, 2.0, 4.0]]))
    return dict(
        family=fam, n=n, pts=pts, ntail=ntail, tail_tag=tail_tag,
        h=[h0 * hset[v] for v in ints(0, len(hset) - 1, n)],
        f=[v / 8.0 for v in ints(-99, 99, n)],
        s3=[v / 4.0 for v in ints(-99, 99, 3 * n)],
        i2=ints(-50, 50, 2 * n))


@st.composite
def op_strategy(draw, dim, narr, periodic, kinds):
    kind = draw(st.sampled_from(kinds))
    k = draw(st.integers(0, narr - 1))
    if kind == 'reorder':
        via = draw(st.sampled_from(['nnps', 'nnps', 'solver', 'one']))
        # the neighbour context left behind by whoever queried last
        ctx = [draw(st.integers(0, narr - 1)), draw(st.integers(0, narr - 1))]
        return dict(op='reorder', via=via, k=k, ctx=ctx,
                    reuse_idx=draw(st.booleans()))
    if kind == 'move':
        return dict(op='move', amp=draw(st.sampled_from([0.25, 1.0, 3.0])),
                    p=draw(st.integers(1, 16)), q=draw(st.integers(0, 16)))
    if kind == 'add':
        m = draw(st.sampled_from([1, 2, 5, 9, 17]))
        pts = [[draw(st.integers(0, 255)) for _ in range(dim)]
               for _ in range(m)]
        return dict(op='add', k=k, pts=pts,
                    hfac=draw(st.sampled_from([1.0, 1.0, 0.8, 1.3])),
                    ntail=0 if periodic else draw(
                        st.sampled_from([0, 0, 1, m])),
                    tail_tag=1 if periodic else draw(
                        st.sampled_from([1, 2])))
    if kind == 'remove':
        sel = draw(st.one_of(
            st.just('all'),
            st.lists(st.integers(0, 63), min_size=1, max_size=12),
            st.lists(st.integers(0, 63), min_size=1, max_size=12)))
        return dict(op='remove', k=k, sel=sel)
    if kind == 'hscale':
        return dict(op='hscale', k=k,
                    fac=draw(st.sampled_from([0.7, 1.25, 1.5])))
    if kind == 'lateprop':
        return dict(op='lateprop', k=k)
    raise ValueError(kind)


@st.composite
def case_strategy(draw, cls, skip_multi=()):
    dim = draw(st.sampled_from([1, 2, 2, 3, 3]))
    L = draw(st.sampled_from([1.0, 2.0, 4.0]))
    h0 = L * draw(st.sampled_from([0.08, 0.12, 0.2]))
    periodic = draw(st.integers(0, 3)) == 0
    narr = draw(st.sampled_from([1, 1, 2, 2, 3]))
    if cls in skip_multi:
        # open C01 finding: this class loses neighbours between different
        # arrays whatever the order of the particles; skipped by
        # construction
        narr = 1
    arrays = [draw(array_strategy(dim, L, h0, True, periodic))
              for _ in range(narr)]
    offset = draw(st.sampled_from([0.0, 0.0, 1000.0, -1000.0]))
    if periodic:
        offset = 0.0
    knobs = {}
    if cls in TREES:
        knobs['leaf_max_particles'] = draw(st.sampled_from([4, 10, 32]))
        knobs['test_parallel'] = draw(st.booleans())
    if cls == 'ExtendedZOrderNNPS':
        knobs['H'] = draw(st.sampled_from([1, 2, 3]))
    if cls == 'StratifiedSFCNNPS':
        knobs['num_levels'] = draw(st.sampled_from([1, 2, 3]))
    opts = dict(cache=draw(st.integers(0, 2)) == 0,
                sort_gids=draw(st.integers(0, 3)) == 0)
    threads = draw(st.sampled_from([1, 1, 2, 3]))
    kinds = ['reorder', 'reorder', 'reorder', 'move', 'move', 'add',
             'remove', 'hscale']
    if not periodic:
        kinds.append('lateprop')
    prog = draw(st.lists(op_strategy(dim, narr, periodic, kinds),
                         min_size=0, max_size=5))
    tail = draw(st.sampled_from(['reorder', 'reorder', 'solve']))
    if tail == 'reorder':
        prog.append(draw(op_strategy(dim, narr, periodic, ['reorder'])))
    else:
        prog.append(dict(op='solve', freq=draw(st.sampled_from([1, 2, 3])),
                         nsteps=draw(st.integers(1, 5)),
                         amp=draw(st.sampled_from([0.25, 1.0, 3.0])),
                         p=draw(st.integers(1, 16))))
    return dict(cls=cls, dim=dim, L=L, h0=h0, periodic=periodic,
                arrays=arrays, offset=offset, knobs=knobs,
                radius_scale=2.0, opts=opts, threads=threads, consts=True,
                prog=prog,
                _klass=dict(cls=cls, dim=dim,
                            families=sorted(set(a['family']
                                                for a in arrays))))


# ------------------------------------------------------------------ build
def derived(uid):
    """Values of the uid-derived properties of particles with these uids."""
    import numpy as np
    uid = np.asarray(uid, dtype=np.int64)
    n = len(uid)
    l2 = np.empty((n, 2), dtype=np.int64)
    l2[:, 0] = uid * 3 + 1
    l2[:, 1] = -uid - 1
    f2 = np.empty((n, 2), dtype=np.float32)
    f2[:, 0] = uid * 0.5
    f2[:, 1] = uid * 0.25 + 1.0
    return dict(l2=l2.ravel(), f2=f2.ravel(),
                u1=(uid + 7).astype(np.uint32))


def build(case):
    import numpy as np
    from pysph.base.particle_array import ParticleArray
    from pysph.base import nnps as N
    new = 'prog' in case
    pas = []
    uid0 = 0
    for k, a in enumerate(case['arrays']):
        n = a['n']
        p = np.array(a['pts'], dtype=float).reshape(n, 3) + np.array(
            [case['offset']] * case['dim'] + [0.0] * (3 - case['dim']))
        pa = ParticleArray(name='a%d' % k, x=p[:, 0].copy(),
                           y=p[:, 1].copy(), z=p[:, 2].copy(),
                           h=np.array(a['h'], dtype=float))
        uid = np.arange(uid0, uid0 + n)
        pa.add_property('uid', type='long', data=uid)
        uid0 += n
        pa.add_property('f', type='float', data=np.array(a['f'],
                                                         dtype=np.float32))
        pa.add_property('s3', stride=3, data=np.array(a['s3'], dtype=float))
        pa.add_property('i2', type='int', stride=2,
                        data=np.array(a['i2'], dtype=np.int32))
        if new:
            d = derived(uid)
            pa.add_property('u1', type='unsigned int', data=d['u1'])
            pa.add_property('l2', type='long', stride=2, data=d['l2'])
            pa.add_property('f2', type='float', stride=2, data=d['f2'])
        else:
            pa.add_property('u1', type='unsigned int',
                            data=np.arange(n, dtype=np.uint32) + 7)
        if case.get('consts'):
            pa.add_constant('c3', [1.5, -2.5, 3.5 + k])
            pa.add_constant('ci', np.array([7, 8], dtype=np.int32))
            if n:
                # as long as the array: must not be taken for a property
                pa.add_constant('cn', np.arange(n, dtype=float) + 0.5)
        tag = np.zeros(n, dtype=np.int32)
        if a['ntail']:
            tag[n - a['ntail']:] = a['tail_tag']
        pa.get_carray('tag').get_npy_array()[:] = tag
        pa.get_carray('gid').get_npy_array()[:] = np.arange(
            uid0 - n, uid0, dtype=np.uint32)
        pa.align_particles()
        pas.append(pa)
    domain = None
    if case['periodic']:
        L = case['L']
        kw = dict(xmin=0.0, xmax=L, periodic_in_x=True)
        if case['dim'] > 1:
            kw.update(ymin=0.0, ymax=L, periodic_in_y=True)
        if case['dim'] > 2:
            kw.update(zmin=0.0, zmax=L, periodic_in_z=True)
        domain = N.DomainManager(**kw)
    cls = getattr(N, case['cls'])
    if case.get('threads'):
        from pysph.base.nnps_base import set_number_of_threads
        set_number_of_threads(int(case['threads']))
    nn = cls(dim=case['dim'], particles=pas,
             radius_scale=case['radius_scale'], domain=domain,
             **dict(case['knobs'], **case.get('opts', {})))
    return pas, nn, uid0


def records(pa):
    import numpy as np
    n = pa.get_number_of_particles()
    names = sorted(pa.properties.keys())
    cols = []
    for nm in names:
        a = pa.get_carray(nm).get_npy_array()
        s = pa.stride.get(nm, 1)
        cols.append(a.reshape(n, s) if n else a.reshape(0, s))
    recs = []
    for i in range(n):
        recs.append(tuple(c[i].tobytes() for c in cols))
    return names, recs


def constants(pa):
    return dict((nm, (str(c.get_npy_array().dtype),
                      c.get_npy_array().tolist()))
                for nm, c in pa.constants.items())


def brute(pas, si, di, i, rs):
    import numpy as np
    s, d = pas[si], pas[di]
    sx = np.stack([s.get_carray(c).get_npy_array() for c in 'xyz'], axis=1)
    sh = s.get_carray('h').get_npy_array()
    dx = np.array([d.get_carray(c).get_npy_array()[i] for c in 'xyz'])
    dh = d.get_carray('h').get_npy_array()[i]
    d2 = ((sx - dx) ** 2).sum(axis=1)
    c2 = (rs * np.maximum(sh, dh)) ** 2
    req = set(np.nonzero(d2 < c2 * (1 - 1e-12))[0].tolist())
    forb = set(np.nonzero(d2 > c2 * (1 + 1e-12))[0].tolist())
    return req, forb


class _Bail(Exception):
    pass


def disp(uid, axis, p, q):
    """Deterministic displacement pattern in [-1, 1] from the uid."""
    return ((uid * p + q + 7 * axis) % 17 - 8) / 8.0


class Run(object):
    """One case: the arrays, the neighbour structure and the oracle."""

    def __init__(self, case):
        self.case = case
        self.labels = []
        self.fails = []
        self.kl = dict(cls=case['cls'], multi_array=len(case['arrays']) > 1)
        self.permuted = False
        self.nreorder = 0
        self.last_edit = None
        self.idx = None
        self.h0 = case.get('h0', case['L'] * 0.1)

    def fail(self, kind, detail):
        self.fails.append(Failure(self.case['cls'], kind, detail, self.kl))
        raise _Bail()

    # -- state ----------------------------------------------------------
    def snapshot(self):
        out = []
        for pa in self.pas:
            out.append(dict(
                recs=sorted(records(pa)[1]), names=sorted(pa.properties),
                consts=constants(pa), nreal=pa.num_real_particles,
                uid=pa.get_carray('uid').get_npy_array().copy()))
        return out

    def compare(self, snap, what):
        import numpy as np
        perm = False
        for k, pa in enumerate(self.pas):
            names, recs = records(pa)
            if names != snap[k]['names'] or sorted(recs) != snap[k]['recs']:
                self.fail('particles_changed',
                          'array %d: multiset of whole-particle records '
                          'changed by %s (%d particles before, %d after)' % (
                              k, what, len(snap[k]['recs']), len(recs)))
            if constants(pa) != snap[k]['consts']:
                self.fail('constants_changed',
                          'array %d: constants changed by %s: %s -> %s' % (
                              k, what, snap[k]['consts'], constants(pa)))
            tag = pa.get_carray('tag').get_npy_array()
            nr = pa.num_real_particles
            if nr != snap[k]['nreal'] or (tag[:nr] != 0).any() or \
                    (tag[nr:] == 0).any():
                self.fail('real_not_first',
                          'array %d after %s: num_real_particles %d (was '
                          '%d), non-local among the first slots: %d' % (
                              k, what, nr, snap[k]['nreal'],
                              int((tag[:nr] != 0).sum())))
            ua = pa.get_carray('uid').get_npy_array()
            if not np.array_equal(ua, snap[k]['uid']):
                perm = True
        return perm

    def neighbours(self, what):
        from cyarray.carray import UIntArray
        pas, nn = self.pas, self.nn
        kind = 'neighbours_after_reorder' if self.nreorder else \
            'neighbours_before_reorder'
        nbrs = UIntArray()
        for si in range(len(pas)):
            for di in range(len(pas)):
                nd = pas[di].get_number_of_particles()
                nn.set_context(si, di)
                for i in range(0, nd, max(1, nd // 12)):
                    nn.get_nearest_particles(si, di, i, nbrs)
                    got = nbrs.get_npy_array()[:nbrs.length].tolist()
                    req, forb = brute(pas, si, di, i,
                                      self.case['radius_scale'])
                    g = set(got)
                    ns = pas[si].get_number_of_particles()
                    if len(g) != len(got) or any(j >= ns for j in got) or \
                            (req - g) or (g & forb):
                        self.fail(kind,
                                  '%s: src %d dst %d particle %d: missing '
                                  '%s, spurious %s, duplicates %d' % (
                                      what, si, di, i, sorted(req - g)[:5],
                                      sorted(g & forb)[:5],
                                      len(got) - len(g)))

    # -- operations -------------------------------------------------------
    def refresh(self):
        self.nn.update_domain()
        self.nn.update()

    def order_one(self, k, reuse=False):
        """get_spatially_ordered_indices + spatially_order_particles."""
        import numpy as np
        from cyarray.carray import LongArray
        pa = self.pas[k]
        n = pa.get_number_of_particles()
        if reuse:
            # one caller-owned index array used for call after call
            if self.idx is None:
                self.idx = LongArray()
            elif self.idx.length:
                self.labels.append('reused_index_array')
            idx = self.idx
        else:
            idx = LongArray()
        self.nn.get_spatially_ordered_indices(k, idx)
        ind = idx.get_npy_array()[:idx.length].copy()
        if sorted(ind.tolist()) != list(range(n)):
            self.fail('not_a_permutation',
                      'array %d (%d particles): index list has %d '
                      'entries, %d distinct, min %s max %s' % (
                          k, n, len(ind), len(set(ind.tolist())),
                          ind.min() if len(ind) else None,
                          ind.max() if len(ind) else None))
        self.nn.spatially_order_particles(k)

    def op_reorder(self, op):
        snap = self.snapshot()
        via = op['via']
        if self.nreorder:
            self.labels.append('repeat')
        if self.last_edit:
            self.labels.append('reorder_after:' + self.last_edit)
        for pa in self.pas:
            n = pa.get_number_of_particles()
            if n == 0:
                self.labels.append('reorder_empty_array')
            elif n == 1:
                self.labels.append('reorder_single_particle')
            if n and pa.num_real_particles == 0:
                self.labels.append('reorder_ghost_only_array')
        if op.get('ctx'):
            si, di = [c % len(self.pas) for c in op['ctx']]
            self.nn.set_context(si, di)
            if si != len(self.pas) - 1:
                self.labels.append('context_not_last_array')
        reuse = bool(op.get('reuse_idx'))
        if via == 'solver':
            self.labels.append('via_solver')
            self.solver.reorder_particles()
        elif via == 'one':
            self.labels.append('reorder_one_array')
            self.order_one(op['k'] % len(self.pas), reuse)
            self.nn.update()
        else:
            for k in range(len(self.pas)):
                self.order_one(k, reuse)
            self.nn.update()
        perm = self.compare(snap, 're-ordering (%s)' % via)
        if perm:
            self.permuted = True
            if self.nreorder:
                self.labels.append('permuted_later_round')
        self.nreorder += 1
        self.last_edit = None

    def op_move(self, op):
        import numpy as np
        amp = op['amp'] * self.h0
        for pa in self.pas:
            uid = pa.get_carray('uid').get_npy_array()
            for ax in range(self.case['dim']):
                a = pa.get_carray('xyz'[ax]).get_npy_array()
                a += amp * disp(uid, ax, op['p'], op.get('q', 0))
        self.refresh()
        self.last_edit = 'move'

    def op_add(self, op):
        import numpy as np
        case = self.case
        pa = self.pas[op['k'] % len(self.pas)]
        m = len(op['pts'])
        dim = case['dim']
        p = np.zeros((m, 3))
        p[:, :dim] = np.array(op['pts'], dtype=float).reshape(m, dim) \
            / 256.0 * case['L'] + case['offset']
        uid = np.arange(self.next_uid, self.next_uid + m)
        self.next_uid += m
        tag = np.zeros(m, dtype=np.int32)
        if op.get('ntail'):
            tag[m - op['ntail']:] = op['tail_tag']
        props = dict(x=p[:, 0], y=p[:, 1], z=p[:, 2],
                     h=np.full(m, self.h0 * op['hfac']), uid=uid,
                     gid=uid.astype(np.uint32), tag=tag,
                     f=(uid % 13 / 4.0).astype(np.float32),
                     s3=np.repeat(uid, 3) * 0.5 + np.tile([0.0, 0.125, 0.25],
                                                           m),
                     i2=(np.repeat(uid, 2) * 2 + np.tile([0, 1], m)).astype(
                         np.int32))
        props.update(derived(uid))
        if 'late2' in pa.properties:
            props['late2'] = np.repeat(uid, 2) * 1.0 + np.tile([0.25, 0.75],
                                                               m)
        pa.add_particles(**props)
        self.refresh()
        self.labels.append('array_grown')
        self.last_edit = 'add'

    def op_remove(self, op):
        import numpy as np
        pa = self.pas[op['k'] % len(self.pas)]
        n = pa.get_number_of_particles()
        if op['sel'] == 'all':
            idx = np.arange(n)
        else:
            nr = pa.num_real_particles
            if nr == 0:
                idx = np.arange(0)
            else:
                idx = np.array(sorted(set(s % nr for s in op['sel'])))
        if len(idx):
            pa.remove_particles(idx)
            self.labels.append('array_shrunk')
            if pa.get_number_of_particles() == 0 or \
                    pa.num_real_particles == 0:
                self.labels.append('array_emptied')
        self.refresh()
        self.last_edit = 'remove'

    def op_hscale(self, op):
        pa = self.pas[op['k'] % len(self.pas)]
        uid = pa.get_carray('uid').get_npy_array()
        h = pa.get_carray('h').get_npy_array()
        h[uid % 2 == 0] *= op['fac']
        self.refresh()
        self.last_edit = 'hscale'

    def op_lateprop(self, op):
        import numpy as np
        if self.case['periodic']:
            return
        pa = self.pas[op['k'] % len(self.pas)]
        if 'late2' in pa.properties:
            return
        uid = pa.get_carray('uid').get_npy_array()
        n = len(uid)
        pa.add_property('late2', stride=2,
                        data=np.repeat(uid, 2) * 1.0 + np.tile([0.25, 0.75],
                                                               n))
        self.last_edit = 'lateprop'

    def op_solve(self, op):
        """Solver.solve with a reorder frequency; the stand-in integrator
        verifies the state it is handed at every step, then moves the
        particles and refreshes the neighbour structure as integrators do."""
        from pysph.solver.solver import Solver
        run = self
        state = dict(snap=self.snapshot(), step=0, perm=False)

        def verify(what):
            perm = run.compare(state['snap'], what)
            if perm:
                state['perm'] = True
            run.nreorder += 1
            run.neighbours(what)

        class StandIn(object):
            def initial_acceleration(self, t, dt):
                verify('the re-ordering at the start of Solver.solve')

            def step(self, t, dt):
                if state['step']:
                    verify('Solver.solve between steps %d and %d' % (
                        state['step'], state['step'] + 1))
                state['step'] += 1
                run.op_move(dict(amp=op['amp'], p=op['p'],
                                 q=state['step']))
                state['snap'] = run.snapshot()

            def compute_time_step(self, dt, cfl):
                return None

        dt = 0.125
        solver = Solver(dim=self.case['dim'], integrator=StandIn(),
                        tf=dt * op['nsteps'], dt=dt, pfreq=100000)
        solver.particles = self.pas
        solver.nnps = self.nn
        solver.acceleration_evals = []
        solver.dump_output = lambda: None
        solver.set_reorder_freq(op['freq'])
        self.labels.append('solve')
        if self.case['periodic']:
            self.labels.append('solve_periodic')
        if self.last_edit:
            self.labels.append('reorder_after:' + self.last_edit)
        solver.solve(show_progress=False)
        if state['step'] != op['nsteps']:
            self.fail('solve_steps', 'stand-in integrator stepped %d times, '
                      '%d expected' % (state['step'], op['nsteps']))
        verify('Solver.solve after the last step')
        if state['perm']:
            self.labels.append('solve_permuted')
            self.permuted = True
        self.last_edit = None

    # -- driver -----------------------------------------------------------
    def run(self):
        case = self.case
        labels = self.labels
        try:
            self.pas, self.nn, self.next_uid = build(case)
        except RuntimeError as ex:
            if 'too many cells' in str(ex):
                labels.append('capacity_rejected')
                return
            self.fails.append(Failure(case['cls'], 'construct_exception',
                                      repr(ex), self.kl))
            return
        pas = self.pas
        if len(pas) > 1:
            labels.append('two_arrays')
        if len(pas) > 2:
            labels.append('three_arrays')
        if case['periodic']:
            labels.append('periodic_ghosts')
        if any(a['ntail'] for a in case['arrays']):
            labels.append('nonlocal_tail')
            if case['periodic']:
                labels.append('periodic_remote_tail')
        labels.append('strided')
        ns = [a['n'] for a in case['arrays']]
        if 0 in ns:
            labels.append('empty_array')
        if not any(ns):
            labels.append('all_empty')
        if 1 in ns:
            labels.append('single_particle')
        if any(a['n'] and a['ntail'] == a['n'] for a in case['arrays']):
            labels.append('ghost_only_array')
        if any(a['family'] == 'coincident' and a['n'] > 1
               for a in case['arrays']):
            labels.append('coincident')
        hs = [h for a in case['arrays'] for h in a['h']]
        if hs and max(hs) >= 4 * min(hs):
            labels.append('h_ratio_ge4')
        if case.get('opts', {}).get('cache'):
            labels.append('cache')
        if case.get('opts', {}).get('sort_gids'):
            labels.append('sort_gids')
        if case.get('threads'):
            labels.append('threads:%d' % case['threads'])
        if case.get('knobs', {}).get('test_parallel'):
            labels.append('test_parallel')
        if case.get('consts') and any(ns):
            labels.append('const_len_n')
        prog = case.get('prog')
        if prog is None:
            prog = [dict(op='reorder',
                         via='solver' if case['via_solver'] else 'nnps')
                    for _ in range(case['rounds'])]
        if any(op['op'] == 'reorder' and op['via'] == 'solver'
               for op in prog):
            from pysph.solver.solver import Solver
            self.solver = Solver(dim=case['dim'], integrator=None)
            self.solver.particles = pas
            self.solver.nnps = self.nn
        try:
            for op in prog:
                try:
                    getattr(self, 'op_' + op['op'])(op)
                except NotImplementedError:
                    labels.append('unsupported')
                    return
                except RuntimeError as ex:
                    if 'too many cells' in str(ex):
                        labels.append('capacity_rejected')
                        return
                    raise
                if op['op'] != 'lateprop':
                    self.neighbours('after %s' % op['op'])
        except _Bail:
            return
        if self.permuted:
            labels.append('permuted')


def check(case):
    run = Run(case)
    run.run()
    return run.fails, run.labels, run.permuted and not run.fails


def execute_factory(ctx):
    def execute(case):
        ctx.journal(case)
        fails, labels, nt = check(case)
        return Outcome(fails, sorted(set(labels)), nt)
    return execute


def plan(ctx):
    n = 300 if ctx['tier'] == 'quick' else 10000
    shards = []
    skip = [e['match']['component'] for e in ctx.get('known_open', [])
            if e['match'].get('multi_array')]
    for c in CLASSES:
        for part in range(2):
            shards.append(dict(name='%s-%d' % (c, part), cls=c,
                               component=c, klass=dict(cls=c),
                               skip_multi=skip, max_examples=n // 2))
    return shards


def run_shard(spec, ctx):
    stats = Stats()
    if spec['cls'] in spec.get('skip_multi', []):
        stats.label('excluded:known:multi_array')
    search(case_strategy(spec['cls'], spec.get('skip_multi', [])),
           execute_factory(ctx),
           derive_seed(ctx.seed, 'C17', spec['name']), spec['max_examples'],
           stats, shrink=True)
    return stats.result()


def run_case(case, component, ctx):
    fails, _, _ = check(case)
    return [f.as_dict(case) for f in fails]
