"""C17 - spatial re-ordering is a pure permutation of whole particles.

For every neighbour algorithm that offers `get_spatially_ordered_indices`
generated particle arrays (typed and strided properties, non-local tail,
ghosts of a periodic domain) are re-ordered 1-3 times through
NNPS.spatially_order_particles and Solver.reorder_particles.  Oracle: the
index list is a permutation; the multiset of whole particle records (by uid)
is unchanged; real particles stay ahead of ghost/remote ones; neighbour
queries after the following update equal brute force.
"""
import math

from hypothesis import strategies as st

from vlib.hyp import (Failure, Outcome, Stats, search, derive_seed, canon,
                      case_hash)

RULE = ('case = (algorithm class with its knobs, dim 1-3, 1-2 arrays of '
        '2-60 particles from uniform / clustered / lattice-on-cell-face / '
        'collinear families with an optional far offset, per-particle h, '
        'typed (double, float, int, long, unsigned) and strided properties, '
        'a ghost/remote tail or ghosts of a periodic domain, 1-3 repeated '
        're-orderings through spatially_order_particles or '
        'Solver.reorder_particles). Non-trivial = an array with >= 2 '
        'occupied cells and >= 1 strided property that actually got '
        'permuted; distinct by case hash.')
ASSUMPTIONS = [
    'classes without get_spatially_ordered_indices (BoxSort variants built '
    'on dicts, hashes) raise NotImplementedError: a clean rejection',
    'neighbour oracle: required if d2 < c2(1-8eps), forbidden if '
    'd2 > c2(1+8eps)',
    'input classes on which C01 records an open finding for the class are '
    'skipped by construction and counted',
]
ESSENTIAL_LABELS = {'all': ['nonlocal_tail', 'periodic_ghosts', 'strided',
                            'via_solver', 'repeat', 'two_arrays',
                            'permuted']}
CLASSES = ['LinkedListNNPS', 'BoxSortNNPS', 'CellIndexingNNPS', 'ZOrderNNPS',
           'ExtendedZOrderNNPS', 'StratifiedSFCNNPS', 'OctreeNNPS',
           'CompressedOctreeNNPS']


@st.composite
def array_strategy(draw, dim, L, h0, allow_tail):
    fam = draw(st.sampled_from(['uniform', 'uniform', 'clustered', 'lattice',
                                'collinear']))
    n = draw(st.integers(3, 40))
    pts = []
    for i in range(n):
        if fam == 'uniform':
            p = [draw(st.integers(0, 256)) / 256.0 * L for _ in range(dim)]
        elif fam == 'clustered':
            c = 0.3 * L
            p = [c + draw(st.integers(-8, 8)) / 64.0 * h0
                 for _ in range(dim)]
        elif fam == 'lattice':
            p = [draw(st.integers(0, 6)) * 2.0 * h0 for _ in range(dim)]
        else:
            t = draw(st.integers(0, 64)) / 64.0 * L
            p = [t] + [0.25 * L] * (dim - 1)
        pts.append(p + [0.0] * (3 - dim))
    # make sure the set has a non-zero extent
    pts[0] = [0.0] * 3
    pts[1] = [0.9 * L if a < dim else 0.0 for a in range(3)]
    ntail = draw(st.integers(0, min(4, n - 2))) if allow_tail else 0
    tail_tag = draw(st.sampled_from([1, 2]))
    return dict(
        family=fam, n=n, pts=pts, ntail=ntail, tail_tag=tail_tag,
        h=[h0 * draw(st.sampled_from([0.8, 1.0, 1.0, 1.3]))
           for _ in range(n)],
        f=[draw(st.integers(-99, 99)) / 8.0 for _ in range(n)],
        s3=[draw(st.integers(-99, 99)) / 4.0 for _ in range(3 * n)],
        i2=[draw(st.integers(-50, 50)) for _ in range(2 * n)])


@st.composite
def case_strategy(draw, cls, skip_multi=()):
    dim = draw(st.sampled_from([1, 2, 2, 3, 3]))
    L = draw(st.sampled_from([1.0, 2.0, 4.0]))
    h0 = L * draw(st.sampled_from([0.08, 0.12, 0.2]))
    periodic = draw(st.integers(0, 3)) == 0
    narr = draw(st.sampled_from([1, 1, 2]))
    if cls in skip_multi:
        # open C01 finding: this class loses neighbours between different
        # arrays whatever the order of the particles; skipped by
        # construction
        narr = 1
    arrays = [draw(array_strategy(dim, L, h0, not periodic))
              for _ in range(narr)]
    offset = draw(st.sampled_from([0.0, 0.0, 1000.0, -1000.0]))
    if periodic:
        offset = 0.0
    knobs = {}
    if cls in ('OctreeNNPS', 'CompressedOctreeNNPS'):
        knobs['leaf_max_particles'] = draw(st.sampled_from([4, 10, 32]))
    if cls == 'ExtendedZOrderNNPS':
        knobs['H'] = draw(st.sampled_from([1, 2, 3]))
    if cls == 'StratifiedSFCNNPS':
        knobs['num_levels'] = draw(st.sampled_from([1, 2, 3]))
    return dict(cls=cls, dim=dim, L=L, periodic=periodic, arrays=arrays,
                offset=offset, knobs=knobs, radius_scale=2.0,
                rounds=draw(st.integers(1, 3)),
                via_solver=draw(st.booleans()),
                _klass=dict(cls=cls, dim=dim,
                            families=sorted(set(a['family']
                                                for a in arrays))))


def build(case):
    import numpy as np
    from pysph.base.particle_array import ParticleArray
    from pysph.base import nnps as N
    pas = []
    uid0 = 0
    for k, a in enumerate(case['arrays']):
        n = a['n']
        p = np.array(a['pts']) + np.array([case['offset']] * case['dim'] +
                                          [0.0] * (3 - case['dim']))
        pa = ParticleArray(name='a%d' % k, x=p[:, 0].copy(),
                           y=p[:, 1].copy(), z=p[:, 2].copy(),
                           h=np.array(a['h']))
        pa.add_property('uid', type='long',
                        data=np.arange(uid0, uid0 + n))
        uid0 += n
        pa.add_property('f', type='float', data=np.array(a['f'],
                                                         dtype=np.float32))
        pa.add_property('s3', stride=3, data=np.array(a['s3']))
        pa.add_property('i2', type='int', stride=2,
                        data=np.array(a['i2'], dtype=np.int32))
        pa.add_property('u1', type='unsigned int',
                        data=np.arange(n, dtype=np.uint32) + 7)
        tag = np.zeros(n, dtype=np.int32)
        if a['ntail']:
            tag[n - a['ntail']:] = a['tail_tag']
        pa.get_carray('tag').get_npy_array()[:] = tag
        pa.get_carray('gid').get_npy_array()[:] = np.arange(
            uid0 - n, uid0, dtype=np.uint32)
        pa.align_particles()
        pas.append(pa)
    domain = None
    if case['periodic']:
        L = case['L']
        kw = dict(xmin=0.0, xmax=L, periodic_in_x=True)
        if case['dim'] > 1:
            kw.update(ymin=0.0, ymax=L, periodic_in_y=True)
        if case['dim'] > 2:
            kw.update(zmin=0.0, zmax=L, periodic_in_z=True)
        domain = N.DomainManager(**kw)
    cls = getattr(N, case['cls'])
    nn = cls(dim=case['dim'], particles=pas,
             radius_scale=case['radius_scale'], domain=domain,
             **case['knobs'])
    return pas, nn


def records(pa):
    import numpy as np
    n = pa.get_number_of_particles()
    out = {}
    names = sorted(pa.properties.keys())
    cols = []
    for nm in names:
        a = pa.get_carray(nm).get_npy_array()
        s = pa.stride.get(nm, 1)
        cols.append(a.reshape(n, s) if n else a.reshape(0, s))
    uid = pa.get_carray('uid').get_npy_array()
    recs = []
    for i in range(n):
        recs.append(tuple(c[i].tobytes() for c in cols))
    return names, recs


def brute(pas, si, di, i, rs):
    import numpy as np
    s, d = pas[si], pas[di]
    sx = np.stack([s.get_carray(c).get_npy_array() for c in 'xyz'], axis=1)
    sh = s.get_carray('h').get_npy_array()
    dx = np.array([d.get_carray(c).get_npy_array()[i] for c in 'xyz'])
    dh = d.get_carray('h').get_npy_array()[i]
    d2 = ((sx - dx) ** 2).sum(axis=1)
    c2 = (rs * np.maximum(sh, dh)) ** 2
    eps = 8 * 2.3e-16
    req = set(np.nonzero(d2 < c2 * (1 - 1e-12))[0].tolist())
    forb = set(np.nonzero(d2 > c2 * (1 + 1e-12))[0].tolist())
    return req, forb


def check(case):
    import numpy as np
    from cyarray.carray import LongArray, UIntArray
    labels = []
    kl = dict(cls=case['cls'], multi_array=len(case['arrays']) > 1)
    fails = []
    try:
        pas, nn = build(case)
    except RuntimeError as ex:
        if 'too many cells' in str(ex):
            return [], ['capacity_rejected'], False
        return [Failure(case['cls'], 'construct_exception', repr(ex), kl)], \
            labels, False
    if len(pas) > 1:
        labels.append('two_arrays')
    if case['periodic']:
        labels.append('periodic_ghosts')
    if any(a['ntail'] for a in case['arrays']):
        labels.append('nonlocal_tail')
    labels.append('strided')
    before = [sorted(records(pa)[1]) for pa in pas]
    nreal0 = [pa.num_real_particles for pa in pas]
    permuted = False
    nontriv = False
    solver = None
    if case['via_solver']:
        from pysph.solver.solver import Solver
        solver = Solver(dim=case['dim'], integrator=None)
        solver.particles = pas
        solver.nnps = nn
        labels.append('via_solver')
    for rnd in range(case['rounds']):
        if rnd:
            labels.append('repeat')
        if not case['via_solver']:
            for k, pa in enumerate(pas):
                n = pa.get_number_of_particles()
                idx = LongArray()
                try:
                    nn.get_spatially_ordered_indices(k, idx)
                except NotImplementedError:
                    return [], labels + ['unsupported'], False
                ind = idx.get_npy_array()[:idx.length].copy()
                if sorted(ind.tolist()) != list(range(n)):
                    fails.append(Failure(
                        case['cls'], 'not_a_permutation',
                        'array %d (%d particles): index list has %d '
                        'entries, %d distinct, min %s max %s' % (
                            k, n, len(ind), len(set(ind.tolist())),
                            ind.min() if len(ind) else None,
                            ind.max() if len(ind) else None), kl))
                    return fails, labels, False
                if not np.array_equal(ind, np.arange(n)):
                    permuted = True
                nn.spatially_order_particles(k)
            nn.update()
        else:
            uid_before = [pa.get_carray('uid').get_npy_array().copy()
                          for pa in pas]
            try:
                solver.reorder_particles()
            except NotImplementedError:
                return [], labels + ['unsupported'], False
            for pa, ub in zip(pas, uid_before):
                ua = pa.get_carray('uid').get_npy_array()
                if len(ua) == len(ub) and not np.array_equal(ua, ub):
                    permuted = True
        for k, pa in enumerate(pas):
            names, recs = records(pa)
            if sorted(recs) != before[k]:
                fails.append(Failure(
                    case['cls'], 'particles_changed',
                    'array %d: multiset of whole-particle records changed '
                    'after re-ordering round %d' % (k, rnd), kl))
                return fails, labels, False
            tag = pa.get_carray('tag').get_npy_array()
            nr = pa.num_real_particles
            if nr != nreal0[k] or (tag[:nr] != 0).any() or \
                    (tag[nr:] == 0).any():
                fails.append(Failure(
                    case['cls'], 'real_not_first',
                    'array %d: num_real_particles %d (was %d), non-local '
                    'among the first slots: %d' % (
                        k, nr, nreal0[k], int((tag[:nr] != 0).sum())), kl))
                return fails, labels, False
        # neighbours after the update
        nbrs = UIntArray()
        for si in range(len(pas)):
            for di in range(len(pas)):
                nd = pas[di].get_number_of_particles()
                nn.set_context(si, di)
                for i in range(0, nd, max(1, nd // 12)):
                    nn.get_nearest_particles(si, di, i, nbrs)
                    got = nbrs.get_npy_array()[:nbrs.length].tolist()
                    req, forb = brute(pas, si, di, i, case['radius_scale'])
                    g = set(got)
                    ns = pas[si].get_number_of_particles()
                    if len(g) != len(got) or any(j >= ns for j in got) or \
                            (req - g) or (g & forb):
                        fails.append(Failure(
                            case['cls'], 'neighbours_after_reorder',
                            'src %d dst %d particle %d: missing %s, '
                            'spurious %s, duplicates %d' % (
                                si, di, i, sorted(req - g)[:5],
                                sorted(g & forb)[:5], len(got) - len(g)),
                            kl))
                        return fails, labels, False
    if permuted:
        labels.append('permuted')
    nontriv = permuted
    return fails, labels, nontriv


def execute_factory(ctx):
    def execute(case):
        ctx.journal(case)
        fails, labels, nt = check(case)
        return Outcome(fails, sorted(set(labels)), nt)
    return execute


def plan(ctx):
    n = 300 if ctx['tier'] == 'quick' else 10000
    shards = []
    skip = [e['match']['component'] for e in ctx.get('known_open', [])
            if e['match'].get('multi_array')]
    for c in CLASSES:
        for part in range(2):
            shards.append(dict(name='%s-%d' % (c, part), cls=c,
                               component=c, klass=dict(cls=c),
                               skip_multi=skip, max_examples=n // 2))
    return shards


def run_shard(spec, ctx):
    stats = Stats()
    if spec['cls'] in spec.get('skip_multi', []):
        stats.label('excluded:known:multi_array')
    search(case_strategy(spec['cls'], spec.get('skip_multi', [])),
           execute_factory(ctx),
           derive_seed(ctx.seed, 'C17', spec['name']), spec['max_examples'],
           stats, shrink=True)
    return stats.result()


def run_case(case, component, ctx):
    fails, _, _ = check(case)
    return [f.as_dict(case) for f in fails]
