"""C06 - a particle array stays coherent under any sequence of operations.

Model-based stateful check.  A case is plain JSON: the description of one or
two initial ParticleArrays plus a list of abstract operations.  Every
operation is interpreted against the *current* state of a straightforward
record-list model (index-like arguments are taken modulo the current size,
property choices modulo the current property list), so that any list of
operations - also a shrunk or ddmin-reduced one - is a valid API call
sequence.  Each operation is applied to the real ParticleArray and to the
model; after every operation all invariants of DESIGN C06 are checked on
every live array.
"""
import os
import pickle

from hypothesis import strategies as st

from vlib.hyp import Failure, Outcome, Stats, search, derive_seed

RULE = ('cases = 1-2 initial ParticleArrays (0-12 particles; built by the '
        'constructor (dict, plain-sequence, one-value-for-all, ndarray and '
        '2-d forms), by add_property or by one of the eight '
        'utils.get_particle_array* helpers; properties of the '
        'five C types with strides 1-4, constants of 1-9 values given as '
        'scalars / lists / nested lists / ndarrays, tags '
        'Local/Remote/Ghost incl. arrays without Local particles) '
        'plus a list of <= 30 (quick) / 60 (thorough) abstract operations '
        'over the public API (incl. clear, get/attribute reads of several '
        'names, update_min_max, renaming, lb props, copy/deepcopy/pickle '
        'with the original kept alive, utils.get_particles_info + '
        'create_dummy_particles replicas of one or both arrays; '
        'clones/extracts/copies/replicas may '
        'replace the second array), interpreted against the current model '
        'state. '
        'Non-trivial = the sequence contains a structural change of the '
        'property set followed later by a change of the number of '
        'particles, or a two-array operation, or a pickle round trip; '
        'distinct by case hash.')
ASSUMPTIONS = [
    'order of particles is compared only where the API defines it (new '
    'particles go to the end before any alignment); otherwise whole records '
    '(all properties incl. strided ones and a unique uid) are compared as a '
    'multiset and the model adopts the observed order',
    'num_real_particles and get(only_real_particles=True) are compared only '
    'after a call documented to align; slots created by a growing resize() '
    'are filled explicitly before anything is compared (documented as '
    'uninitialised)',
    'two-array calls are made only with arguments the docstrings allow: '
    'same-named properties have equal stride (and equal C type where the '
    'call copies raw carray data: extract_particles into a destination, '
    'copy_properties); copy_over_properties/set_to_zero only on double '
    'properties (declared DoubleArray)',
    'output_property_arrays after a pickle round trip carries no claim '
    '(not part of the pickled state)',
    'values are small non-negative integers (+0.5 for floating types), '
    'exact in all five C types',
    'pid/gid may be removed and re-added only with their documented types; '
    'tag and the harness uid property are never removed',
    'a silent overrun that stays inside a carray\'s spare capacity (16 '
    'elements minimum) is not observable; larger ones surface as crashes '
    'through the journal',
    'clear(): the docstring says "all data"; that tag/pid/gid remain, that '
    'the default tag is kept and that no property keeps a stride or a place '
    'in the output list is claimed; whether constants, the output list of '
    'tag/pid/gid and lb_props survive is adopted as found',
    'get_particle_array* helpers: the property list of a family is read '
    'from the array (default properties must be there); types, strides, '
    'defaults, given values and given constants are claimed, constants a '
    'helper adds on its own are adopted as found',
    'update_min_max: minimum/maximum are compared only for non-empty arrays',
]
ESSENTIAL_LABELS = {'all': ['strided_removed_readded', 'zero_particles',
                            'clear_with_strided_or_listed',
                            'rigid_body_id_with_tags',
                            'non_double', 'mixed_tags',
                            'append_differing_props', 'two_arrays',
                            'pickle', 'struct_then_size', 'resize_grow',
                            'add_property_existing', 'extract_to_dest',
                            'strided_redeclared_plain',
                            # coverage audit
                            'op:clear', 'get_multi', 'get_strided_real',
                            'via:family', 'via:plain', 'ctor_plain',
                            'ctor_broadcast', 'data_2d', 'no_local',
                            'const_nested', 'const_long', 'const_scalar',
                            'dummy_two_arrays', 'copy_kept', 'copy_module',
                            'family_sys_props', 'op:update_min_max',
                            'renamed', 'copy_over_two_pairs',
                            'remove_property_missing',
                            'add_particles_ndarray', 'index_block', 'positional',
                            'default_fractional']}

TYPES = ['double', 'float', 'int', 'long', 'unsigned int']
FLOATY = ('double', 'float')
POOL = ['a', 'b', 'c', 'd', 'e', 'f']
CPOOL = ['k0', 'k1', 'k2']
UINT_MAX = (1 << 32) - 1
GPA_DEFAULT = ['x', 'y', 'z', 'u', 'v', 'w', 'm', 'h', 'rho', 'p',
               'au', 'av', 'aw']
GPA_OUT = ['x', 'y', 'z', 'u', 'v', 'w', 'rho', 'm', 'h', 'pid', 'gid',
           'tag']
PROTECTED = ('tag', 'uid')

OPS = ['add_particles', 'remove_particles', 'remove_tagged_particles',
       'extract_particles', 'append_parray', 'extend', 'resize',
       'add_property', 'remove_property', 'add_constant', 'set', 'set_tag',
       'write_tag_align', 'align_particles', 'empty_clone',
       'copy_properties', 'copy_over_properties', 'set_to_zero', 'pickle',
       'output_arrays', 'get_property_arrays', 'ensure_properties',
       'dummy_replica', 'set_pid',
       # added by the coverage audit: methods / keyword variants the list
       # above never reached
       'clear', 'get', 'update_min_max', 'set_name', 'set_num_real',
       'lb_props']
# the get_particle_array* family of pysph.base.utils (initial arrays)
FAMILY = {'gpa': 'get_particle_array',
          'wcsph': 'get_particle_array_wcsph',
          'iisph': 'get_particle_array_iisph',
          'rigid': 'get_particle_array_rigid_body',
          'tvf_fluid': 'get_particle_array_tvf_fluid',
          'tvf_solid': 'get_particle_array_tvf_solid',
          'gasd': 'get_particle_array_gasd',
          'swe': 'get_particle_array_swe'}
ESSENTIAL_LABELS['all'] += ['via:' + _f for _f in sorted(FAMILY)]
FAMILY_INT = ('tag', 'pid', 'body_id', 'parent_idx', 'closest_idx')
NAMES = ['pa0', 'pa1', 'fluid', 'solid']
# structural ops are drawn more often (stale bookkeeping is the target)
WEIGHTED = OPS + ['add_property', 'add_property', 'remove_property',
                  'remove_property', 'add_particles', 'extend',
                  'append_parray', 'remove_particles', 'extract_particles']


# --------------------------------------------------------------- generator
small = st.integers(0, 9)


const_value = st.one_of(
    st.lists(small, min_size=1, max_size=3),
    st.lists(small, min_size=1, max_size=3).map(
        lambda l: [v + 0.5 for v in l]),
    # longer ones, scalars, nested (ravelled) ones
    st.lists(small, min_size=4, max_size=9).map(
        lambda l: [v + 0.5 for v in l]),
    small.map(lambda v: v + 0.5),
    st.lists(st.lists(small, min_size=2, max_size=2), min_size=2,
             max_size=3),
    st.lists(st.lists(small.map(lambda v: v + 0.5), min_size=3, max_size=3),
             min_size=3, max_size=3))


@st.composite
def array_spec(draw, idx, fam=None):
    n = draw(st.sampled_from([0, 0, 1, 2, 3, 4, 5, 7, 9, 12]))
    via = draw(st.sampled_from(['ctor', 'ctor', 'ctor', 'add', 'add', 'gpa',
                                'gpa', 'plain', 'plain', 'family', 'family',
                                'family']))
    if via == 'family':
        # every shard has a helper of its own, so that each one is met in
        # every run
        via = draw(st.sampled_from(sorted(k for k in FAMILY if k != 'gpa')
                                   + [fam or 'wcsph'] * 7))
    names = draw(st.lists(st.sampled_from(POOL), max_size=5, unique=True))
    props = []
    for nm in names:
        props.append(dict(
            name=nm, type=draw(st.sampled_from(TYPES)),
            stride=draw(st.sampled_from([1, 1, 2, 3, 4])),
            default=draw(st.one_of(st.none(), small)),
            data=draw(st.booleans()), salt=draw(st.integers(0, 50)),
            # constructor only: one value for all particles / ndarray / 2-d
            form=draw(st.sampled_from(['list', 'list', 'bcast', 'ndarray',
                                       '2d']))))
        if props[-1]['type'] in FLOATY and props[-1]['default'] is not None \
                and draw(st.booleans()):
            props[-1]['default'] += 0.5
    if via == 'plain':
        # the short constructor form needs double properties of stride 1
        # with values: make most of them so
        for p in props:
            if draw(st.integers(0, 3)) > 0:
                p.update(type='double', stride=1, default=None, data=True)
    tagmode = draw(st.sampled_from(['none', 'mixed', 'mixed', 'local',
                                    'ghost']))
    tags = None
    if tagmode == 'mixed':
        tags = [draw(st.integers(0, 2)) for _ in range(n)]
    elif tagmode == 'local':
        tags = [0] * n
    elif tagmode == 'ghost':
        tags = [draw(st.integers(1, 2)) for _ in range(n)]
    if via == 'rigid' and n > 0 and draw(st.booleans()):
        # body ids together with non-Local tags: the helper must keep each
        # id on its particle through the alignment
        tags = [draw(st.integers(0, 2)) for _ in range(n)]
        if not any(tags):
            tags[0] = 1
    consts = {}
    for c in draw(st.lists(st.sampled_from(CPOOL), max_size=2, unique=True)):
        consts[c] = draw(const_value)
    return dict(name='pa%d' % idx, n=n, via=via, props=props, tags=tags,
                tagdef=draw(st.sampled_from([0, 0, 1, 2])), consts=consts,
                cnd=draw(st.booleans()), sys=draw(st.booleans()),
                bodies=draw(st.integers(0, 3)), salt=draw(st.integers(0, 20)))


@st.composite
def op_strategy(draw):
    name = draw(st.sampled_from(WEIGHTED))
    # pos: documented arguments passed by position instead of by keyword
    op = dict(op=name, a=draw(st.integers(0, 1)),
              pos=draw(st.integers(0, 3)) == 0)
    i = st.integers(0, 40)
    if name == 'add_particles':
        op.update(k=draw(st.integers(0, 4)), mask=draw(st.integers(0, 255)),
                  salt=draw(i), align=draw(st.booleans()),
                  uid=draw(st.integers(0, 3)) > 0,
                  tags=draw(st.lists(st.integers(0, 2), max_size=4)),
                  form=draw(st.sampled_from(['list', 'ndarray'])))
    elif name == 'remove_particles':
        op.update(idx=draw(st.lists(i, max_size=6)),
                  form=draw(st.sampled_from(['list', 'ndarray', 'int32',
                                             'LongArray', 'arange'])),
                  align=draw(st.booleans()),
                  oob=draw(st.integers(0, 7)) == 0)
    elif name == 'remove_tagged_particles':
        op.update(tag=draw(st.integers(0, 2)), align=draw(st.booleans()))
    elif name == 'extract_particles':
        op.update(idx=draw(st.lists(i, max_size=6)),
                  form=draw(st.sampled_from(['list', 'ndarray', 'int32',
                                             'LongArray', 'arange'])),
                  dest=draw(st.sampled_from(['none', 'none', 'other',
                                             'other', 'self'])),
                  align=draw(st.booleans()),
                  mask=draw(st.one_of(st.none(), st.integers(0, 255))),
                  adopt=draw(st.booleans()))
    elif name == 'append_parray':
        op.update(align=draw(st.booleans()), uc=draw(st.booleans()))
    elif name == 'extend':
        op.update(k=draw(st.integers(0, 4)))
    elif name == 'resize':
        op.update(size=draw(st.integers(0, 14)), salt=draw(i))
    elif name == 'add_property':
        op.update(name=draw(st.integers(0, len(POOL) + 2)),
                  type=draw(st.integers(0, len(TYPES) - 1)),
                  stride=draw(st.sampled_from([1, 1, 2, 3, 4])),
                  default=draw(st.one_of(st.none(), small)),
                  data=draw(st.sampled_from(['none', 'none', 'list',
                                             'list', 'scalar', 'empty'])),
                  salt=draw(i), k=draw(st.integers(0, 3)),
                  pass_stride=draw(st.booleans()),
                  kw_type=draw(st.booleans()),
                  readd=draw(st.booleans()),
                  dform=draw(st.sampled_from(['list', 'list', 'ndarray',
                                              '2d'])),
                  dhalf=draw(st.booleans()))
    elif name == 'remove_property':
        op.update(p=draw(i), strided=draw(st.booleans()),
                  missing=draw(st.integers(0, 7)) == 0)
    elif name == 'add_constant':
        op.update(name=draw(st.integers(0, len(CPOOL) - 1)),
                  data=draw(st.one_of(small, const_value)),
                  nd=draw(st.booleans()))
    elif name == 'set':
        op.update(mask=draw(st.integers(1, 255)), salt=draw(i),
                  attr=draw(st.booleans()), const=draw(st.booleans()))
    elif name == 'set_tag':
        op.update(tag=draw(st.integers(0, 2)),
                  idx=draw(st.lists(i, max_size=5)))
    elif name == 'write_tag_align':
        op.update(idx=draw(st.lists(i, max_size=5)),
                  tags=draw(st.lists(st.integers(0, 2), min_size=1,
                                     max_size=5)),
                  real_view=draw(st.booleans()))
    elif name == 'empty_clone':
        op.update(mask=draw(st.one_of(st.none(), st.integers(0, 255))),
                  adopt=draw(st.booleans()))
    elif name == 'copy_properties':
        op.update(mode=draw(st.sampled_from(['all', 'start', 'range'])),
                  s=draw(i), e=draw(i))
    elif name == 'copy_over_properties':
        op.update(src=draw(i), dst=draw(i), src2=draw(i), dst2=draw(i),
                  pairs=draw(st.integers(1, 2)))
    elif name == 'set_to_zero':
        op.update(mask=draw(st.integers(0, 255)))
    elif name == 'output_arrays':
        op.update(mask=draw(st.integers(0, 255)), add=draw(st.booleans()))
    elif name == 'get_property_arrays':
        op.update(all=draw(st.booleans()), real=draw(st.booleans()))
    elif name == 'ensure_properties':
        op.update(mask=draw(st.one_of(st.none(), st.integers(0, 255))))
    elif name == 'dummy_replica':
        op.update(adopt=draw(st.booleans()), both=draw(st.booleans()))
    elif name == 'set_pid':
        op.update(pid=draw(small))
    elif name == 'pickle':
        op.update(how=draw(st.sampled_from(['pickle', 'pickle', 'proto0',
                                            'copy', 'deepcopy'])),
                  keep=draw(st.booleans()))
    elif name == 'get':
        op.update(mask=draw(st.integers(0, 255)), strided=draw(st.booleans()),
                  const=draw(st.booleans()), real=draw(st.booleans()),
                  attr=draw(st.booleans()))
    elif name == 'update_min_max':
        op.update(mask=draw(st.one_of(st.none(), st.integers(0, 255))))
    elif name == 'set_name':
        op.update(name=draw(st.integers(0, len(NAMES) - 1)))
    elif name == 'set_num_real':
        op.update(v=draw(i))
    elif name == 'lb_props':
        op.update(mask=draw(st.one_of(st.none(), st.integers(0, 255))))
    return op


@st.composite
def case_strategy(draw, max_ops, fam=None):
    narr = draw(st.sampled_from([1, 2, 2, 2]))
    arrays = [draw(array_spec(i, fam)) for i in range(narr)]
    lo = draw(st.sampled_from([1, 4, 8, 16, 24]))
    ops = draw(st.lists(op_strategy(), min_size=min(lo, max_ops),
                        max_size=max_ops))
    return dict(arrays=arrays, ops=ops)


# ------------------------------------------------------------------- model
def conv(typ, v):
    return float(v) if typ in FLOATY else int(v)


def gen_vals(typ, salt, count):
    out = []
    for i in range(count):
        v = (salt * 31 + i * 7 + 3) % 1009
        if typ in FLOATY and salt % 2:
            v += 0.5
        out.append(conv(typ, v))
    return out


def chunks(vals, stride):
    return [tuple(vals[i * stride:(i + 1) * stride])
            for i in range(len(vals) // stride)]


class M(object):
    """Record-list model of one particle array (DESIGN 3.3)."""

    def __init__(self, name='', tagdef=0):
        self.name = name
        # what ParticleArray.clear() documents: tag, pid, gid always exist
        self.props = {'tag': ['int', 1, tagdef], 'pid': ['int', 1, 0],
                      'gid': ['unsigned int', 1, UINT_MAX]}
        self.recs = []
        self.consts = {}
        self.out = []
        self.aligned = False
        self.exact = True       # order of records defined by the API?
        self.out_claim = True
        self.const_claim = True
        self.lb = None          # None: get_lb_props() = all properties
        self.removed_strided = set()

    def default_of(self, p):
        t, s, d = self.props[p]
        return (conv(t, d),) * s

    def default_rec(self):
        return dict((p, self.default_of(p)) for p in self.props)

    def cast(self, p, vals):
        t = self.props[p][0]
        return tuple(conv(t, v) for v in vals)

    def nlocal(self):
        return sum(1 for r in self.recs if r['tag'][0] == 0)

    def add_prop(self, name, typ, stride, default):
        self.props[name] = [typ, stride, 0 if default is None else default]
        d = self.default_of(name)
        for r in self.recs:
            r[name] = d

    def names(self, skip=()):
        return [p for p in sorted(self.props) if p not in skip]


class Fail(Exception):
    def __init__(self, failure):
        Exception.__init__(self, failure.detail)
        self.failure = failure


class Skip(Exception):
    pass


class State(object):
    def __init__(self):
        self.real = [None, None]
        self.model = [None, None]
        self.uid = 100
        self.labels = set()
        self.struct_seen = False
        self.nontrivial = False
        self.op = 'init'
        self.variant = ''

    def fresh_uids(self, k):
        u = list(range(self.uid, self.uid + k))
        self.uid += k
        return u

    def fail(self, kind, detail, what=None, expected=None, observed=None):
        kl = dict(variant=self.variant)
        if what is not None:
            kl['what'] = what
        raise Fail(Failure('ParticleArray.' + self.op, kind, detail, kl,
                           expected=expected, observed=observed))

    def call(self, fn, *a, **k):
        try:
            return fn(*a, **k)
        except Exception as ex:
            kl = dict(variant=self.variant, exc=type(ex).__name__)
            raise Fail(Failure('ParticleArray.' + self.op, 'exception',
                               '%s(%s) raised %r' % (self.op, self.variant,
                                                     ex), kl))

    def size_change(self):
        if self.struct_seen:
            self.nontrivial = True
            self.labels.add('struct_then_size')

    def two(self):
        self.nontrivial = True
        self.labels.add('two_array_op')


def flat(v):
    """A constant as given (scalar, list, nested list) -> flat floats."""
    if isinstance(v, (list, tuple)):
        out = []
        for x in v:
            out.extend(flat(x))
        return out
    return [float(v)]


def shaped(typ, form, vals, stride):
    """The values of one property in the requested container."""
    import numpy as np
    if form not in ('ndarray', '2d'):
        return list(vals)
    dt = {'double': np.float64, 'float': np.float32, 'int': np.int32,
          'long': np.int64, 'unsigned int': np.uint32}[typ]
    arr = np.array(vals, dtype=dt)
    if form == '2d' and stride > 1 and len(vals):
        arr = arr.reshape(len(vals) // stride, stride)
    return arr


def build(S, slot, spec):
    import numpy as np
    from pysph.base.particle_array import ParticleArray
    from pysph.base import utils
    n = int(spec.get('n', 0))
    via = spec.get('via', 'ctor')
    if via not in FAMILY and via not in ('ctor', 'add', 'plain'):
        via = 'ctor'
    fam = via in FAMILY
    tags = spec.get('tags')
    if tags is not None:
        tags = [int(t) % 3 for t in (list(tags) + [0] * n)[:n]]
    tagdef = int(spec.get('tagdef', 0)) if not fam else 0
    rawc = dict((str(k), v) for k, v in (spec.get('consts') or {}).items())
    consts = dict((k, flat(v)) for k, v in rawc.items())
    name = str(spec.get('name', 'pa%d' % slot))
    m = M(name, tagdef)
    uids = S.fresh_uids(n)
    props = []
    seen = set()
    taken = set()
    if fam:
        # names the family defines itself (e.g. 'b' of the shallow water
        # array, 'e' of the gas dynamics one) are not redefined
        taken = set(S.call(getattr(utils, FAMILY[via]),
                           name='names').properties)
    for p in spec.get('props', []):
        if p['name'] in seen or p['name'] in m.props or p['name'] == 'uid' \
                or p['name'] in taken:
            continue
        seen.add(p['name'])
        props.append(p)
    data = {}
    for p in props:
        if p.get('data'):
            vals = gen_vals(p['type'], p.get('salt', 0), n * p['stride'])
            if p.get('form') == 'bcast' and p['stride'] == 1 and n > 1 \
                    and via in ('ctor', 'plain'):
                # the constructor repeats a single value for all particles
                vals = vals[:1] * n
                S.labels.add('ctor_broadcast')
            data[p['name']] = vals

    def given(p):
        """Values of p in the container the spec asks for."""
        vals = data[p['name']]
        form = p.get('form', 'list')
        if form == 'bcast':
            return vals[:1] if (p['stride'] == 1 and n > 1 and
                                via in ('ctor', 'plain')) else list(vals)
        if form == '2d' and p['stride'] > 1 and vals:
            S.labels.add('data_2d')
        return shaped(p['type'], form, vals, p['stride'])

    def info(p, with_data=True):
        d = dict(type=p['type'], stride=p['stride'])
        if p.get('default') is not None:
            d['default'] = p['default']
        if with_data and p['name'] in data:
            d['data'] = given(p)
        return d

    def cval(v):
        if spec.get('cnd') and isinstance(v, list):
            return np.array(v)
        return list(v) if isinstance(v, list) else v
    ckw = dict((k, cval(v)) for k, v in rawc.items()) or None
    if any(isinstance(v, list) and v and isinstance(v[0], list)
           for v in rawc.values()):
        S.labels.add('const_nested')
    if any(not isinstance(v, list) for v in rawc.values()):
        S.labels.add('const_scalar')
    if any(len(v) > 3 for v in consts.values()):
        S.labels.add('const_long')
    if via == 'ctor':
        kw = dict((p['name'], info(p)) for p in props)
        kw['uid'] = dict(type='long', default=-1, data=list(uids))
        if tags is not None:
            kw['tag'] = dict(type='int', data=list(tags))
        pa = S.call(ParticleArray, name=name, default_particle_tag=tagdef,
                    constants=ckw, **kw)
    elif via == 'plain':
        # the documented short form ParticleArray(name=..., x=[...]): a
        # plain sequence is a double property of stride 1 with default 0
        kw = {}
        nplain = 0
        for p in props:
            if (p['type'] == 'double' and p['stride'] == 1 and
                    p.get('default') is None and p['name'] in data and n):
                kw[p['name']] = given(p)
                nplain += 1
            else:
                kw[p['name']] = info(p)
        kw['uid'] = dict(type='long', default=-1, data=list(uids))
        if tags is not None:
            kw['tag'] = dict(type='int', data=list(tags))
        if nplain:
            S.labels.add('ctor_plain')
        pa = S.call(ParticleArray, name=name, default_particle_tag=tagdef,
                    constants=ckw, **kw)
    elif via == 'add':
        pa = S.call(ParticleArray, name=name, default_particle_tag=tagdef)
        for k, v in rawc.items():
            S.call(pa.add_constant, k, cval(v))
        S.call(pa.add_property, 'uid', type='long', default=-1,
               data=list(uids))
        if tags is not None:
            S.call(pa.add_property, 'tag', type='int', data=list(tags))
        for p in props:
            S.call(pa.add_property, p['name'], **info(p))
        S.call(pa.align_particles)
    else:
        fn = getattr(utils, FAMILY[via])
        plain = [p for p in props if p['type'] == 'double' and
                 p['stride'] == 1 and p.get('default') is None]
        kw = dict((p['name'], given(p)) for p in plain
                  if p['name'] in data)
        salt = int(spec.get('salt', 0))
        data['x'] = gen_vals('double', 5, n)
        data['h'] = gen_vals('double', 8 + salt, n)
        kw['x'] = list(data['x'])
        kw['h'] = np.array(data['h'])
        sysp = bool(spec.get('sys')) and n > 0
        if sysp:
            # tag / pid / gid have their own branches in get_particle_array
            data['pid'] = [(salt + i) % 4 for i in range(n)]
            data['gid'] = [(salt + 3 * i) % 50 for i in range(n)]
            kw['pid'] = list(data['pid'])
            kw['gid'] = list(data['gid'])
            if tags is not None and via != 'gasd':
                # (gasd copies h to h0 through the real-particle views, so
                # its tags are written afterwards)
                kw['tag'] = list(tags)
            S.labels.add('family_sys_props')
        extra = [p['name'] for p in plain if p['name'] not in data]
        if via == 'gpa':
            kw['additional_props'] = extra or None
            extra = []
        nb = int(spec.get('bodies', 0))
        if via == 'rigid' and nb and n:
            data['body_id'] = [(salt + i) % nb for i in range(n)]
            kw['body_id'] = list(data['body_id'])
            if 'tag' in kw and any(kw['tag']):
                S.labels.add('rigid_body_id_with_tags')
        pa = S.call(fn, name=name, constants=ckw, **kw)
        perm = list(range(n))
        if 'tag' in kw:
            # the constructor inside has aligned the particles; values
            # added from here on follow the new order (x is unique)
            xs = S.call(pa.get, 'x', only_real_particles=False).tolist()
            if sorted(xs) != sorted(data['x']):
                S.fail('records', '%s(x=%r, tag=%r) holds x = %r' % (
                    FAMILY[via], data['x'], tags, xs), what='multiset',
                    expected=data['x'], observed=xs)
            perm = [data['x'].index(v) for v in xs]
        S.call(pa.add_property, 'uid', type='long', default=-1,
               data=[uids[j] for j in perm])
        for q in extra:
            S.call(pa.add_property, q)
        for p in props:
            if p not in plain:
                d = info(p, with_data=False)
                if p['name'] in data:
                    ch = chunks(data[p['name']], p['stride'])
                    d['data'] = shaped(
                        p['type'], p.get('form'),
                        [v for j in perm for v in ch[j]], p['stride'])
                S.call(pa.add_property, p['name'], **d)
        if tags is not None and 'tag' not in kw:
            # the constructor inside get_particle_array aligns, so tags are
            # written afterwards (documented direct view), then aligned
            S.call(pa.get, 'tag', only_real_particles=False)[:] = tags
        S.call(pa.align_particles)
        # the model takes the property list of the family from the array;
        # types / strides / defaults are what get_particle_array documents
        have = set(pa.properties)
        miss = sorted(set(GPA_DEFAULT) - have)
        if miss:
            S.fail('bookkeeping', '%s() lacks the default properties %s' % (
                FAMILY[via], miss), what='family_props')
        for q in sorted(have):
            if q in m.props or q == 'uid' or q in seen:
                continue
            m.props[q] = ['int' if q in FAMILY_INT else 'double', 1, 0]
        m.out_claim = via == 'gpa'
        m.out = list(GPA_OUT)
        if via == 'gasd':
            # documented in get_particle_array_gasd: h0 starts as h
            data['h0'] = list(data['h'])
        # constants the family adds on its own are adopted as found
        for c in pa.constants:
            if c not in consts:
                consts[c] = [float(v) for v in
                             pa.constants[c].get_npy_array().tolist()]
        if via != 'gpa':
            S.labels.add('via:family')
    m.props['uid'] = ['long', 1, -1]
    for p in props:
        m.props[p['name']] = [p['type'], p['stride'],
                              0 if p.get('default') is None
                              else p['default']]
    m.consts = consts
    for i in range(n):
        r = m.default_rec()
        r['uid'] = (uids[i],)
        if tags is not None:
            r['tag'] = (tags[i],)
        for q, vals in data.items():
            if q not in m.props:
                S.fail('bookkeeping', 'array %s lacks property %r' % (
                    name, q), what='family_props')
            s = m.props[q][1]
            r[q] = m.cast(q, vals[i * s:(i + 1) * s])
        m.recs.append(r)
    m.aligned = True
    m.exact = False
    S.real[slot] = pa
    S.model[slot] = m
    if n == 0:
        S.labels.add('zero_particles')
    if tags is not None and len(set(tags)) > 1:
        S.labels.add('mixed_tags')
    if n and tags is not None and 0 not in tags:
        S.labels.add('no_local')
    if any(p['type'] != 'double' for p in props):
        S.labels.add('non_double')
    if any(p.get('default') is not None and p['default'] != int(p['default'])
           for p in props):
        S.labels.add('default_fractional')
    S.labels.add('via:' + via)


# ---------------------------------------------------------------- checking
def rec_key(names, r):
    return tuple(r[p] for p in names)


def read_records(S, pa, m):
    """Read the real array as records; fails on any length mismatch."""
    n = pa.get_number_of_particles()
    cols = {}
    for p in m.props:
        t, s, d = m.props[p]
        arr = pa.properties[p].get_npy_array()
        if len(arr) != n * s or pa.properties[p].length != n * s:
            S.fail('length', 'array %s: property %r holds %d values for %d '
                   'particles of stride %d' % (m.name, p, len(arr), n, s),
                   what='stride>1' if s > 1 else 'stride1',
                   expected=n * s, observed=len(arr))
        cols[p] = chunks(arr.tolist(), s)
    return [dict((p, cols[p][i]) for p in cols) for i in range(n)]


def check_array(S, slot, pa=None, m=None):
    if pa is None:
        pa = S.real[slot]
        m = S.model[slot]
    n = pa.get_number_of_particles()
    if n != len(m.recs):
        S.fail('size', 'array %s has %d particles, model %d' % (
            m.name, n, len(m.recs)), expected=len(m.recs), observed=n)
    if n == 0:
        S.labels.add('zero_particles')
    # ---- bookkeeping: properties / default_values / stride / output
    want = set(m.props)
    if set(pa.properties) != want:
        S.fail('bookkeeping', 'array %s: properties %s, model %s' % (
            m.name, sorted(pa.properties), sorted(want)), what='properties')
    if set(pa.default_values) != want:
        S.fail('bookkeeping', 'array %s: default_values mentions %s, '
               'properties are %s' % (m.name, sorted(pa.default_values),
                                      sorted(want)), what='default_values')
    stale = sorted(set(pa.stride) - want)
    if stale:
        S.fail('bookkeeping', 'array %s: stride still mentions removed '
               'properties %s' % (m.name, stale), what='stale_stride')
    for p, (t, s, d) in m.props.items():
        if pa.stride.get(p, 1) != s:
            S.fail('bookkeeping', 'array %s: stride[%r] = %r, model %d' % (
                m.name, p, pa.stride.get(p, 1), s), what='stride')
        if pa.properties[p].get_c_type() != t:
            S.fail('bookkeeping', 'array %s: property %r is %s, model %s' % (
                m.name, p, pa.properties[p].get_c_type(), t), what='type')
        dv = pa.default_values[p]
        try:
            same = float(dv) == float(d)
        except Exception:
            same = False
        if not same:
            S.fail('bookkeeping', 'array %s: default_values[%r] = %r, '
                   'model %r' % (m.name, p, dv, d), what='default')
    out = pa.output_property_arrays
    if not isinstance(out, list) or not set(out) <= want:
        S.fail('bookkeeping', 'array %s: output_property_arrays %r names '
               'non-existing properties' % (m.name, out),
               what='output_stale')
    if m.out_claim:
        if set(out) != set(m.out) or len(out) != len(set(out)):
            S.fail('bookkeeping', 'array %s: output_property_arrays %r, '
                   'model %r' % (m.name, sorted(out), sorted(m.out)),
                   what='output')
    else:
        m.out = list(out)
        m.out_claim = True
    if pa.name != m.name:
        S.fail('bookkeeping', 'name %r, model %r' % (pa.name, m.name),
               what='name')
    lb = pa.get_lb_props()
    wl = sorted(m.props) if m.lb is None else sorted(m.lb)
    if not isinstance(lb, list) or sorted(lb) != wl:
        S.fail('bookkeeping', 'array %s: get_lb_props() = %r, expected %r '
               '(%s)' % (m.name, lb, wl, 'all properties' if m.lb is None
                         else 'as set'), what='lb_props')
    # ---- records
    recs = read_records(S, pa, m)
    names = sorted(m.props)
    if m.exact:
        if recs != m.recs:
            bad = [i for i in range(n) if recs[i] != m.recs[i]]
            i = bad[0]
            diff = [p for p in names if recs[i][p] != m.recs[i][p]]
            S.fail('records', 'array %s: particle at slot %d differs in %s: '
                   'real %r, model %r' % (
                       m.name, i, diff,
                       dict((p, recs[i][p]) for p in diff + ['uid']
                            if p in recs[i]),
                       dict((p, m.recs[i][p]) for p in diff + ['uid']
                            if p in m.recs[i])),
                   what='ordered',
                   expected=[m.recs[i][p] for p in diff],
                   observed=[recs[i][p] for p in diff])
    else:
        a = sorted(rec_key(names, r) for r in recs)
        b = sorted(rec_key(names, r) for r in m.recs)
        if a != b:
            only_real = [x for x in a if x not in b][:2]
            only_model = [x for x in b if x not in a][:2]
            S.fail('records', 'array %s: records differ as a multiset '
                   '(props %s): only in real %r, only in model %r' % (
                       m.name, names, only_real, only_model),
                   what='multiset', expected=only_model, observed=only_real)
        m.recs = recs
        m.exact = True
    # ---- constants
    if not m.const_claim:
        m.consts = dict(
            (c, [float(v) for v in a.get_npy_array().tolist()])
            for c, a in pa.constants.items())
        m.const_claim = True
    if set(pa.constants) != set(m.consts):
        S.fail('constants', 'array %s: constants %s, model %s' % (
            m.name, sorted(pa.constants), sorted(m.consts)), what='names')
    for c, vals in m.consts.items():
        got = [float(v) for v in pa.constants[c].get_npy_array().tolist()]
        if got != [float(v) for v in vals]:
            S.fail('constants', 'array %s: constant %r = %r, model %r' % (
                m.name, c, got, vals), what='values', expected=vals,
                observed=got)
    # ---- alignment
    if m.aligned:
        nl = m.nlocal()
        if pa.num_real_particles != nl:
            S.fail('alignment', 'array %s: num_real_particles %d, Local '
                   'particles %d' % (m.name, pa.num_real_particles, nl),
                   what='num_real', expected=nl,
                   observed=pa.num_real_particles)
        tg = [r['tag'][0] for r in m.recs]
        if any(t != 0 for t in tg[:nl]):
            S.fail('alignment', 'array %s: tags %r after alignment; the '
                   'first %d slots are not the Local ones' % (
                       m.name, tg, nl), what='order')
        if pa.get_number_of_particles(True) != nl:
            S.fail('alignment', 'get_number_of_particles(real=True)',
                   what='num_real')
        for p in ('uid', 'tag'):
            if p not in m.props:
                continue
            s = m.props[p][1]
            v = pa.get(p)
            if len(v) != nl * s:
                S.fail('alignment', 'get(%r) returns %d values for %d real '
                       'particles' % (p, len(v), nl), what='get_real')
    tg = set(r['tag'][0] for r in m.recs)
    if len(tg) > 1:
        S.labels.add('mixed_tags')
    if any(t != 'double' for p, (t, s, d) in m.props.items()
           if p not in ('tag', 'pid', 'gid', 'uid')):
        S.labels.add('non_double')


def check_all(S):
    for slot in (0, 1):
        if S.real[slot] is not None:
            check_array(S, slot)


# --------------------------------------------------------------- operations
def subset(names, mask):
    return [p for i, p in enumerate(names) if (int(mask) >> (i % 8)) & 1]


def uniq_mod(idx, n):
    out = []
    if n <= 0:
        return out
    for i in idx or []:
        j = int(i) % n
        if j not in out:
            out.append(j)
    return out


def as_indices(form, idx):
    import numpy as np
    from cyarray.api import LongArray
    if form == 'ndarray':
        return np.array(idx, dtype=np.int64)
    if form == 'int32':
        return np.array(idx, dtype=np.int32)
    if form == 'arange':
        # a contiguous block.  utils.arange_long would be the helper for
        # this, but it raises AttributeError for every non-empty range on
        # the unchanged tree (it writes LongArray.data from Python; reported
        # by the audit), so the block is filled by hand
        la = LongArray(len(idx))
        for i, v in enumerate(idx):
            la[i] = v
        return la
    if form == 'LongArray':
        la = LongArray(len(idx))
        for i, v in enumerate(idx):
            la[i] = v
        return la
    return list(idx)


def prop_vals(S, m, p, salt, k, tags=None):
    t, s, d = m.props[p]
    if p == 'uid':
        return S.fresh_uids(k)
    if p == 'tag':
        tg = list(tags or [])
        return [int((tg + [salt + i])[i] if i < len(tg) else salt + i) % 3
                for i in range(k)]
    return gen_vals(t, salt + len(p) + ord(p[0]), k * s)


def set_col(m, p, vals, start=0):
    s = m.props[p][1]
    for j, c in enumerate(chunks(list(vals), s)):
        m.recs[start + j][p] = m.cast(p, c)


def clone_model(m, plist):
    c = M(m.name, 0)
    for p in (list(m.props) if plist is None else plist):
        c.props[p] = list(m.props[p])
    c.consts = dict((k, list(v)) for k, v in m.consts.items())
    c.out = [p for p in m.out if plist is None or p in plist]
    c.aligned = True
    return c


def compatible(a, b, need_type=True):
    """Common properties of two models agree in stride (and type)."""
    for p in a.props:
        if p in b.props:
            if a.props[p][1] != b.props[p][1]:
                return False
            if need_type and a.props[p][0] != b.props[p][0]:
                return False
    return True


def op_add_particles(S, op, a, b):
    pa, m = S.real[a], S.model[a]
    k = int(op.get('k', 0))
    align = bool(op.get('align', True))
    chosen = subset(m.names(skip=('uid',)), op.get('mask', 0))
    if op.get('uid', True) and 'uid' in m.props:
        chosen.append('uid')
    S.variant = 'k=0' if k == 0 else ('all' if len(chosen) == len(m.props)
                                      else 'subset')
    if not chosen:
        S.variant = 'noprops'
        S.call(pa.add_particles, align=align)
        return
    data = dict((p, prop_vals(S, m, p, op.get('salt', 0), k, op.get('tags')))
                for p in chosen)
    form = op.get('form', 'list')
    if form == 'ndarray':
        S.labels.add('add_particles_ndarray')
    S.call(pa.add_particles, align=align, **dict(
        (p, shaped(m.props[p][0], form, v, m.props[p][1]))
        for p, v in data.items()))
    n = len(m.recs)
    for i in range(k):
        m.recs.append(m.default_rec())
    for p, v in data.items():
        set_col(m, p, v, n)
    if k > 0:
        m.aligned = align
        if align:
            m.exact = False
        S.size_change()


def op_remove_particles(S, op, a, b):
    pa, m = S.real[a], S.model[a]
    n = len(m.recs)
    idx = uniq_mod(op.get('idx'), n)
    if op.get('form') == 'arange' and idx:
        # utils.arange_long: a contiguous block of indices
        idx = list(range(min(idx), max(idx) + 1))
        S.labels.add('index_block')
    call_idx = list(idx)
    S.variant = str(op.get('form', 'list'))
    if op.get('form') == 'arange':
        pass
    elif op.get('oob') and len(call_idx) + 1 <= n:
        call_idx.append(n + 1)
        S.variant += '+oob'
    align = bool(op.get('align', True))
    if op.get('pos'):
        S.labels.add('positional')
        S.call(pa.remove_particles, as_indices(op.get('form'), call_idx),
               align)
    else:
        S.call(pa.remove_particles, as_indices(op.get('form'), call_idx),
               align=align)
    gone = set(idx)
    m.recs = [r for i, r in enumerate(m.recs) if i not in gone]
    m.exact = False
    if call_idx and align:
        m.aligned = True
    elif idx:
        m.aligned = False
    if idx:
        S.size_change()


def op_remove_tagged_particles(S, op, a, b):
    pa, m = S.real[a], S.model[a]
    tag = int(op.get('tag', 0)) % 3
    align = bool(op.get('align', True))
    found = [i for i, r in enumerate(m.recs) if r['tag'][0] == tag]
    S.variant = 'tag%d' % tag
    if op.get('pos'):
        S.labels.add('positional')
        S.call(pa.remove_tagged_particles, tag, align)
    else:
        S.call(pa.remove_tagged_particles, tag, align=align)
    m.recs = [r for r in m.recs if r['tag'][0] != tag]
    m.exact = False
    if found:
        m.aligned = align
        S.size_change()


def op_extract_particles(S, op, a, b):
    pa, m = S.real[a], S.model[a]
    idx = uniq_mod(op.get('idx'), len(m.recs))
    if op.get('form') == 'arange' and idx:
        idx = list(range(min(idx), max(idx) + 1))
        S.labels.add('index_block')
    align = bool(op.get('align', True))
    dest = op.get('dest', 'none')
    if dest == 'other' and b is None:
        dest = 'none'
    mask = op.get('mask')
    plist = None if mask is None else subset(m.names(), mask)
    d = None
    if dest != 'none':
        d = a if dest == 'self' else b
        D = S.model[d]
        ok = [p for p in (m.names() if plist is None else plist)
              if p in D.props and D.props[p][:2] == m.props[p][:2]]
        if plist is not None or len(ok) != len(m.props):
            plist = ok
    S.variant = '%s,%s,%s' % (dest, 'all' if plist is None else 'props',
                              'align' if align else 'noalign')
    if op.get('pos'):
        S.labels.add('positional')
        res = S.call(pa.extract_particles, as_indices(op.get('form'), idx),
                     None if d is None else S.real[d], align,
                     None if plist is None else list(plist))
    else:
        res = S.call(pa.extract_particles, as_indices(op.get('form'), idx),
                     dest_array=None if d is None else S.real[d],
                     align=align,
                     props=None if plist is None else list(plist))
    names = list(m.props) if plist is None else plist
    if d is None:
        C = clone_model(m, plist)
    else:
        C = S.model[d]
        if res is not S.real[d]:
            S.fail('return', 'extract_particles did not return dest_array')
        S.labels.add('extract_to_dest')
        if d != a:
            S.two()
    new = []
    for i in idx:
        r = C.default_rec()
        for p in names:
            r[p] = m.recs[i][p]
        new.append(r)
    C.recs.extend(new)
    if idx:
        C.aligned = align
        if align:
            C.exact = False
        if d is not None:
            S.size_change()
    if d is None:
        check_array(S, None, res, C)
        if op.get('adopt'):
            S.real[1], S.model[1] = res, C
            S.labels.add('adopt_extract')


def op_append_parray(S, op, a, b):
    if b is None:
        raise Skip()
    D, Sm = S.model[a], S.model[b]
    if not compatible(D, Sm, need_type=False):
        raise Skip()
    align = bool(op.get('align', True))
    uc = bool(op.get('uc', False))
    differ = set(D.props) != set(Sm.props)
    S.variant = '%s%s' % ('differ' if differ else 'same',
                          ',empty' if not Sm.recs else '')
    if op.get('pos'):
        S.labels.add('positional')
        S.call(S.real[a].append_parray, S.real[b], align, uc)
    else:
        S.call(S.real[a].append_parray, S.real[b], align=align,
               update_constants=uc)
    S.two()
    if not Sm.recs:
        return
    added = False
    for p, (t, s, dflt) in Sm.props.items():
        if p not in D.props:
            D.add_prop(p, t, s, dflt)
            added = True
    for r0 in Sm.recs:
        r = D.default_rec()
        for p in Sm.props:
            r[p] = D.cast(p, r0[p])
        D.recs.append(r)
    if uc:
        for c, v in Sm.consts.items():
            D.consts.setdefault(c, list(v))
    D.aligned = align
    if align:
        D.exact = False
    if differ:
        S.labels.add('append_differing_props')
    S.size_change()
    if added:
        S.struct_seen = True


def op_extend(S, op, a, b):
    pa, m = S.real[a], S.model[a]
    k = int(op.get('k', 0))
    S.variant = 'k=0' if k == 0 else 'k>0'
    S.call(pa.extend, k)
    for i in range(k):
        m.recs.append(m.default_rec())
    if k > 0:
        m.aligned = False
        S.size_change()


def op_resize(S, op, a, b):
    pa, m = S.real[a], S.model[a]
    n = len(m.recs)
    size = int(op.get('size', 0))
    S.variant = 'grow' if size > n else ('shrink' if size < n else 'same')
    S.call(pa.resize, size)
    if size <= n:
        m.recs = m.recs[:size]
    else:
        # documented as uninitialised: fill the new slots explicitly
        k = size - n
        for i in range(k):
            m.recs.append(m.default_rec())
        for p in m.props:
            s = m.props[p][1]
            arr = pa.get_carray(p).get_npy_array()
            if len(arr) != size * s:
                S.fail('length', 'after resize(%d) property %r of stride %d '
                       'holds %d values' % (size, p, s, len(arr)),
                       what='stride>1' if s > 1 else 'stride1',
                       expected=size * s, observed=len(arr))
            v = prop_vals(S, m, p, op.get('salt', 0), k)
            arr[n * s:] = v
            set_col(m, p, v, n)
        S.labels.add('resize_grow')
    if size != n:
        m.aligned = False
        S.size_change()


def op_add_property(S, op, a, b):
    pa, m = S.real[a], S.model[a]
    cand = POOL + ['pid', 'gid', 'tag']
    nm = cand[int(op.get('name', 0)) % len(cand)]
    back = sorted(p for p in m.removed_strided if p not in m.props)
    if op.get('readd') and back:
        # re-add a strided property that was removed earlier
        nm = back[int(op.get('name', 0)) % len(back)]
    n = len(m.recs)
    exists = nm in m.props
    mode = op.get('data', 'none')
    dflt = op.get('default')
    if exists:
        t, s = m.props[nm][:2]
        if nm == 'gid':
            dflt = None
    else:
        t = TYPES[int(op.get('type', 0)) % len(TYPES)]
        s = int(op.get('stride', 1))
        if nm in ('pid', 'gid'):
            # system properties keep their documented type
            t, s = ('int' if nm == 'pid' else 'unsigned int'), 1
    if dflt is not None and op.get('dhalf') and t in FLOATY:
        dflt = int(dflt) + 0.5
        S.labels.add('default_fractional')
    kw = {}
    if op.get('kw_type', True) or (not exists and t != 'double'):
        kw['type'] = t
    declare_only = exists and s != 1 and mode in ('none', 'empty') and \
        not op.get('pass_stride')
    if declare_only:
        # the "make sure it exists" idiom: an existing strided property is
        # named again without stride and without values; nothing changes
        S.labels.add('strided_redeclared_plain')
    elif s != 1 or op.get('pass_stride'):
        kw['stride'] = s
    if dflt is not None:
        kw['default'] = dflt
    salt = int(op.get('salt', 0))
    vals = None
    grow = 0
    if mode == 'list':
        if n > 0:
            cnt = n
        else:
            cnt = grow = int(op.get('k', 0))
        vals = ([(salt + i) % 3 for i in range(cnt)] if nm == 'tag'
                else gen_vals(t, salt, cnt * s))
        dform = op.get('dform', 'list')
        kw['data'] = shaped(t, dform, vals, s)
        if dform == '2d' and s > 1 and vals:
            S.labels.add('data_2d')
    elif mode == 'scalar':
        kw['data'] = conv(t, salt % 3 if nm == 'tag' else salt % 10)
    elif mode == 'empty':
        kw['data'] = []
    S.variant = '%s,%s%s' % ('existing' if exists else 'new', mode,
                             ',grow' if grow else '')
    if op.get('pos') and not declare_only:
        # add_property(name, type, default, data, stride)
        S.labels.add('positional')
        S.call(pa.add_property, nm, t, kw.get('default'), kw.get('data'), s)
    else:
        S.call(pa.add_property, nm, **kw)
    if exists:
        S.labels.add('add_property_existing')
        if dflt is not None:
            m.props[nm][2] = dflt
    else:
        if nm in m.removed_strided:
            S.labels.add('strided_removed_readded')
        if s > 1:
            S.labels.add('strided_added')
        m.add_prop(nm, t, s, dflt)
    if mode == 'list' and vals:
        for i in range(grow):
            m.recs.append(m.default_rec())
        set_col(m, nm, vals, 0)
        if grow or nm == 'tag':
            m.aligned = False
        if grow:
            S.size_change()
    elif mode == 'scalar' and n > 0:
        set_col(m, nm, [kw['data']] * (n * s), 0)
        if nm == 'tag':
            m.aligned = False
    if not exists:
        S.struct_seen = True


def op_remove_property(S, op, a, b):
    pa, m = S.real[a], S.model[a]
    if op.get('missing'):
        # a name that is not a property: nothing may change
        S.variant = 'missing'
        S.call(pa.remove_property, 'no_such_prop')
        S.labels.add('remove_property_missing')
        return
    cand = m.names(skip=PROTECTED)
    if not cand:
        raise Skip()
    if op.get('strided'):
        cand = [p for p in cand if m.props[p][1] > 1] or cand
    p = cand[int(op.get('p', 0)) % len(cand)]
    s = m.props[p][1]
    S.variant = 'stride>1' if s > 1 else 'stride1'
    S.call(pa.remove_property, p)
    del m.props[p]
    for r in m.recs:
        del r[p]
    if p in m.out:
        m.out.remove(p)
    if s > 1:
        m.removed_strided.add(p)
    S.struct_seen = True


def op_add_constant(S, op, a, b):
    pa, m = S.real[a], S.model[a]
    import numpy as np
    nm = CPOOL[int(op.get('name', 0)) % len(CPOOL)]
    data = op.get('data', 0)
    vals = flat(data)
    if isinstance(data, list) and data and isinstance(data[0], list):
        S.labels.add('const_nested')
    if len(vals) > 3:
        S.labels.add('const_long')
    if op.get('nd') and isinstance(data, list):
        data = np.array(data)
    if nm in m.consts:
        S.variant = 'existing'
        try:
            pa.add_constant(nm, data)
        except RuntimeError:
            return
        S.fail('accepted', 'add_constant of an existing constant did not '
               'raise the documented RuntimeError')
    S.variant = 'new'
    S.call(pa.add_constant, nm, data)
    m.consts[nm] = vals


def op_set(S, op, a, b):
    import numpy as np
    pa, m = S.real[a], S.model[a]
    n = len(m.recs)
    chosen = subset(m.names(skip=('uid',)), op.get('mask', 1))[:4]
    data = dict((p, prop_vals(S, m, p, op.get('salt', 0), n))
                for p in chosen)
    cdata = {}
    if op.get('const') and m.consts:
        c = sorted(m.consts)[0]
        cdata[c] = [float((op.get('salt', 0) + i) % 11)
                    for i in range(len(m.consts[c]))]
    if not data and not cdata:
        raise Skip()
    attr = bool(op.get('attr'))
    S.variant = 'attr' if attr else 'set'
    allv = dict(data)
    allv.update(cdata)
    if attr:
        for p, v in allv.items():
            S.call(setattr, pa, p, np.array(v))
    else:
        S.call(pa.set, **dict((p, list(v)) for p, v in allv.items()))
    for p, v in data.items():
        set_col(m, p, v, 0)
    for c, v in cdata.items():
        m.consts[c] = list(v)
    if 'tag' in data and n:
        m.aligned = False


def op_set_tag(S, op, a, b):
    pa, m = S.real[a], S.model[a]
    idx = uniq_mod(op.get('idx'), len(m.recs))
    tag = int(op.get('tag', 0)) % 3
    S.variant = ''
    S.call(pa.set_tag, tag, as_indices('LongArray', idx))
    for i in idx:
        m.recs[i]['tag'] = (tag,)
    if idx:
        m.aligned = False


def op_write_tag_align(S, op, a, b):
    pa, m = S.real[a], S.model[a]
    tags = [int(t) % 3 for t in (op.get('tags') or [1])]
    if op.get('real_view') and m.aligned:
        S.variant = 'pa.tag'
        view = S.call(getattr, pa, 'tag')
        lim = m.nlocal()
        if len(view) != lim:
            S.fail('alignment', 'pa.tag has %d values for %d real particles'
                   % (len(view), lim), what='get_real')
    else:
        S.variant = 'get'
        view = S.call(pa.get, 'tag', only_real_particles=False)
        lim = len(m.recs)
        if len(view) != lim:
            S.fail('length', 'tag array has %d values for %d particles' % (
                len(view), lim), what='stride1')
    idx = uniq_mod(op.get('idx'), lim)
    for j, i in enumerate(idx):
        t = tags[j % len(tags)]
        view[i] = t
        m.recs[i]['tag'] = (t,)
    S.call(pa.align_particles)
    m.aligned = True
    m.exact = False


def op_align_particles(S, op, a, b):
    pa, m = S.real[a], S.model[a]
    S.call(pa.align_particles)
    m.aligned = True
    m.exact = False


def op_empty_clone(S, op, a, b):
    pa, m = S.real[a], S.model[a]
    mask = op.get('mask')
    plist = None if mask is None else subset(m.names(), mask)
    S.variant = 'all' if plist is None else 'props'
    if op.get('pos'):
        res = S.call(pa.empty_clone, None if plist is None else list(plist))
    else:
        res = S.call(pa.empty_clone, props=None if plist is None
                     else list(plist))
    C = clone_model(m, plist)
    check_array(S, None, res, C)
    if op.get('adopt'):
        S.real[1], S.model[1] = res, C
        S.labels.add('adopt_clone')


def op_copy_properties(S, op, a, b):
    if b is None:
        raise Skip()
    D, Sm = S.model[a], S.model[b]
    if not compatible(D, Sm, need_type=True):
        raise Skip()
    nd, ns = len(D.recs), len(Sm.recs)
    mode = op.get('mode', 'all')
    if mode == 'all':
        if nd != ns:
            raise Skip()
        s, e, args = 0, nd, ()
    elif mode == 'start':
        if nd == 0 or ns == 0:
            raise Skip()
        s = max(int(op.get('s', 0)) % nd, nd - ns)
        e, args = nd, (s,)
    else:
        if nd == 0:
            raise Skip()
        s = int(op.get('s', 0)) % nd
        e = s + int(op.get('e', 0)) % (min(ns, nd - s) + 1)
        args = (s, e)
    common = [p for p in Sm.props if p in D.props]
    strided = any(D.props[p][1] > 1 for p in common)
    S.variant = '%s,%s' % (mode, 'strided' if strided else 'stride1')
    S.call(S.real[a].copy_properties, S.real[b], *args)
    S.two()
    for j in range(e - s):
        for p in common:
            D.recs[s + j][p] = Sm.recs[j][p]
    if e > s:
        D.aligned = False


def op_copy_over_properties(S, op, a, b):
    pa, m = S.real[a], S.model[a]
    dbl = [p for p in m.names() if m.props[p][0] == 'double']
    pairs = {}
    for ks, kd in (('src', 'dst'), ('src2', 'dst2'))[:int(op.get('pairs',
                                                               1))]:
        # sources and destinations are kept disjoint: the result does not
        # depend on the order in which the pairs are copied
        free = [p for p in dbl if p not in pairs and
                p not in pairs.values()]
        if not free:
            break
        src = free[int(op.get(ks, 0)) % len(free)]
        dsts = [p for p in free if p != src and
                m.props[p][1] == m.props[src][1]]
        if not dsts:
            continue
        pairs[src] = dsts[int(op.get(kd, 0)) % len(dsts)]
    if not pairs:
        raise Skip()
    S.variant = 'stride>1' if any(m.props[p][1] > 1 for p in pairs) \
        else 'stride1'
    if len(pairs) > 1:
        S.labels.add('copy_over_two_pairs')
    S.call(pa.copy_over_properties, dict(pairs))
    for r in m.recs:
        for src, dst in pairs.items():
            r[dst] = r[src]


def op_set_to_zero(S, op, a, b):
    pa, m = S.real[a], S.model[a]
    dbl = [p for p in m.names() if m.props[p][0] == 'double']
    chosen = subset(dbl, op.get('mask', 0))
    S.variant = 'strided' if any(m.props[p][1] > 1 for p in chosen) \
        else 'stride1'
    S.call(pa.set_to_zero, list(chosen))
    for p in chosen:
        z = (0.0,) * m.props[p][1]
        for r in m.recs:
            r[p] = z


def op_pickle(S, op, a, b):
    import copy
    pa, m = S.real[a], S.model[a]
    how = op.get('how', 'pickle')
    S.variant = how
    if how == 'copy':
        res = S.call(copy.copy, pa)
    elif how == 'deepcopy':
        res = S.call(copy.deepcopy, pa)
    elif how == 'proto0':
        res = S.call(lambda: pickle.loads(pickle.dumps(pa, 0)))
    else:
        res = S.call(lambda: pickle.loads(pickle.dumps(pa)))
    C = copy.deepcopy(m)
    C.out_claim = False
    C.lb = None
    if op.get('keep') and a == 0:
        # the original stays alive next to its copy: a later change of one
        # must not show in the other
        S.real[1], S.model[1] = res, C
        S.labels.add('copy_kept')
        S.labels.add('two_arrays')
    else:
        S.real[a], S.model[a] = res, C
    S.nontrivial = True
    S.labels.add('pickle')
    if how in ('copy', 'deepcopy'):
        S.labels.add('copy_module')


def op_output_arrays(S, op, a, b):
    pa, m = S.real[a], S.model[a]
    chosen = subset(m.names(), op.get('mask', 0))
    if op.get('add'):
        S.variant = 'add'
        S.call(pa.add_output_arrays, list(chosen))
        m.out = sorted(set(m.out) | set(chosen))
    else:
        S.variant = 'set'
        S.call(pa.set_output_arrays, list(chosen))
        m.out = list(chosen)


def op_get_property_arrays(S, op, a, b):
    pa, m = S.real[a], S.model[a]
    al = bool(op.get('all', True))
    real = bool(op.get('real', True))
    S.variant = '%s,%s' % ('all' if al else 'output',
                           'real' if real else 'everything')
    if op.get('pos'):
        S.labels.add('positional')
        d = S.call(pa.get_property_arrays, al, real)
    else:
        d = S.call(pa.get_property_arrays, all=al, only_real=real)
    want = list(m.props) if (al or not m.out) else list(m.out)
    if set(d) != set(want):
        S.fail('return', 'get_property_arrays returned %s, expected %s' % (
            sorted(d), sorted(want)), what='keys')
    if real and not m.aligned:
        return
    num = m.nlocal() if real else len(m.recs)
    for p in want:
        exp = [x for r in m.recs[:num] for x in r[p]]
        got = d[p].tolist()
        if got != exp:
            S.fail('return', 'get_property_arrays()[%r] = %r, expected %r'
                   % (p, got, exp), what='values', expected=exp,
                   observed=got)


def op_ensure_properties(S, op, a, b):
    if b is None:
        raise Skip()
    D, Sm = S.model[a], S.model[b]
    mask = op.get('mask')
    plist = None if mask is None else subset(Sm.names(), mask)
    S.variant = 'all' if not plist else 'props'
    S.call(S.real[a].ensure_properties, S.real[b],
           None if plist is None else list(plist))
    S.two()
    for p in (plist or list(Sm.props)):
        if p not in D.props:
            t, s, d = Sm.props[p]
            D.add_prop(p, t, s, d)
            S.struct_seen = True


def op_dummy_replica(S, op, a, b):
    """utils.get_particles_info + create_dummy_particles: an empty replica
    with the same properties, types, strides, defaults and constants."""
    from pysph.base.utils import get_particles_info, create_dummy_particles
    pa, m = S.real[a], S.model[a]
    src = [(pa, m)]
    if op.get('both') and b is not None and S.model[b].name != m.name:
        # the info is keyed by array name
        src.append((S.real[b], S.model[b]))
        S.labels.add('dummy_two_arrays')
    S.variant = 'one' if len(src) == 1 else 'two'
    info = S.call(get_particles_info, [x[0] for x in src])
    res = S.call(create_dummy_particles, info)
    if len(res) != len(src):
        S.fail('return', 'create_dummy_particles returned %d arrays for %d'
               % (len(res), len(src)))
    first = None
    for (p0, m0), r in zip(src, res):
        C = clone_model(m0, None)
        C.lb = sorted(m0.props) if m0.lb is None else list(m0.lb)
        check_array(S, None, r, C)
        if first is None:
            first = (r, C)
    if op.get('adopt'):
        S.real[1], S.model[1] = first
        S.labels.add('adopt_dummy')


def op_set_pid(S, op, a, b):
    pa, m = S.real[a], S.model[a]
    if 'pid' not in m.props:
        raise Skip()
    v = int(op.get('pid', 0))
    S.call(pa.set_pid, v)
    for r in m.recs:
        r['pid'] = (v,)
    if not S.call(pa.has_array, 'pid') or S.call(pa.has_array, 'nope'):
        S.fail('return', 'has_array is wrong')


def op_clear(S, op, a, b):
    pa, m = S.real[a], S.model[a]
    strided = [p for p in m.props if m.props[p][1] > 1]
    listed = [p for p in m.out if p not in ('tag', 'pid', 'gid')]
    if strided or listed:
        S.labels.add('clear_with_strided_or_listed')
    S.variant = 'n=0' if not m.recs else 'n>0'
    had = len(m.recs)
    S.call(pa.clear)
    tagdef = m.props['tag'][2]
    # documented in clear(): tag, pid, gid remain, without particles; the
    # default tag of the array is kept
    m.props = {'tag': ['int', 1, tagdef], 'pid': ['int', 1, 0],
               'gid': ['unsigned int', 1, UINT_MAX]}
    m.recs = []
    m.out = [p for p in m.out if p in m.props]
    # "all data": whether constants / the output list / the load balancing
    # list count as data is not said - adopted as found
    m.const_claim = False
    m.out_claim = False
    if m.lb is not None:
        m.lb = list(pa.get_lb_props())
    m.aligned = False
    # the harness identity property goes back in at once (as at the start)
    S.call(pa.add_property, 'uid', type='long', default=-1)
    m.props['uid'] = ['long', 1, -1]
    S.struct_seen = True
    if had:
        S.size_change()


def op_get(S, op, a, b):
    """get(*names, only_real_particles=...) and attribute access."""
    pa, m = S.real[a], S.model[a]
    names = m.names()
    if op.get('strided'):
        names = [p for p in names if m.props[p][1] > 1] or names
    chosen = subset(names, op.get('mask', 1))[:3] or names[:1]
    real = bool(op.get('real')) and m.aligned
    num = m.nlocal() if real else len(m.recs)
    want = [[x for r in m.recs[:num] for x in r[p]] for p in chosen]
    if op.get('const') and m.consts:
        c = sorted(m.consts)[int(op.get('mask', 0)) % len(m.consts)]
        chosen = chosen + [c]
        want.append([float(v) for v in m.consts[c]])
    if op.get('attr') and real:
        S.variant = 'attr'
        got = [S.call(getattr, pa, p) for p in chosen]
    else:
        S.variant = 'get,%s,%s' % ('real' if real else 'all',
                                   'one' if len(chosen) == 1 else 'many')
        got = S.call(pa.get, *chosen, only_real_particles=real)
        if len(chosen) == 1:
            got = [got]
        elif not isinstance(got, tuple) or len(got) != len(chosen):
            S.fail('return', 'get%r did not return a tuple of %d arrays'
                   % (tuple(chosen), len(chosen)), what='tuple')
        else:
            S.labels.add('get_multi')
    for p, g, w in zip(chosen, got, want):
        g = [float(v) for v in g.tolist()]
        w = [float(v) for v in w]
        if g != w:
            S.fail('return', '%s of %r (%s particles) = %r, expected %r' % (
                S.variant, p, 'real' if real else 'all', g, w),
                what='strided' if m.props.get(p, [0, 1])[1] > 1
                else 'stride1', expected=w, observed=g)
        if real and p in m.props and m.props[p][1] > 1:
            S.labels.add('get_strided_real')
    # get_carray serves properties and constants alike
    for p in chosen:
        ca = S.call(pa.get_carray, p)
        if ca is not (pa.properties.get(p) if p in m.props
                      else pa.constants.get(p)):
            S.fail('return', 'get_carray(%r) is not the stored array' % p,
                   what='get_carray')


def op_update_min_max(S, op, a, b):
    pa, m = S.real[a], S.model[a]
    mask = op.get('mask')
    plist = None if mask is None else subset(m.names(), mask)
    S.variant = 'all' if not plist else 'props'
    if plist is None:
        S.call(pa.update_min_max)
    else:
        S.call(pa.update_min_max, list(plist))
    if not m.recs:
        return          # minimum / maximum of nothing: no claim
    for p in (plist or m.names()):
        vals = [float(x) for r in m.recs for x in r[p]]
        ca = pa.properties[p]
        got = (float(ca.minimum), float(ca.maximum))
        if got != (min(vals), max(vals)):
            S.fail('return', 'after update_min_max %r has (min, max) = %r, '
                   'its values span %r' % (p, got, (min(vals), max(vals))),
                   what='strided' if m.props[p][1] > 1 else 'stride1',
                   expected=[min(vals), max(vals)], observed=list(got))


def op_set_name(S, op, a, b):
    pa, m = S.real[a], S.model[a]
    nm = NAMES[int(op.get('name', 0)) % len(NAMES)]
    S.call(pa.set_name, nm)
    m.name = nm
    S.labels.add('renamed')


def op_set_num_real(S, op, a, b):
    pa, m = S.real[a], S.model[a]
    v = int(op.get('v', 0)) % (len(m.recs) + 1)
    S.call(pa.set_num_real_particles, v)
    if pa.num_real_particles != v or pa.get_number_of_particles(True) != v:
        S.fail('return', 'set_num_real_particles(%d) gives %d' % (
            v, pa.num_real_particles))
    if len(S.call(pa.get, 'tag')) != v:
        S.fail('return', 'get() returns %d values for %d real particles' % (
            len(pa.get('tag')), v), what='get_real')
    # the count now is what the caller said, not what the tags say
    m.aligned = False


def op_lb_props(S, op, a, b):
    pa, m = S.real[a], S.model[a]
    mask = op.get('mask')
    if mask is None:
        raise Skip()    # checked after every operation in check_array
    plist = subset(m.names(), mask)
    S.call(pa.set_lb_props, list(plist))
    m.lb = list(plist)


DISPATCH = dict((n, globals()['op_' + n]) for n in OPS)


# ------------------------------------------------------------------ driver
def check(case):
    S = State()
    fails = []
    try:
        specs = list(case.get('arrays') or [{}])[:2]
        for slot, spec in enumerate(specs):
            S.op = 'init'
            S.variant = spec.get('via', 'ctor')
            build(S, slot, spec)
        if len(specs) == 2:
            S.labels.add('two_arrays')
        check_all(S)
        for op in case.get('ops') or []:
            name = op.get('op')
            if name not in DISPATCH:
                continue
            a = int(op.get('a', 0)) % 2
            if S.real[a] is None:
                a = 0
            b = 1 - a if S.real[1 - a] is not None else None
            S.op = name
            S.variant = ''
            try:
                DISPATCH[name](S, op, a, b)
            except Skip:
                S.labels.add('skipped_op')
                continue
            S.labels.add('op:' + name)
            check_all(S)
    except Fail as f:
        fails.append(f.failure)
    return fails, sorted(S.labels), S.nontrivial


def execute(case):
    fails, labels, nt = check(case)
    return Outcome(fails, labels, nt)


def plan(ctx):
    quick = ctx['tier'] == 'quick'
    total = 1280 if quick else 30000
    k = 16
    fams = sorted(f for f in FAMILY if f != 'gpa')
    return [dict(name='seq-%02d' % i, max_examples=(total + k - 1) // k,
                 max_ops=30 if quick else 60, component='ParticleArray',
                 family=fams[i % len(fams)])
            for i in range(k)]


def run_shard(spec, ctx):
    stats = Stats()
    search(case_strategy(spec['max_ops'], spec.get('family')), execute,
           derive_seed(ctx.seed, 'C06', spec['name']),
           spec['max_examples'], stats, shrink=True, journal=ctx.journal)
    return stats.result()


def run_case(case, component, ctx):
    fails, _, _ = check(case)
    return [f.as_dict(case) for f in fails]
