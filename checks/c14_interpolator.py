"""C14 - interpolation of particle data obeys its defining formulas.

Generated source particle sets (1-3 arrays, dims 1-3, variable h, m, rho,
a random field, a constant field, a linear field and a field only the first
array has) are interpolated with pysph.tools.interpolator.Interpolator onto
explicit points or automatic grids, optionally in a periodic domain, and then
driven through a history of set_interpolation_points / set_domain /
update_particle_arrays / move + update() / changed data + update().  After
the construction and after every step every field is interpolated and
compared with a numpy/Python evaluation of the method's defining sums that
uses the *Python* kernel class over all sources (and periodic images) in the
kernel support.

One JIT compile per (method, kernel, number of source arrays): the array
names and property sets are fixed and the counter that names anonymous groups
is reset before every construction, so every case of a shard re-uses one
generated module.
"""
import math

from hypothesis import strategies as st

from vlib.hyp import Failure, Outcome, Stats, search, derive_seed

RULE = ('case = (method, kernel, dim, 1-3 source arrays with 5-60 particles '
        'on a scaled integer lattice, per-particle h/m/rho, fields f (random),'
        ' c (constant), lin (linear in position), g (first array only), an '
        'optional periodic DomainManager, initial targets = explicit points '
        '(copies of source positions, lattice points inside, points far '
        'outside; flat or shaped; trailing coordinates omitted or not) or the '
        'automatic num_points grid, then 0-4 steps drawn from '
        'set_interpolation_points / set_domain(bounds, shape) / '
        'update_particle_arrays(new arrays, one possibly empty) / move '
        'particles + update() / new field data + update() / h scaled in '
        'place + update() / particles removed from and added to one array in '
        'place (down to an empty array) + update()); f is a double, float, '
        'int or long property, g lives on a drawn array or on none, targets '
        'are ndarrays or nested lists, in sph/shepard shards a third of the '
        'cases pass the other method\'s equation as equations=; after '
        'construction and each step all '
        'fields (order1: all components) are interpolated and compared. '
        "In 'ev-' shards the same shipped equations are driven through "
        'SPHEvaluator (evaluate with default, positional and keyword t/dt '
        'recorded by a time-stamp equation / update / update_particle_arrays,'
        ' nnps_factory LinkedList, ZOrder, Octree or BoxSort, backend None, '
        "'' or 'cython') onto "
        'a caller-made target array whose h differs from target to target. '
        'Non-trivial = some compared target has >= 2 contributing sources '
        'that come from >= 2 arrays or have unequal m/rho; distinct by case '
        'hash.')
ASSUMPTIONS = [
    "The equation classes carry no formula docstrings; the defining formula "
    "of each method is taken from the loop bodies of the equations "
    "Interpolator._compile_acceleration_eval selects, with the pair symbols "
    "as documented in docs/source/design/equations.rst (HIJ=(h_i+h_j)/2, "
    "WIJ=W(x_ij,HIJ), WI=W(x_ij,h_i), WJ=W(x_ij,h_j), i = target, j = "
    "source): shepard (InterpolateFunction: 'd_prop += WIJ*s_temp_prop; "
    "d_number_density += WIJ; if d_number_density > 1e-12: d_prop /= "
    "d_number_density') = sum_j W_ij f_j / sum_j W_ij; sph (InterpolateSPH: "
    "'d_prop += s_m/s_rho*WIJ*s_temp_prop') = sum_j m_j/rho_j f_j W_ij; "
    "splash (SPLASHInterpolateProperty: '(s_m/s_rho)*WI*s_temp_prop') = "
    "sum_j m_j/rho_j f_j W(x_ij, h_target); splash_norm "
    "(SPLASHInterpolatePropertyNormalized: 'common = (s_m/s_rho)*WJ') = "
    "sum_j V_j f_j W(x_ij,h_j) / sum_j V_j W(x_ij,h_j) (divided when the "
    "denominator > 1e-12); order1 (SPHFirstOrderApproximation docstring: "
    "'Ax=b is solved where A := moment (Moment matrix) and b := p_sph "
    "(Property calculated using basic SPH)'): A and b as accumulated by "
    "SPHFirstOrderApproximationPreStep / SPHFirstOrderApproximation.loop "
    "with V_j = m_j/rho_j, the leading (dim+1)x(dim+1) block, component 0 = "
    "value, 1..dim = gradient.",
    "order1 first replaces rho of all source arrays by the summation "
    "density sum_k m_k W_jk over all source arrays (first group of the "
    "shipped equations, SummationDensity docstring 'rho_a = sum_b m_b "
    "W_ab'); the oracle uses that rho for V_j.",
    "The smoothing length of the targets is not documented; the oracle "
    "reads it back from Interpolator.pa.h and separately requires it to be "
    "the maximum h over the real particles of the source arrays at the last "
    "set_interpolation_points/set_domain (Interpolator._get_max_h_in_arrays)."
    "  All source particles (also non-real ones, as in "
    "test_should_work_with_ghost_particles) contribute.",
    "a property an array lacks counts as 0 for that array "
    "(Interpolator.interpolate: 'data = 0.0', "
    "test_should_work_when_arrays_have_different_props)",
    "tolerance 1e-10 x (sum of |terms| / |denominator|); order1: 1e-10 x "
    "|A^-1| |b|_terms + 1e-14 x cond(A) x |x|, compared only where "
    "numpy.linalg.cond(A) < 1e6 and the smallest leading pivot is far above "
    "the literal 1e-12 of gj_solve; targets with a pair within 1e-9 "
    "(relative) of a kernel cut-off, or with a Shepard/splash_norm "
    "denominator in (0, 1e-11) or negative (SuperGaussian), are not "
    "compared (literal tolerances are treated as documented)",
    "min <= Shepard value <= max of contributing values is claimed only "
    "where all contributing kernel values are >= 0",
    "periodic domains are at least 2.2 kernel supports wide, targets and "
    "sources lie within 0.3 periods of the domain (one box wrap), "
    "n_layers default; the linear-field claim is made only without a "
    "periodic domain; after changing particle data the harness calls "
    "update() as the docstring of update() asks",
    "clouds (also after a move or a replacement of the arrays) have "
    "non-zero extent along each of the first dim axes and zero "
    "extent along the others (Interpolator derives its dimension from the "
    "bounding box; an all-coincident particle set in dim < 3 is the "
    "LinkedListNNPS heap overflow recorded under C01); automatic-grid cases "
    "use a cloud anchored at opposite corners of the lattice and "
    "num_points >= 5 so that every grid dimension has >= 2 points",
    "in 'ev-' shards the harness builds the destination array as "
    "Interpolator._create_particle_array does (but with per-target h <= the "
    "largest source h), lists the equations as "
    "Interpolator._compile_acceleration_eval does and fills temp_prop as "
    "Interpolator.interpolate does, then calls SPHEvaluator.evaluate()",
    "the module-level counter pysph.sph.equation.group_counter that names "
    "anonymous groups is reset by the harness before each construction so "
    "that the generated source (and its JIT cache key) is the same for "
    "every case",
    "update_particle_arrays receives the arrays in the order of "
    "construction (the compiled code addresses the neighbour structure by "
    "position; a permuted list silently gives NaN and is not generated)",
    "strided properties cannot be interpolated (temp_prop has one value per "
    "particle) and are not generated",
]
ESSENTIAL_LABELS = {'all': [
    'dim1', 'dim2', 'dim3', 'narr>=2', 't:multi_array', 't:unequal_vol',
    't:coincident', 't:no_source', 'targets:points', 'targets:grid',
    'periodic', 'periodic:image_contributes', 'op:points', 'op:domain',
    'op:arrays', 'op:move', 'op:data', 'order1:wellcond', 'order1:3d',
    'linear_checked', 'constant_checked', 'missing_prop_checked',
    'bounds_checked', 'variable_h', 'nonreal_sources', 'mode:evaluator',
    'variable_target_h',
    # coverage audit
    'custom_equations', 'ftype:float', 'ftype:int', 'ftype:long',
    'g_missing_on_first_array', 'g_on_no_array', 'empty_source_array',
    'op:resize', 'resize:removed', 'resize:added', 'resize:no_real_left',
    'list_targets', 'targets_3d_shape', 'ev:t_dt_passed', 'ev:t_dt_default', 'ev:nnps_factory',
    'ev:backend_given', 'points_with_empty_array']}
SHARD_TIMEOUT = {'quick': 1500, 'thorough': 8 * 3600}

METHODS = ['shepard', 'sph', 'order1', 'splash', 'splash_norm']
KERNELS = ['CubicSpline', 'Gaussian', 'QuinticSpline', 'WendlandQuintic',
           'SuperGaussian', 'WendlandQuinticC4', 'WendlandQuinticC6',
           'WendlandQuinticC2_1D', 'WendlandQuinticC4_1D',
           'WendlandQuinticC6_1D']
KDIMS = {'WendlandQuintic': [2, 3], 'WendlandQuinticC4': [2, 3],
         'WendlandQuinticC6': [2, 3], 'WendlandQuinticC2_1D': [1],
         'WendlandQuinticC4_1D': [1], 'WendlandQuinticC6_1D': [1]}
RSCALE = {'Gaussian': 3.0, 'SuperGaussian': 3.0, 'QuinticSpline': 3.0}
NAMES = ['s0', 's1', 's2']
FIELDS = ['f', 'c', 'lin', 'g']
HFACT = [0.73, 0.87, 1.0, 1.13, 1.29]
NLAT = 64


# ------------------------------------------------------------- strategies
def _coords(draw, n, dim, lo, hi):
    out = []
    for a in range(3):
        if a < dim:
            out.append(draw(st.lists(st.integers(lo, hi), min_size=n,
                                     max_size=n)))
        else:
            out.append([0] * n)
    return out


def _spread(coords_per_array, nreal, dim, anchored):
    """Make the *real* particles of the first array (and hence the bounding
    box the Interpolator derives its dimension from) have non-zero extent
    along each axis < dim; anchored clouds span the whole lattice.
    Deterministic repair of drawn integers; particles 0 and 1 of the first
    array are always real."""
    c0 = coords_per_array[0]
    for a in range(dim):
        if anchored:
            c0[a][0] = 0
            c0[a][1] = NLAT
        else:
            allv = [v for c, nr in zip(coords_per_array, nreal)
                    for v in c[a][:nr]]
            if max(allv) == min(allv):
                c0[a][0] = 0 if allv[0] != 0 else 1
                c0[a][1] = NLAT


def _fval(k, ftype):
    """Value of the field f for the drawn integer k: quarters for the
    floating types, the integer itself for integer-typed properties."""
    return float(k) if ftype in ('int', 'long') else k / 4.0


@st.composite
def arrays_strategy(draw, narr, dim, L, rs, periodic, anchored=False,
                    ftype='double', gowner=0, allow_empty=False):
    nmax = {1: 40, 2: 24, 3: 18}[narr]
    ns = [draw(st.integers(5 if i == 0 else 1, nmax)) for i in range(narr)]
    if allow_empty and narr > 1 and draw(st.integers(0, 3)) == 0:
        # an array without particles next to the others (e.g. an outlet
        # that holds nothing at this output time)
        ns[draw(st.integers(1, narr - 1))] = 0
    ntot = sum(ns)
    lo, hi = (-12, NLAT + 12) if periodic else (0, NLAT)
    if anchored:
        lo, hi = 0, NLAT
    nrems = []
    for n in ns:
        nrem = 0
        if n >= 4 and draw(st.integers(0, 3)) == 0:
            nrem = draw(st.integers(1, 2))
        nrems.append(nrem)
    coords = [_coords(draw, n, dim, lo, hi) for n in ns]
    _spread(coords, [n - r for n, r in zip(ns, nrems)], dim, anchored)
    delta = L / (ntot ** (1.0 / dim))
    h0 = draw(st.sampled_from([0.8, 1.1, 1.5])) * delta
    if periodic:
        h0 = min(h0, L / (2.2 * rs * 1.3))
    hvar = draw(st.sampled_from([True, True, True, False]))
    volvar = draw(st.sampled_from([True, True, True, True, False]))
    arrays = []
    for i, n in enumerate(ns):
        nrem = nrems[i]
        if hvar:
            hs = [h0 * HFACT[k] for k in draw(st.lists(
                st.integers(0, 4), min_size=n, max_size=n))]
        else:
            hs = [h0] * n
        if volvar:
            ms = [delta ** dim * k / 8.0 for k in draw(st.lists(
                st.integers(4, 16), min_size=n, max_size=n))]
            rhos = [k / 8.0 for k in draw(st.lists(
                st.integers(4, 16), min_size=n, max_size=n))]
        else:
            ms = [delta ** dim] * n
            rhos = [1.0] * n
        a = dict(n=n, nrem=nrem,
                 # the non-real tail is Remote (1) or, without a periodic
                 # domain (which would discard them), Ghost (2)
                 remtag=1 if periodic or not nrem else draw(
                     st.sampled_from([1, 2])),
                 x=[k * L / NLAT for k in coords[i][0]],
                 y=[k * L / NLAT for k in coords[i][1]],
                 z=[k * L / NLAT for k in coords[i][2]],
                 h=hs, m=ms, rho=rhos,
                 f=[_fval(k, ftype) for k in draw(st.lists(
                     st.integers(-16, 16), min_size=n, max_size=n))])
        if i == gowner:
            a['g'] = [k / 4.0 for k in draw(st.lists(
                st.integers(-16, 16), min_size=n, max_size=n))]
        arrays.append(a)
    return arrays


@st.composite
def points_strategy(draw, arrays, dim, L, periodic, evaluator=False):
    kind = draw(st.sampled_from(['flat', 'flat', 'row', 'col', '2d', '3d']))
    if evaluator:
        kind = 'flat'
    if kind == '2d':
        a, b = draw(st.sampled_from([2, 3])), draw(st.integers(1, 4))
        shape, n = [a, b], a * b
    elif kind == '3d':
        shape = [draw(st.sampled_from([2, 1, 3])) for _ in range(3)]
        n = shape[0] * shape[1] * shape[2]
    else:
        n = draw(st.integers(1, 10))
        shape = {'flat': [n], 'row': [1, n], 'col': [n, 1]}[kind]
    pts = []
    kinds = ['src', 'src', 'in', 'in', 'in']
    if not periodic:
        kinds.append('out')
    for _ in range(n):
        k = draw(st.sampled_from(kinds))
        if k == 'src':
            ai = draw(st.sampled_from([i for i, a in enumerate(arrays)
                                       if a['n'] > 0]))
            j = draw(st.integers(0, arrays[ai]['n'] - 1))
            p = [arrays[ai]['x'][j], arrays[ai]['y'][j], arrays[ai]['z'][j]]
        else:
            p = [draw(st.integers(0, 2 * NLAT)) * L / (2 * NLAT)
                 if a < dim else 0.0 for a in range(3)]
            if k == 'out':
                ax = draw(st.integers(0, dim - 1))
                p[ax] += draw(st.sampled_from([6.0, -6.0, 9.0])) * L
        pts.append(p)
    spec = dict(kind='points', pts=pts, shape=shape,
                omit=draw(st.booleans()),
                # (nested) Python lists instead of ndarrays
                as_list=draw(st.integers(0, 3)) == 0)
    if evaluator:
        # smoothing length of each target as a fraction of the largest
        # source h (<= 1 keeps periodic domains wide enough)
        spec['hf'] = draw(st.lists(st.sampled_from([0.55, 0.8, 1.0]),
                                   min_size=n, max_size=n))
    return spec


@st.composite
def domain_strategy(draw, dim, L):
    bounds, shape = [], []
    for a in range(3):
        if a < dim:
            n = draw(st.integers(1, 4))
            lo = draw(st.integers(0, NLAT - 8))
            hi = draw(st.integers(lo + 4, NLAT))
            bounds += [lo * L / NLAT, hi * L / NLAT]
            shape.append(n)
        else:
            bounds += [0.0, 0.0]
            shape.append(1)
    return dict(kind='domain', bounds=bounds, shape=shape)


AKEYS = ('x', 'y', 'z', 'h', 'm', 'rho', 'f', 'g')


def resize_map(a, op):
    """Old model index -> new model index (None: removed) and the number of
    real particles kept, for op = dict(remove=[model indices], add={...}):
    the kept real particles, then the added (real) ones, then the kept
    non-real tail."""
    n = a['n']
    nreal = n - a['nrem']
    rem = set(op['remove'])
    nadd = len(op['add']['x'])
    mp = {}
    k = 0
    for i in range(nreal):
        if i in rem:
            mp[i] = None
        else:
            mp[i] = k
            k += 1
    nkept = k
    k += nadd
    for i in range(nreal, n):
        if i in rem:
            mp[i] = None
        else:
            mp[i] = k
            k += 1
    return mp, nkept


def apply_resize(a, op):
    """The array description after the in-place removal / addition."""
    mp, nkept = resize_map(a, op)
    n = a['n']
    nreal = n - a['nrem']
    out = dict(a)
    for k in AKEYS:
        if k not in a:
            continue
        real = [a[k][i] for i in range(nreal) if mp[i] is not None]
        tail = [a[k][i] for i in range(nreal, n) if mp[i] is not None]
        out[k] = real + list(op['add'][k]) + tail
    out['nrem'] = len([i for i in range(nreal, n) if mp[i] is not None])
    out['n'] = len(out['x'])
    return out


def _extent_ok(arrays, dim):
    for ax in 'xyz'[:dim]:
        v = [c for a in arrays for c in a[ax][:a['n'] - a['nrem']]]
        if not v or max(v) == min(v):
            return False
    return True


def _all_have_real(arrays):
    return all(a['n'] - a['nrem'] > 0 for a in arrays)


@st.composite
def resize_strategy(draw, cur, dim, L, periodic, ftype):
    ai = draw(st.integers(0, len(cur) - 1))
    a = cur[ai]
    n = a['n']
    mode = draw(st.sampled_from(['some', 'some', 'grow', 'all']))
    remove = []
    nadd = draw(st.integers(0, 4))
    if mode == 'all' and ai > 0:
        remove, nadd = list(range(n)), 0
    elif mode == 'grow' or n <= (2 if ai == 0 else 0):
        nadd = draw(st.integers(1, 6))
    else:
        # particles 0 and 1 of the first array stay (they anchor the extent
        # of the cloud in later moves)
        remove = sorted(set(draw(st.lists(
            st.integers(2 if ai == 0 else 0, n - 1), min_size=1,
            max_size=6))))
    lo, hi = (-12, NLAT + 12) if periodic else (0, NLAT)
    c = _coords(draw, nadd, dim, lo, hi)
    pool = [(h, m, r) for b in cur for h, m, r in zip(b['h'], b['m'],
                                                      b['rho'])]
    pick = [pool[draw(st.integers(0, len(pool) - 1))] for _ in range(nadd)]
    add = dict(x=[v * L / NLAT for v in c[0]], y=[v * L / NLAT for v in c[1]],
               z=[v * L / NLAT for v in c[2]], h=[t[0] for t in pick],
               m=[t[1] for t in pick], rho=[t[2] for t in pick],
               f=[_fval(k, ftype) for k in draw(st.lists(
                   st.integers(-16, 16), min_size=nadd, max_size=nadd))])
    if 'g' in a:
        add['g'] = [k / 4.0 for k in draw(st.lists(
            st.integers(-16, 16), min_size=nadd, max_size=nadd))]
    op = dict(op='resize', ai=ai, remove=remove, add=add)
    new = list(cur)
    new[ai] = apply_resize(a, op)
    if not _extent_ok(new, dim):
        # the removal would flatten the cloud: add only
        op['remove'] = []
        new[ai] = apply_resize(a, op)
    return op, new


@st.composite
def case_strategy(draw, method, kernel, narr, mode='interpolator',
                  custom=None, ftype='double', gowner=0):
    # ftype (type of the property f) and gowner (the array that carries the
    # field g; -1: no array has it) are fixed per shard: the generated array
    # wrappers list every property with its type, so each combination is a
    # compile of its own
    ev = mode == 'evaluator'
    dim = draw(st.sampled_from(KDIMS.get(kernel, [1, 2, 3])))
    rs = RSCALE.get(kernel, 2.0)
    L = draw(st.sampled_from([0.5, 1.0, 3.0, 12.0]))
    periodic = None
    if draw(st.integers(0, 3)) == 0:
        per = [0, 0, 0]
        per[draw(st.integers(0, dim - 1))] = 1
        for a in range(dim):
            if draw(st.booleans()):
                per[a] = 1
        periodic = dict(lo=[0.0] * 3, hi=[L] * 3, per=per)
    grid = draw(st.integers(0, 3)) == 0 and not ev
    # an automatic grid needs an extent; otherwise one of several source
    # arrays may be without real particles from the start
    arrays = draw(arrays_strategy(narr, dim, L, rs, periodic is not None,
                                  anchored=grid, ftype=ftype, gowner=gowner,
                                  allow_empty=ev or not grid))
    if grid:
        init = dict(kind='grid', num_points=draw(st.integers(5, 60)))
    else:
        init = draw(points_strategy(arrays, dim, L, periodic is not None,
                                    ev))
    lin = [draw(st.integers(-8, 8)) / 4.0 for _ in range(4)]
    for a in range(dim, 3):
        lin[1 + a] = 0.0
    ops = []
    cur = arrays
    excluded = []
    for _ in range(draw(st.integers(0, 4))):
        k = draw(st.sampled_from(['points', 'points', 'domain', 'arrays',
                                  'move', 'data', 'hgrow', 'resize']))
        if ev and k == 'domain':
            k = 'arrays'
        if not ev and k in ('points', 'domain') and \
                not _all_have_real(cur):
            excluded.append('_points_with_empty_array')
        if k == 'points':
            ops.append(dict(op='points', targets=draw(points_strategy(
                cur, dim, L, periodic is not None, ev))))
        elif k == 'domain':
            ops.append(dict(op='domain', targets=draw(domain_strategy(
                dim, L))))
        elif k == 'arrays':
            cur = draw(arrays_strategy(narr, dim, L, rs,
                                       periodic is not None, ftype=ftype,
                                       gowner=gowner, allow_empty=True))
            ops.append(dict(op='arrays', arrays=cur))
        elif k == 'resize':
            op, cur = draw(resize_strategy(cur, dim, L, periodic is not None,
                                           ftype))
            ops.append(op)
        elif k == 'move':
            lo, hi = (-12, NLAT + 12) if periodic else (0, NLAT)
            pos = []
            cs = [_coords(draw, a['n'], dim, lo, hi) for a in cur]
            # keep a non-zero extent (an all-coincident set of particles in
            # dim < 3 is C01's LinkedListNNPS heap overflow)
            _spread(cs, [a['n'] - a['nrem'] for a in cur], dim, False)
            for a, c in zip(cur, cs):
                pos.append(dict(x=[v * L / NLAT for v in c[0]],
                                y=[v * L / NLAT for v in c[1]],
                                z=[v * L / NLAT for v in c[2]]))
            cur = [dict(a, **p) for a, p in zip(cur, pos)]
            ops.append(dict(op='move', pos=pos,
                            update_domain=bool(periodic) or
                            draw(st.booleans())))
        elif k == 'hgrow':
            # smoothing lengths change in place (adaptive h), then update()
            fac = draw(st.sampled_from([1.5, 2.0, 3.0, 0.5]))
            cur = [dict(a, h=[v * fac for v in a['h']]) for a in cur]
            ops.append(dict(op='hgrow', factor=fac))
        else:
            fs = [[_fval(v, ftype) for v in draw(st.lists(
                st.integers(-16, 16), min_size=a['n'], max_size=a['n']))]
                for a in cur]
            cur = [dict(a, f=f) for a, f in zip(cur, fs)]
            ops.append(dict(op='data', f=fs))
    case = dict(method=method, kernel=kernel, dim=dim, L=L, arrays=arrays,
                mode=mode, default_kernel=(kernel == 'Gaussian' and
                                           draw(st.booleans())),
                c=draw(st.sampled_from([2.5, -1.75, 1.0, 0.0])), lin=lin,
                periodic=periodic, init=init, ops=ops,
                order=draw(st.permutations(FIELDS)),
                ftype=ftype, gowner=gowner, excluded=excluded)
    if custom and draw(st.integers(0, 2)) == 0:
        # equations= handed to the constructor: they, not `method`, define
        # the result
        case['custom_eq'] = custom
    if ev:
        case['ev'] = dict(
            tdt=draw(st.sampled_from([None, [0.0, 0.5], [1.5, 0.25],
                                      [-2.0, 0.125]])),
            factory=draw(st.sampled_from([None, None, 'ZOrderNNPS',
                                          'OctreeNNPS', 'BoxSortNNPS'])),
            backend=draw(st.sampled_from([None, 'cython', ''])))
    return case


# ------------------------------------------------------------------ model
class Model(object):
    """The harness's own record of the current source particles."""

    def __init__(self, case, arrays):
        import numpy as np
        self.case = case
        self.arr = []
        for i, a in enumerate(arrays):
            n = a['n']
            d = dict((k, np.asarray(a[k], dtype=float))
                     for k in ('x', 'y', 'z', 'h', 'm', 'rho', 'f'))
            d['has_g'] = 'g' in a
            d['g'] = np.asarray(a['g'], dtype=float) if 'g' in a \
                else np.zeros(n)
            d['c'] = np.full(n, float(case['c']))
            tag = np.zeros(n, dtype=int)
            if a['nrem']:
                tag[n - a['nrem']:] = a.get('remtag', 1)
            d['tag'] = tag
            self.arr.append(d)
        self.set_lin()

    def set_lin(self):
        a0, bx, by, bz = self.case['lin']
        for d in self.arr:
            d['lin'] = a0 + bx * d['x'] + by * d['y'] + bz * d['z']

    def hmax_real(self):
        return max(float(d['h'][d['tag'] == 0].max()) for d in self.arr
                   if (d['tag'] == 0).any())

    def as_arrays(self):
        """The current particles as array descriptions (as the strategies
        draw them)."""
        out = []
        for d in self.arr:
            nrem = int((d['tag'] != 0).sum())
            a = dict(n=len(d['x']), nrem=nrem,
                     remtag=int(d['tag'][-1]) if nrem else 1)
            for k in AKEYS:
                if k != 'g' or d['has_g']:
                    a[k] = d[k].tolist()
            out.append(a)
        return out

    def make_arrays(self):
        import numpy as np
        from pysph.base.utils import get_particle_array
        out = []
        for i, d in enumerate(self.arr):
            n = len(d['x'])
            props = dict((k, d[k].copy()) for k in
                         ('x', 'y', 'z', 'h', 'm', 'rho', 'c', 'lin'))
            if d['has_g']:
                props['g'] = d['g'].copy()
            props['uid'] = np.arange(n, dtype=float)
            pa = get_particle_array(name=NAMES[i], **props)
            ftype = self.case.get('ftype', 'double')
            npt = dict(double=np.float64, float=np.float32, int=np.int32,
                       long=np.int64)[ftype]
            pa.add_property('f', type=ftype, data=d['f'].astype(npt))
            pa.get_carray('tag').get_npy_array()[:] = d['tag']
            pa.align_particles()
            out.append(pa)
        return out

    def push(self, pas, names):
        """Write the model values of `names` into the live arrays (matching
        particles by uid; periodic ghost copies are left to update())."""
        for i, (pa, d) in enumerate(zip(pas, self.arr)):
            uid = pa.get('uid', only_real_particles=False)
            tag = pa.get('tag', only_real_particles=False)
            keep = tag != 2 if self.case['periodic'] else tag >= 0
            idx = uid[keep].astype(int)
            for nm in names:
                if nm == 'g' and not d['has_g']:
                    continue
                arr = pa.get(nm, only_real_particles=False)
                arr[keep] = d[nm][idx]


# ----------------------------------------------------------------- oracle
def _wrap(x, lo, hi):
    import numpy as np
    x = np.array(x, dtype=float)
    Lp = hi - lo
    m = x < lo
    x[m] = x[m] + Lp
    m = x > hi
    x[m] = x[m] - Lp
    return x


class Reference(object):
    """Pair data for the current sources and targets, from the definitions."""

    def __init__(self, case, model, tx, th, kernel, method=None):
        import numpy as np
        self.case = case
        self.K = kernel
        self.dim = case['dim']
        self.method = method or case['method']
        rs = float(kernel.radius_scale)
        self.rs = rs
        per = case['periodic']
        # flat list of base sources
        X = np.concatenate([np.stack([d['x'], d['y'], d['z']], axis=1)
                            for d in model.arr])
        self.H = np.concatenate([d['h'] for d in model.arr])
        self.M = np.concatenate([d['m'] for d in model.arr])
        self.RHO = np.concatenate([d['rho'] for d in model.arr])
        self.AID = np.concatenate([np.full(len(d['x']), i)
                                   for i, d in enumerate(model.arr)])
        self.F = dict((k, np.concatenate([d[k] for d in model.arr]))
                      for k in FIELDS)
        T = np.array(tx, dtype=float).reshape(-1, 3)
        self.wrapped = False
        shifts = [[0.0], [0.0], [0.0]]
        if per:
            for a in range(3):
                if per['per'][a]:
                    lo, hi = per['lo'][a], per['hi'][a]
                    w = _wrap(X[:, a], lo, hi)
                    if (w != X[:, a]).any():
                        self.wrapped = True
                    X[:, a] = w
                    T[:, a] = _wrap(T[:, a], lo, hi)
                    shifts[a] = [0.0, hi - lo, -(hi - lo)]
        self.X = X
        self.T = T
        self.th = np.asarray(th, dtype=float)
        S = len(X)
        img_pos, img_base, img_shifted = [], [], []
        for sx in shifts[0]:
            for sy in shifts[1]:
                for sz in shifts[2]:
                    P = X.copy()
                    P[:, 0] = P[:, 0] + sx
                    P[:, 1] = P[:, 1] + sy
                    P[:, 2] = P[:, 2] + sz
                    img_pos.append(P)
                    img_base.append(np.arange(S))
                    img_shifted.append(np.full(
                        S, bool(sx or sy or sz)))
        self.IP = np.concatenate(img_pos)
        self.IB = np.concatenate(img_base)
        self.IS = np.concatenate(img_shifted)
        self.IH = self.H[self.IB]
        self.band = np.zeros(len(T), dtype=bool)
        self.image_used = False
        if self.method == 'order1':
            self.RHO = self._summation_density()
        self.V = self.M / self.RHO
        self.pairs = [self._pairs_for(self.T[i], float(self.th[i]), i)
                      for i in range(len(T))]

    # -- kernel helpers
    def _cands(self, p, hp):
        import numpy as np
        dx = p[0] - self.IP[:, 0]
        dy = p[1] - self.IP[:, 1]
        dz = p[2] - self.IP[:, 2]
        r2 = dx * dx + dy * dy + dz * dz
        cut = self.rs * np.maximum(hp, self.IH)
        idx = np.nonzero(r2 <= cut * cut * (1 + 1e-8))[0]
        return idx, dx, dy, dz, r2

    def _near_cut(self, r, h):
        q = r / h
        return abs(q - self.rs) <= 1e-9 * self.rs

    def _summation_density(self):
        import numpy as np
        rho = np.zeros(len(self.X))
        self.rho_band = np.zeros(len(self.X), dtype=bool)
        for j in range(len(self.X)):
            hj = float(self.H[j])
            idx, dx, dy, dz, r2 = self._cands(self.X[j], hj)
            terms = []
            for k in idx:
                xij = [float(dx[k]), float(dy[k]), float(dz[k])]
                r = math.sqrt(float(r2[k]))
                hij = 0.5 * (hj + float(self.IH[k]))
                if self._near_cut(r, hij):
                    self.rho_band[j] = True
                terms.append(float(self.M[self.IB[k]]) *
                             self.K.kernel(xij, r, hij))
            rho[j] = math.fsum(terms)
        return rho

    def _pairs_for(self, p, hi, ti):
        """-> list of dict(j, xij, w (the method's kernel value), dw)."""
        idx, dx, dy, dz, r2 = self._cands(p, hi)
        out = []
        m = self.method
        for k in idx:
            xij = [float(dx[k]), float(dy[k]), float(dz[k])]
            r = math.sqrt(float(r2[k]))
            hj = float(self.IH[k])
            hij = 0.5 * (hi + hj)
            if m == 'splash':
                h = hi
            elif m == 'splash_norm':
                h = hj
            else:
                h = hij
            if self._near_cut(r, h):
                self.band[ti] = True
            w = self.K.kernel(xij, r, h)
            dw = None
            if m == 'order1':
                dw = [0.0, 0.0, 0.0]
                self.K.gradient(xij, r, h, dw)
                if self.rho_band[self.IB[k]]:
                    self.band[ti] = True
            if w == 0.0 and (dw is None or dw == [0.0, 0.0, 0.0]):
                continue
            if self.IS[k]:
                self.image_used = True
            out.append(dict(j=int(self.IB[k]), xij=xij, r=r, w=w, dw=dw))
        return out

    # -- expectations; each returns (value|None, tol, info)
    def expect(self, ti, field, comp=0):
        prs = self.pairs[ti]
        f = self.F[field]
        m = self.method
        if m == 'shepard' or m == 'splash_norm':
            if not prs:
                return 0.0, 0.0, dict(exact_zero=True)
            if m == 'shepard':
                ws = [p['w'] for p in prs]
            else:
                ws = [float(self.V[p['j']]) * p['w'] for p in prs]
            den = math.fsum(ws)
            if den < 1e-11:
                return None, 0.0, dict(tiny_den=True)
            num = [w * float(f[p['j']]) for w, p in zip(ws, prs)]
            val = math.fsum(num) / den
            # mixed-sign weights (SuperGaussian) make the quotient
            # ill conditioned by sum|w| / sum w; 1 for the other kernels
            scale = math.fsum(abs(t) for t in num) / den * (
                math.fsum(abs(w) for w in ws) / den)
            return val, 1e-10 * scale + 1e-300, dict(
                nonneg=all(w >= 0 for w in ws),
                contrib=[float(f[p['j']]) for w, p in zip(ws, prs)
                         if w > 0])
        if m in ('sph', 'splash'):
            terms = [float(self.V[p['j']]) * float(f[p['j']]) * p['w']
                     for p in prs]
            if not terms:
                return 0.0, 0.0, dict(exact_zero=True)
            return (math.fsum(terms),
                    1e-10 * math.fsum(abs(t) for t in terms) + 1e-300, {})
        return self._order1(ti, field, comp)

    def moment(self, ti):
        import numpy as np
        A = [[[] for _ in range(4)] for _ in range(4)]
        for p in self.pairs[ti]:
            V = float(self.V[p['j']])
            x, w, dw = p['xij'], p['w'], p['dw']
            A[0][0].append(w * V)
            for l in range(3):
                A[0][1 + l].append(-x[l] * w * V)
            for k in range(3):
                A[1 + k][0].append(dw[k] * V)
                for l in range(3):
                    A[1 + k][1 + l].append(-x[l] * dw[k] * V)
        return np.array([[math.fsum(A[r][c]) for c in range(4)]
                         for r in range(4)])

    def order1_system(self, ti):
        import numpy as np
        cache = getattr(self, '_o1', None)
        if cache is None:
            cache = self._o1 = {}
        if ti in cache:
            return cache[ti]
        n = self.dim + 1
        A = self.moment(ti)[:n, :n]
        ok = False
        cond = float('inf')
        Ainv = None
        if self.pairs[ti] and np.isfinite(A).all():
            with np.errstate(all='ignore'):
                try:
                    cond = float(np.linalg.cond(A))
                except np.linalg.LinAlgError:
                    cond = float('inf')
            if cond < 1e6:
                # pivots of the documented (no row exchange) elimination must
                # stay far from the literal 1e-12 singularity threshold
                U = A.copy()
                pmin = float('inf')
                for c in range(n):
                    pmin = min(pmin, abs(U[c, c]))
                    if abs(U[c, c]) < 1e-9:
                        break
                    for r in range(c + 1, n):
                        U[r, :] -= U[r, c] / U[c, c] * U[c, :]
                if pmin >= 1e-9:
                    ok = True
                    Ainv = np.linalg.inv(A)
        cache[ti] = (A, cond, ok, Ainv)
        return cache[ti]

    def _order1(self, ti, field, comp):
        import numpy as np
        A, cond, ok, Ainv = self.order1_system(ti)
        if not ok:
            return None, 0.0, dict(illcond=True)
        n = self.dim + 1
        f = self.F[field]
        bt = [[] for _ in range(4)]
        for p in self.pairs[ti]:
            V = float(self.V[p['j']])
            pj = float(f[p['j']])
            bt[0].append(pj * p['w'] * V)
            for k in range(3):
                bt[1 + k].append(pj * p['dw'][k] * V)
        b = np.array([math.fsum(t) for t in bt[:n]])
        babs = np.array([math.fsum(abs(v) for v in t) for t in bt[:n]])
        res = np.linalg.solve(A, b)
        tol = 1e-10 * (np.abs(Ainv) @ babs) + \
            1e-14 * cond * float(np.max(np.abs(res))) + 1e-300
        if comp >= n:
            return 0.0, 0.0, dict(beyond_dim=True)
        return float(res[comp]), float(tol[comp]), dict(cond=cond)

    def target_class(self, ti):
        """(n contributing, n arrays, unequal volumes)"""
        prs = [p for p in self.pairs[ti] if p['w'] != 0.0]
        js = sorted(set(p['j'] for p in prs))
        arrs = set(int(self.AID[j]) for j in js)
        vols = set(float(self.M[j] / self.RHO[j]) for j in js)
        return len(js), len(arrs), len(vols) > 1


# -------------------------------------------------------------- execution
def _target_arrays(spec):
    import numpy as np
    pts = np.array(spec['pts'], dtype=float).reshape(-1, 3)
    shape = tuple(spec['shape'])
    return [pts[:, a].reshape(shape).copy() for a in range(3)]


def _expected_points(spec, dim, bounds=None, shape=None):
    """Flat (N,3) expected target positions and the expected result shape."""
    import numpy as np
    if spec['kind'] == 'points':
        pts = np.array(spec['pts'], dtype=float).reshape(-1, 3)
        sq = tuple(s for s in spec['shape'] if s != 1)
        return pts, sq
    b = bounds if bounds is not None else spec['bounds']
    n = shape if shape is not None else spec['shape']
    axes = [np.linspace(b[2 * a], b[2 * a + 1], int(n[a])) if int(n[a]) > 1
            else np.array([b[2 * a]]) for a in range(3)]
    g = np.meshgrid(*axes, indexing='ij')
    pts = np.stack([x.ravel() for x in g], axis=1)
    return pts, tuple(int(s) for s in n if int(s) != 1)


class EvalAdapter(object):
    """The shipped interpolation equations driven through SPHEvaluator onto
    a caller-made destination array whose h varies from target to target;
    offers the part of the Interpolator interface that Run uses."""

    def __init__(self, pas, kernel, domain, method, dim, x, y, z, h,
                 opts=None):
        from pysph.tools.sph_evaluator import SPHEvaluator
        self.method = method
        self.dim = dim
        self.opts = opts
        self.particle_arrays = self._with_temp(pas)
        self.pa = self._dest(x, y, z, h)
        kw = {}
        if opts is not None:
            if opts.get('factory'):
                from pysph.base import nnps as N
                kw['nnps_factory'] = getattr(N, opts['factory'])
            if opts.get('backend') is not None:
                kw['backend'] = opts['backend']
        self.ev = SPHEvaluator(self.particle_arrays + [self.pa],
                               self._equations(), dim=dim, kernel=kernel,
                               domain_manager=domain, **kw)
        self.stamp = None

    @staticmethod
    def _with_temp(pas):
        for a in pas:
            if 'temp_prop' not in a.properties:
                a.add_property('temp_prop')
        return list(pas)

    def _dest(self, x, y, z, h):
        import numpy as np
        from pysph.base.utils import get_particle_array
        self.x, self.y, self.z = [np.array(v, dtype=float) for v in (x, y, z)]
        pa = get_particle_array(name='interpolate', x=self.x.copy(),
                                y=self.y.copy(), z=self.z.copy(),
                                h=np.array(h, dtype=float),
                                number_density=np.zeros(len(self.x)))
        if self.method == 'order1':
            pa.add_property('moment', stride=16)
            pa.add_property('p_sph', stride=4)
            pa.add_property('prop', stride=4)
        else:
            pa.add_property('prop')
            if self.method == 'splash_norm':
                pa.add_property('unity')
        if self.opts is not None:
            pa.add_property('tstamp')
            pa.tstamp[:] = -777.0
        return pa

    def _equations(self):
        eqs = self._method_equations()
        if self.opts is not None:
            from pysph.sph.equation import Group
            from checks.c14_eqs import C14TimeStamp
            ts = C14TimeStamp(dest='interpolate', sources=None)
            if self.method == 'order1':
                eqs.append(Group(equations=[ts], real=True))
            else:
                eqs.append(ts)
        return eqs

    def _method_equations(self):
        from pysph.sph.equation import Group
        from pysph.sph.basic_equations import SummationDensity
        from pysph.tools import interpolator as I
        names = [a.name for a in self.particle_arrays]
        d = 'interpolate'
        if self.method == 'shepard':
            return [I.InterpolateFunction(dest=d, sources=names)]
        if self.method == 'sph':
            return [I.InterpolateSPH(dest=d, sources=names)]
        if self.method == 'splash':
            return [I.SPLASHInterpolateProperty(dest=d, sources=names)]
        if self.method == 'splash_norm':
            return [I.SPLASHInterpolatePropertyNormalized(dest=d,
                                                          sources=names)]
        return [
            Group(equations=[SummationDensity(dest=n, sources=names)
                             for n in names], real=False),
            Group(equations=[I.SPHFirstOrderApproximationPreStep(
                dest=d, sources=names, dim=self.dim)], real=True),
            Group(equations=[I.SPHFirstOrderApproximation(
                dest=d, sources=names, dim=self.dim)], real=True)]

    def set_interpolation_points(self, x, y, z, h):
        self.pa = self._dest(x, y, z, h)
        self.ev.update_particle_arrays(self.particle_arrays + [self.pa])

    def update_particle_arrays(self, pas):
        self.particle_arrays = self._with_temp(pas)
        self.ev.update_particle_arrays(self.particle_arrays + [self.pa])

    def update(self, update_domain=True):
        self.ev.update(update_domain=update_domain)

    def interpolate(self, prop, comp=0):
        for a in self.particle_arrays:
            data = a.get(prop, only_real_particles=False) \
                if prop in a.properties else 0.0
            a.get('temp_prop', only_real_particles=False)[:] = data
        tdt = self.opts.get('tdt') if self.opts is not None else None
        if tdt is None:
            self.ev.evaluate()
            tdt = [0.0, 0.1]        # the documented defaults
        elif comp % 2:
            self.ev.evaluate(tdt[0], tdt[1])
        else:
            self.ev.evaluate(t=tdt[0], dt=tdt[1])
        if self.opts is not None:
            self.stamp = (tdt[0] + 2.0 * tdt[1], self.pa.tstamp.copy())
        stride = 4 if self.method == 'order1' else 1
        return self.pa.prop[comp::stride].copy().squeeze()


class Run(object):
    def __init__(self, case):
        self.case = case
        self.fails = []
        self.labels = set()
        self.nontrivial = False
        # the formula the result must follow: that of the equations handed
        # to the constructor when there are any, else that of `method`
        self.method = case.get('custom_eq') or case['method']
        self.dim = case['dim']
        self.ev = case.get('mode') == 'evaluator'
        self.component = 'SPHEvaluator' if self.ev else 'Interpolator'

    def fail(self, kind, detail, phase, what='', **kw):
        kl = dict(method=self.method, phase=phase)
        if what:
            kl['what'] = what
        self.fails.append(Failure(self.component, kind, detail, kl, **kw))

    def call(self, phase, name, fn, *a, **k):
        """Call the code under test; -> (ok, value)."""
        try:
            return True, fn(*a, **k)
        except SystemExit:
            self.fails.append(Failure(
                'SPHCompiler', 'compile_failed',
                'generated interpolation code does not compile',
                dict(method=self.method)))
            return False, None
        except Exception as ex:
            self.fail('exception', '%s raised %s: %s' % (
                name, type(ex).__name__, str(ex)[:300]), phase,
                what=name + ':' + type(ex).__name__)
            return False, None

    # ---------------------------------------------------------------
    def execute(self):
        import numpy as np
        from pysph.base import kernels
        from pysph.base.nnps_base import DomainManager
        from pysph.tools.interpolator import Interpolator
        import pysph.sph.equation as E
        case = self.case
        dim = self.dim
        self.labels.add('dim%d' % dim)
        if len(case['arrays']) >= 2:
            self.labels.add('narr>=2')
        E.group_counter = E._counter()
        self.kernel = getattr(kernels, case['kernel'])(dim=dim)
        model = Model(case, case['arrays'])
        pas = model.make_arrays()
        domain = None
        per = case['periodic']
        if per:
            self.labels.add('periodic')
            domain = DomainManager(
                xmin=per['lo'][0], xmax=per['hi'][0],
                ymin=per['lo'][1], ymax=per['hi'][1],
                zmin=per['lo'][2], zmax=per['hi'][2],
                periodic_in_x=bool(per['per'][0]),
                periodic_in_y=bool(per['per'][1]),
                periodic_in_z=bool(per['per'][2]))
        init = case['init']
        kw = dict(kernel=self.kernel, domain_manager=domain,
                  method=case['method'])
        if case.get('custom_eq'):
            from pysph.tools import interpolator as I
            eq = dict(shepard=I.InterpolateFunction,
                      sph=I.InterpolateSPH)[case['custom_eq']]
            kw['equations'] = [eq(dest='interpolate',
                                  sources=NAMES[:len(pas)])]
            self.labels.add('custom_equations')
        self.labels.add('ftype:' + case.get('ftype', 'double'))
        go = case.get('gowner', 0)
        if go > 0:
            self.labels.add('g_missing_on_first_array')
        elif go < 0:
            self.labels.add('g_on_no_array')
        for e in case.get('excluded', []):
            self.labels.add(e[1:] if e.startswith('_') else
                            'excluded:' + e)
        if any(a['n'] == 0 for a in case['arrays']):
            self.labels.add('empty_source_array')
        if case.get('default_kernel'):
            # documented default: Gaussian of the dimension of the data
            kw['kernel'] = None
            self.labels.add('default_kernel')
        self.model = model
        if self.ev:
            self.labels.add('mode:evaluator')
            self.labels.add('targets:points')
            x, y, z = _target_arrays(init)
            evo = case.get('ev')
            if evo is not None:
                if evo.get('tdt') is not None:
                    self.labels.add('ev:t_dt_passed')
                else:
                    self.labels.add('ev:t_dt_default')
                if evo.get('factory'):
                    self.labels.add('ev:nnps_factory')
                if evo.get('backend') is not None:
                    self.labels.add('ev:backend_given')
            ok, ip = self.call('construct', 'SPHEvaluator', EvalAdapter, pas,
                               kw['kernel'], domain, self.method, dim, x, y,
                               z, self._target_h(init), evo)
            if not ok:
                return
            self.ip = ip
            self.pas = pas
            self.hset = None
            init = dict(init, kind='points')
            kw = None
        elif init['kind'] == 'grid':
            self.labels.add('targets:grid')
            kw['num_points'] = init['num_points']
        else:
            self.labels.add('targets:points')
            kw.update(self._point_kwargs(init))
        if kw is not None:
            ok, ip = self.call('construct', 'Interpolator', Interpolator, pas,
                               **kw)
            if not ok:
                return
            self.ip = ip
            self.pas = pas
            self.hset = model.hmax_real()
        if init['kind'] == 'grid':
            spec = self._check_auto_grid(init)
            if spec is None:
                return
        else:
            spec = init
        self.check_state('construct', spec)
        for n, op in enumerate(case['ops']):
            if self.fails:
                return
            phase = op['op']
            self.labels.add('op:' + phase)
            if phase == 'points' and self.ev:
                spec = op['targets']
                x, y, z = _target_arrays(spec)
                ok, _ = self.call(phase, 'update_particle_arrays',
                                  ip.set_interpolation_points, x, y, z,
                                  self._target_h(spec))
            elif phase == 'points':
                spec = op['targets']
                self.hset = model.hmax_real()
                ok, _ = self.call(phase, 'set_interpolation_points',
                                  ip.set_interpolation_points,
                                  **self._point_kwargs(spec))
            elif phase == 'domain':
                spec = op['targets']
                self.hset = model.hmax_real()
                ok, _ = self.call(phase, 'set_domain', ip.set_domain,
                                  tuple(spec['bounds']),
                                  tuple(spec['shape']))
            elif phase == 'arrays':
                model = self.model = Model(case, op['arrays'])
                pas = self.pas = model.make_arrays()
                if any(a['n'] == 0 for a in op['arrays']):
                    self.labels.add('empty_source_array')
                ok, _ = self.call(phase, 'update_particle_arrays',
                                  ip.update_particle_arrays, pas)
            elif phase == 'resize':
                model = self._resize(model, pas, op)
                ok, _ = self.call(phase, 'update', ip.update)
            elif phase == 'move':
                for d, p in zip(model.arr, op['pos']):
                    for k in 'xyz':
                        d[k] = np.asarray(p[k], dtype=float)
                model.set_lin()
                model.push(pas, ['x', 'y', 'z', 'lin'])
                ok, _ = self.call(phase, 'update', ip.update,
                                  update_domain=op['update_domain'])
            elif phase == 'hgrow':
                for d in model.arr:
                    d['h'] = d['h'] * op['factor']
                model.push(pas, ['h'])
                self.labels.add('h_changed_in_place')
                ok, _ = self.call(phase, 'update', ip.update)
            else:
                for d, f in zip(model.arr, op['f']):
                    d['f'] = np.asarray(f, dtype=float)
                model.push(pas, ['f'])
                ok, _ = self.call(phase, 'update', ip.update)
            if not ok:
                return
            self.check_state(phase, spec)
        # documented rejections
        if not self.fails and not self.ev:
            self._check_rejections()

    def _resize(self, model, pas, op):
        """Particles are removed from / added to one source array in place
        (the caller then runs update()); -> the new model."""
        import numpy as np
        ai = op['ai']
        cur = model.as_arrays()
        old = cur[ai]
        mp, nkept = resize_map(old, op)
        new = apply_resize(old, op)
        pa = pas[ai]
        uid = pa.get('uid', only_real_particles=False)
        tag = pa.get('tag', only_real_particles=False)
        keep = tag != 2 if self.case['periodic'] else tag >= 0
        gone = [i for i in range(len(uid))
                if keep[i] and mp[int(uid[i])] is None]
        if gone:
            pa.remove_particles(np.array(gone, dtype=int))
            self.labels.add('resize:removed')
        add = op['add']
        nadd = len(add['x'])
        if nadd:
            props = dict((k, np.asarray(add[k], dtype=float))
                         for k in AKEYS if k in add)
            props['c'] = np.full(nadd, float(self.case['c']))
            a0, bx, by, bz = self.case['lin']
            props['lin'] = a0 + bx * props['x'] + by * props['y'] + \
                bz * props['z']
            props['uid'] = -1.0 - np.arange(nadd)
            pa.add_particles(**props)
            self.labels.add('resize:added')
        uid = pa.get('uid', only_real_particles=False)
        tag = pa.get('tag', only_real_particles=False)
        for i in range(len(uid)):
            if self.case['periodic'] and tag[i] == 2:
                continue
            u = int(uid[i])
            uid[i] = nkept + (-1 - u) if u < 0 else mp[u]
        cur[ai] = new
        if new['n'] - new['nrem'] == 0:
            self.labels.add('resize:no_real_left')
        self.model = Model(self.case, cur)
        return self.model

    def _target_h(self, spec):
        hm = self.model.hmax_real()
        return [hm * f for f in spec['hf']]

    def _point_kwargs(self, spec):
        x, y, z = _target_arrays(spec)
        if spec.get('as_list'):
            x, y, z = x.tolist(), y.tolist(), z.tolist()
            self.labels.add('list_targets')
        kw = dict(x=x)
        if self.dim >= 2 or not spec['omit']:
            kw['y'] = y
        if self.dim >= 3 or not spec['omit']:
            kw['z'] = z
        if spec['omit'] and self.dim < 3:
            self.labels.add('omit_coords')
        if len(spec['shape']) > 1:
            self.labels.add('shaped_targets')
        if len(spec['shape']) > 2:
            self.labels.add('targets_3d_shape')
        return kw

    def _check_auto_grid(self, init):
        """The automatic grid: uniformly placed points in the bounding box
        stretched by 5% per side, approximately num_points of them."""
        import numpy as np
        ip = self.ip
        shape = [int(s) for s in np.asarray(ip.shape).ravel()]
        # ip.shape is the shape of the mgrid arrays here
        if len(shape) != 3 or min(shape) < 1:
            self.fail('grid_shape', 'automatic grid has shape %r' % (shape,),
                      'construct')
            return None
        lo = np.array([min(float(d[k][d['tag'] == 0].min())
                           for d in self.model.arr) for k in 'xyz'])
        hi = np.array([max(float(d[k][d['tag'] == 0].max())
                           for d in self.model.arr) for k in 'xyz'])
        ext = hi - lo
        bounds = []
        for a in range(3):
            bounds += [lo[a] - 0.05 * ext[a], hi[a] + 0.05 * ext[a]]
        npts = int(np.prod(shape))
        N = init['num_points']
        if not (0.25 * N <= npts <= 4 * N) or \
                [s > 1 for s in shape] != [a < self.dim for a in range(3)]:
            self.fail('grid_shape', 'num_points=%d over a cubic %d-d cloud '
                      'gave shape %r' % (N, self.dim, shape), 'construct')
            return None
        return dict(kind='domain', bounds=bounds, shape=shape)

    def _check_rejections(self):
        ip = self.ip
        if self.method != 'order1':
            try:
                ip.interpolate('f', 1)
            except RuntimeError:
                self.labels.add('gradient_rejected')
            except Exception as ex:
                self.fail('exception', 'interpolate(f, 1) raised %r' % (ex,),
                          'reject')
            else:
                self.fail('not_rejected', "interpolate('f', 1) with method "
                          "%s did not raise RuntimeError" % self.method,
                          'reject')
        else:
            try:
                ip.interpolate('f', 4)
            except RuntimeError:
                self.labels.add('gradient_rejected')
            except Exception as ex:
                self.fail('exception', 'interpolate(f, 4) raised %r' % (ex,),
                          'reject')
            else:
                self.fail('not_rejected', "interpolate('f', 4) did not raise",
                          'reject')

    # ---------------------------------------------------------------
    def check_state(self, phase, spec):
        import numpy as np
        ip = self.ip
        case = self.case
        dim = self.dim
        pts, rshape = _expected_points(spec, dim)
        npts = len(pts)
        # the points the interpolator says it uses
        try:
            got = np.stack([np.asarray(getattr(ip, k), dtype=float).ravel()
                            for k in 'xyz'], axis=1)
        except Exception as ex:
            self.fail('points', 'Interpolator.x/y/z unusable: %r' % (ex,),
                      phase)
            return
        scale = max(1.0, float(np.abs(pts).max())) if npts else 1.0
        if got.shape != pts.shape or \
                np.abs(got - pts).max() > 1e-12 * scale:
            self.fail('points', 'interpolation points differ from the '
                      'requested ones: expected %r..., got %r...' % (
                          pts[:3].tolist(), got[:3].tolist()), phase)
            return
        # target smoothing length
        th = np.array(ip.pa.h, dtype=float)
        if self.ev:
            if len(set(th.tolist())) > 1:
                self.labels.add('variable_target_h')
        elif len(th) != npts or not (th == self.hset).all():
            self.fail('target_h', 'target h %r, expected %d values %r (max '
                      'h of the real source particles)' % (
                          th[:4].tolist(), npts, self.hset), phase)
            return
        if not self.ev and self.hset != self.model.hmax_real():
            self.labels.add('stale_target_h')
        ref = Reference(case, self.model, pts, th, self.kernel, self.method)
        if ref.wrapped:
            self.labels.add('wrapped_source')
        if ref.image_used:
            self.labels.add('periodic:image_contributes')
        if any((d['tag'] != 0).any() for d in self.model.arr):
            self.labels.add('nonreal_sources')
        if len(set(ref.H.tolist())) > 1:
            self.labels.add('variable_h')
        srcset = set(map(tuple, ref.X.tolist()))
        for ti in range(npts):
            if ref.band[ti]:
                self.labels.add('band_skipped')
                continue
            nc, na, uneq = ref.target_class(ti)
            if nc == 0:
                self.labels.add('t:no_source')
            if tuple(ref.T[ti].tolist()) in srcset:
                self.labels.add('t:coincident')
            if nc >= 2 and na >= 2:
                self.labels.add('t:multi_array')
                self.nontrivial = True
            if nc >= 2 and uneq:
                self.labels.add('t:unequal_vol')
                self.nontrivial = True
        # order1 recomputes the density of *every* source particle, ghosts
        # included, from the particles present.  A periodic image within
        # reach of a target needs neighbours up to two neighbour cells
        # outside the face; single-period images provide them only when the
        # box is at least two cells wide.  In a narrower box the density of
        # those ghosts is a truncated sum whose value depends on which ghosts
        # the domain manager keeps (C07's subject), so the defining sum is
        # not evaluated there.
        self.o1_truncated = False
        if self.method == 'order1' and case.get('periodic'):
            per = case['periodic']
            hs = [float(np.max(ref.H))] if len(ref.H) else []
            if len(th):
                hs.append(float(np.max(th)))
            cell = ref.rs * max(hs) if hs else 0.0
            for a in range(3):
                if per['per'][a] and \
                        (per['hi'][a] - per['lo'][a]) <= 2.0 * cell * 1.001:
                    self.o1_truncated = True
            if self.o1_truncated:
                self.labels.add('order1:box_narrower_than_2_cells')
        comps = list(range(dim + 1)) if self.method == 'order1' else [0]
        ncall = 0
        for field in case['order']:
            for comp in comps:
                ok, res = self.call(phase, 'interpolate', ip.interpolate,
                                    field, comp)
                if not ok:
                    return
                ncall += 1
                stamp = getattr(ip, 'stamp', None)
                if stamp is not None and len(stamp[1]) and \
                        not (stamp[1] == stamp[0]).all():
                    self.fail('evaluator_time', 'evaluate(t, dt) with t + '
                              '2 dt = %r: the equations saw t + 2 dt = %r' % (
                                  stamp[0], stamp[1][:4].tolist()), phase)
                    return
                res = np.asarray(res, dtype=float)
                if tuple(res.shape) != tuple(rshape):
                    self.fail('result_shape', 'interpolate(%r, %d) has shape '
                              '%r, expected %r' % (field, comp, res.shape,
                                                   rshape), phase)
                    return
                flat = res.ravel()
                if self._compare(ref, flat, field, comp, phase, ncall):
                    return

    def _compare(self, ref, flat, field, comp, phase, ncall):
        """-> True when a failure was recorded."""
        import numpy as np
        case = self.case
        m = self.method
        what = field if m != 'order1' else '%s[%d]' % (field, comp)
        kwhat = '' if m != 'order1' else 'comp%d/dim%d' % (comp, self.dim)
        for ti in range(len(flat)):
            if ref.band[ti]:
                continue
            val, tol, info = ref.expect(ti, field, comp)
            got = float(flat[ti])
            if val is None:
                if info.get('illcond'):
                    self.labels.add('order1:illcond')
                if info.get('tiny_den'):
                    self.labels.add('tiny_denominator')
                continue
            where = 'target %d at %r, %d contributing sources, call %d ' \
                'after %s' % (ti, ref.T[ti].tolist(), len(ref.pairs[ti]),
                              ncall, phase)
            if m == 'order1':
                self.labels.add('order1:wellcond')
                if self.dim == 3 and ncall > 1:
                    self.labels.add('order1:3d')
            if info.get('exact_zero'):
                if got != 0.0:
                    self.fail('nonzero_without_sources', '%s of %s: %r where '
                              'no source is in range (%s)' % (
                                  m, what, got, where), phase, what=kwhat,
                              expected=0.0, observed=got)
                    return True
                continue
            if m == 'order1' and getattr(self, 'o1_truncated', False):
                continue
            if not (abs(got - val) <= tol):
                self.fail('value_differs', '%s of %s: got %r, defining sum '
                          'gives %r (tolerance %.3g; %s)' % (
                              m, what, got, val, tol, where), phase,
                          what=kwhat, expected=val, observed=got)
                return True
            # derived claims of the statement
            if m == 'shepard' and info.get('nonneg') and info['contrib']:
                lo, hi = min(info['contrib']), max(info['contrib'])
                self.labels.add('bounds_checked')
                if not (lo - tol <= got <= hi + tol):
                    self.fail('out_of_bounds', 'shepard value %r outside '
                              '[%r, %r] (%s)' % (got, lo, hi, where), phase)
                    return True
            if field == 'c' and m in ('shepard', 'splash_norm', 'order1'):
                want = float(case['c']) if comp == 0 else 0.0
                self.labels.add('constant_checked')
                if not (abs(got - want) <= tol + 1e-10 * abs(want)):
                    self.fail('constant_not_reproduced', '%s of constant '
                              'field %r comp %d gives %r (%s)' % (
                                  m, case['c'], comp, got, where), phase,
                              what=kwhat)
                    return True
            if field == 'g' and len(case['arrays']) > 1:
                self.labels.add('missing_prop_checked')
            if field == 'lin' and m == 'order1' and not case['periodic']:
                a0, bx, by, bz = case['lin']
                t = ref.T[ti]
                want = [a0 + bx * t[0] + by * t[1] + bz * t[2], bx, by,
                        bz][comp]
                self.labels.add('linear_checked')
                if not (abs(got - want) <= tol + 1e-9 * abs(want)):
                    self.fail('linear_not_reproduced', 'order1 of the linear '
                              'field %r comp %d gives %r, exact %r (cond %.3g;'
                              ' %s)' % (case['lin'], comp, got, want,
                                        info.get('cond', 0), where), phase,
                              what=kwhat)
                    return True
        return False


def execute(case):
    run = Run(case)
    run.execute()
    return Outcome(run.fails, sorted(run.labels), run.nontrivial)


# ------------------------------------------------------------ entry points
def plan(ctx):
    seed = int(ctx['seed'])
    specs = []

    def add(m, k, narr, n, mode='interpolator'):
        custom = None
        if mode == 'interpolator':
            # in these shards a third of the cases hand the equations of the
            # other method to the constructor (one more compile per shard)
            custom = dict(sph='shepard', shepard='sph').get(m)
        # rotate the type of f and the owner of g over the shards
        i = len(specs) + seed
        ftype = ['double', 'float', 'int', 'long'][i % 4]
        gowner = [0, narr - 1, -1, 0, min(1, narr - 1)][i % 5]
        specs.append(dict(name='%s%s-%s-%d' % (
            'ev-' if mode == 'evaluator' else '', m, k, narr), method=m,
            kernel=k, narr=narr, n=n, mode=mode, custom=custom,
            ftype=ftype, gowner=gowner,
            # signature of a crash of the worker
            component='SPHEvaluator' if mode == 'evaluator'
            else 'Interpolator', klass=dict(method=m)))
    if ctx['tier'] == 'quick':
        for mi, m in enumerate(METHODS):
            for ki, k in enumerate(KERNELS[:3]):
                add(m, k, 1 + (mi + ki + seed) % 3, 60)
        add(METHODS[seed % 5], 'WendlandQuintic', 2, 60, 'evaluator')
    else:
        for mi, m in enumerate(METHODS):
            for ki, k in enumerate(KERNELS):
                add(m, k, 1 + (mi + ki + seed) % 3, 2000)
            for ki, k in enumerate(['CubicSpline', 'Gaussian']):
                add(m, k, 2 + (mi + ki + seed) % 2, 2000, 'evaluator')
    return specs


def run_shard(spec, ctx):
    stats = Stats()
    stats.extra['jit_compiles'] = 2 if spec.get('custom') else 1
    search(case_strategy(spec['method'], spec['kernel'], spec['narr'],
                         spec.get('mode', 'interpolator'),
                         spec.get('custom'), spec.get('ftype', 'double'),
                         spec.get('gowner', 0)),
           execute, derive_seed(ctx.seed, 'C14', spec['name']), spec['n'],
           stats, shrink=True, journal=ctx.journal)
    return stats.result()


def run_case(case, component, ctx):
    out = execute(case)
    return [f.as_dict(case) for f in out.failures]
