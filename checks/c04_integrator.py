"""C04 - the compiled integrator performs one_timestep exactly as written.

Programs = (integrator class, stepper per array, equation sets, optional
periodic domain); one JIT compile per program through SPHCompiler, then
generated particle states x 1-3 consecutive steps are compared bitwise
(tolerance for steppers using libm) with vlib.refeval.RefIntegrator, which
calls the integrator's one_timestep method literally.
"""
import inspect
import re

from hypothesis import HealthCheck, Phase, given, seed, settings
from hypothesis import strategies as st

from vlib.hyp import (Failure, Outcome, Stats, search, derive_seed, canon,
                      case_hash)

RULE = ('program = shipped Integrator x shipped IntegratorStep it can drive '
        '(every stage method called by one_timestep is defined by a stepper, '
        'number of equation sets matches), or user-defined integrators '
        '(1-5 stages, py_stage hooks, update_nnps=False, two equation sets, '
        'out-of-order stages, control flow / locals / docstring / keyword '
        'calls in one_timestep, an inherited one_timestep, three equation '
        'sets, sets given as plain equation lists, stepper instances with '
        'constructor arguments, a py_stage hook without a stage method, an '
        'array without a stepper, OpenMP builds with 150-230 particles) '
        'with different steppers per array, with or '
        'without a periodic, mirror or periodic+mirror DomainManager; data = particle states with a '
        'ghost-tagged tail (non-periodic; the second array may be empty or '
        'all ghosts) x (t, dt per step) x 1-3 consecutive steps x post-stage '
        'callback installed / absent / replaced between steps. '
        'Non-trivial = a step in which >=2 stage calls ran, particles moved '
        'between two acceleration evaluations or a ghost existed; distinct '
        'by (program, data) hash.')
ASSUMPTIONS = [
    'equation sets are arithmetic tracer equations (checks/c04_defs.py); '
    'shipped steppers whose Python meaning is undefined on plain double '
    'stride-1 properties (rigid-body steppers indexing constants) are '
    'listed as skipped',
    'bitwise comparison for arithmetic-only steppers, 1e-9 relative '
    'otherwise',
    'neighbours from LinkedListNNPS(sort_gids=True) on both sides; serial '
    'and (programs marked omp) OpenMP builds with 4 or 16 threads',
]
ESSENTIAL_LABELS = {'all': ['shipped', 'custom', 'periodic', 'mirror',
                            'static_ghosts',
                            'py_stage', 'two_sets', 'multi_step',
                            'different_steppers', 'openmp', 'large_arrays',
                            'stepper_args', 'flat_sets', 'three_sets',
                            'array_without_stepper', 'control_flow',
                            'keyword_calls', 'inherited_timestep',
                            'py_hook_without_stage', 'empty_array',
                            'ghost_only_array', 'varying_dt',
                            'callback_none', 'callback_swap',
                            'between_step_calls']}
SHARD_TIMEOUT = {'quick': 1700, 'thorough': 8 * 3600}

BASE = ['x', 'y', 'z', 'h', 'u', 'v', 'w', 'rho', 'm', 'au', 'av', 'aw',
        'arho', 'ax', 'ay', 'az', 'q', 'x0', 'y0', 'z0', 'u0', 'v0']

CUSTOM = {
    'I1': (['stage1'], 1), 'I2NoDomain': (['initialize', 'stage1', 'stage2'],
                                          1),
    'I3TwoSets': (['initialize', 'stage1', 'stage2', 'stage3'], 2),
    'I5': (['initialize', 'stage1', 'stage2', 'stage3', 'stage4', 'stage5'],
           2),
    'I2Reversed': (['initialize', 'stage1', 'stage2'], 1),
    'I3Keywords': (['initialize', 'stage1', 'stage2', 'stage3'], 3),
    'I4Loop': (['initialize', 'stage1', 'stage2'], 1),
    'I1Sub': (['stage1'], 1),
}
CUSTOM_STEPPERS = {'SA': ['initialize', 'stage1', 'stage2', 'stage3',
                          'stage4', 'stage5'],
                   'SB': ['stage1', 'stage2'], 'SC': ['initialize',
                                                      'stage1'],
                   'SD': ['stage1'],
                   'SE': ['initialize', 'stage1', 'stage2'],
                   'SF': ['initialize', 'stage1']}
# programs added by the coverage audit: (integrator, stepper a0, stepper a1,
# domain, extras).  Every quick run has all of them.
AUDIT_CORE = [
    # two instances of one stepper class with different attribute values
    ('I1', 'SB', 'SB', False,
     dict(stepper_args={'a0': {'fac': 0.75}, 'a1': {'fac': 0.25}})),
    ('I4Loop', 'SF', 'SF', True,
     dict(stepper_args={'a0': {'a': 0.5, 'b': 3.0}, 'a1': {'a': 0.125}})),
    # py_stage2 hook without a stage2 method; control flow in one_timestep
    ('I4Loop', 'SF', 'SB', False, dict(flat_sets=True)),
    ('I4Loop', 'SA', 'SB', 'mirror', {}),
    # three equation sets, keyword calls, docstring
    ('I3Keywords', 'SA', 'SF', False, {}),
    ('I3Keywords', 'SA', 'SB', True, dict(flat_sets=True)),
    # inherited one_timestep
    ('I1Sub', 'SA', 'SB', False, dict(flat_sets=True)),
    # an array without a stepper
    ('I3TwoSets', 'SA', None, False, {}),
    # OpenMP builds (stage loops are prange loops), large arrays
    ('I2NoDomain', 'SA', 'SB', False, dict(omp=4)),
    ('I5', 'SA', 'SB', False, dict(omp=4)),
    ('I3Keywords', 'SA', 'SF', False, dict(omp=16)),
    ('I1', 'SD', 'SA', False, dict(omp=4)),
]


def shipped_catalog():
    from vlib import eqcatalog as C
    ints = {}
    for k, c in C.integrator_classes().items():
        src = inspect.getsource(c.one_timestep)
        calls = sorted(set(re.findall(r'self\.(initialize|stage\d+)\(',
                                      src)))
        idx = set(re.findall(r'compute_accelerations\((\d+)', src))
        nsets = (max(int(i) for i in idx) + 1) if idx else 1
        ints[k] = (calls, nsets)
    steps = {}
    for k, c in C.stepper_classes().items():
        ms = [m for m in dir(c) if m == 'initialize' or
              re.match(r'stage\d+$', m)]
        steps[k] = ms
    return ints, steps


def stepper_props(obj):
    need = set()
    for m in dir(obj):
        if m == 'initialize' or re.match(r'stage\d+$', m):
            for a in inspect.signature(getattr(obj, m)).parameters:
                if a.startswith('d_') and a != 'd_idx':
                    need.add(a[2:])
    return need


def programs(seedv, n, tier):
    """Deterministic enumeration of programs; the seed rotates it."""
    ints, steps = shipped_catalog()
    progs = []
    skeys = sorted(steps)
    j = 0
    for ik in sorted(ints):
        calls, nsets = ints[ik]
        fit = [s for s in skeys if set(calls) <= set(steps[s]) or
               (set(steps[s]) & set(calls))]
        full = [s for s in fit if set(calls) <= set(steps[s])]
        if not full:
            continue
        # primary stepper defines everything; the second array gets another
        # stepper that defines at least one called stage
        for r in range(len(full)):
            p = full[r]
            o = fit[(j + r) % len(fit)]
            j += 1
            progs.append(dict(kind='shipped', integrator=ik,
                              steppers={'a0': p, 'a1': o}, nsets=nsets,
                              periodic=[False, True, 'mirror', False, True,
                                        'mixed'][j % 6]))
    cust = []
    combos = [('I1', 'SA', 'SB'), ('I1', 'SB', 'SC'), ('I2NoDomain', 'SA',
                                                       'SB'),
              ('I2NoDomain', 'SB', None), ('I3TwoSets', 'SA', 'SB'),
              ('I3TwoSets', 'SA', 'SC'), ('I5', 'SA', 'SB'),
              ('I5', 'SA', 'SA'), ('I2Reversed', 'SA', 'SB'),
              ('I2Reversed', 'SB', 'SC'), ('I1', 'SC', 'SA'),
              ('I3TwoSets', 'SA', None), ('I1', 'SD', 'SA'),
              ('I1', 'SA', 'SD'), ('I2NoDomain', 'SE', 'SA'),
              ('I5', 'SE', 'SA'), ('I2NoDomain', 'SE', None),
              ('I2Reversed', 'SE', 'SB')]
    for i, (ic, s0, s1) in enumerate(combos):
        st_ = {'a0': s0}
        if s1:
            st_['a1'] = s1
        have = set()
        for sname in st_.values():
            have |= set(CUSTOM_STEPPERS[sname])
        if not set(CUSTOM[ic][0]) <= have:
            # every stage the integrator calls must be defined by a stepper
            continue
        for per in (False, True, 'mirror') + (('mixed',) if i % 3 == 0
                                                else ()):
            cust.append(dict(kind='custom', integrator=ic, steppers=st_,
                             nsets=CUSTOM[ic][1], periodic=per))
    audit = []
    for ic, s0, s1, per, extra in AUDIT_CORE:
        st_ = {'a0': s0}
        if s1:
            st_['a1'] = s1
        p = dict(kind='custom', integrator=ic, steppers=st_,
                 nsets=CUSTOM[ic][1], periodic=per)
        p.update(extra)
        audit.append(p)
    # shipped programs under OpenMP (thorough tier: every fourth)
    for i, p in enumerate(progs):
        if i % 4 == 2 and not p['periodic']:
            p['omp'] = 4
    allp = []
    # interleave custom and shipped
    for i in range(max(len(progs), len(cust))):
        if i < len(cust):
            allp.append(cust[i])
        if i < len(progs):
            allp.append(progs[i])
    if tier == 'quick':
        # a fixed core (one program per user-defined feature) plus a window
        # over everything else that rotates with the seed
        def key(p):
            return (p['integrator'], tuple(sorted(p['steppers'].items())),
                    p['periodic'])
        want = [('I1', 'SD', 'SA', False), ('I1', 'SA', 'SD', True),
                ('I3TwoSets', 'SA', 'SB', True), ('I5', 'SA', 'SB', False),
                ('I2NoDomain', 'SA', 'SB', False),
                ('I2Reversed', 'SB', 'SC', False),
                ('I1', 'SA', 'SB', 'mirror'),
                ('I3TwoSets', 'SA', 'SC', 'mirror'),
                ('I2NoDomain', 'SA', 'SB', 'mixed'),
                ('I2NoDomain', 'SE', 'SA', False),
                ('I5', 'SE', 'SA', True)]
        core = []
        for ic, s0, s1, per in want:
            for p in cust:
                if p['integrator'] == ic and p['steppers'].get('a0') == s0 \
                        and p['steppers'].get('a1') == s1 and \
                        p['periodic'] == per:
                    core.append(p)
        rest = [p for p in allp if key(p) not in set(key(c) for c in core)]
        core = core + audit
        # window: NSHIP shipped programs, one per integrator class, the
        # classes and their stepper pairings rotating with the seed (two
        # consecutive seeds visit every shipped integrator), plus user-defined
        # programs from the rest of the list
        NSHIP = 8
        by_int = {}
        for p in progs:
            by_int.setdefault(p['integrator'], []).append(p)
        ikeys = sorted(by_int)
        rot = []
        for j in range(min(NSHIP, len(ikeys))):
            lst = by_int[ikeys[(seedv * NSHIP + j) % len(ikeys)]]
            rot.append(lst[(seedv * 7 + j) % len(lst)])
        rest = [p for p in rest if p['kind'] == 'custom']
        k = max(0, n - len(core) - len(rot))
        start = (seedv * k) % len(rest)
        rot += (rest[start:] + rest[:start])[:k]
        # one shipped program of the window runs under OpenMP
        for p in rot:
            if p['kind'] == 'shipped' and not p['periodic']:
                p['omp'] = 4
                break
        return core + rot
    return allp + audit


# ------------------------------------------------------------------ data
@st.composite
def data_strategy(draw, prog, props):
    from vlib import eqcatalog as C
    arrays = []
    per = prog['periodic']
    L = 2.0
    # OpenMP programs: some data sets are large enough for every thread to
    # get particles (chunks of 64), spread out so that the neighbour lists
    # of the Python reference stay short
    big = bool(prog.get('omp')) and not per and draw(st.booleans())
    if big:
        L = 12.0
    # the second array may be empty or consist of ghosts only (a stage steps
    # nothing there); not with the stepper whose hook extracts particle 0
    kinds = ['normal'] * 4
    if prog['steppers'].get('a1') != 'SD' and not big:
        kinds += ['empty'] + ([] if per else ['ghost_only'])
    kind1 = draw(st.sampled_from(kinds))
    for i, nm in enumerate(['a0', 'a1']):
        n = draw(st.integers(6, 12)) if i == 0 else draw(st.integers(4, 8))
        nghost = 0 if per else draw(st.integers(0, 2))
        if big and i == 0:
            n = draw(st.integers(150, 230))
            nghost = draw(st.integers(0, 40))
        if i == 1 and kind1 == 'empty':
            n = nghost = 0
        elif i == 1 and kind1 == 'ghost_only':
            nghost = n
        pr = {}
        for p in sorted(props[nm]):
            if p in ('x', 'y'):
                pr[p] = dict(data=[draw(st.integers(1, 63)) / 64.0 * L
                                   for _ in range(n)])
            elif p == 'z':
                # three-dimensional programs: shipped steppers move all three
                # coordinates, and a 2D neighbour search is only defined for
                # particles that stay in their plane
                pr[p] = dict(data=[draw(st.integers(0, 16)) / 32.0
                                   for _ in range(n)])
            elif p == 'h':
                pr[p] = dict(data=[draw(st.sampled_from([0.4, 0.5, 0.55]))
                                   for _ in range(n)])
            elif p in ('m', 'rho', 'rho0', 'cs', 'V', 'e', 'p'):
                pr[p] = dict(data=[draw(st.integers(8, 24)) / 16.0
                                   for _ in range(n)])
            elif p in C.INT_PROPS:
                pr[p] = dict(type=C.INT_PROPS[p], data=[0] * n)
            elif p in ('tr', 'nw'):
                pr[p] = dict(type='long',
                             data=[draw(st.integers(0, 1000)) for _ in
                                   range(n)])
            else:
                pr[p] = dict(data=[draw(st.integers(-16, 16)) / 16.0
                                   for _ in range(n)])
        arrays.append(dict(name=nm, n=n, nghost=nghost, props=pr))
    DT = st.sampled_from([1 / 64.0, 1 / 32.0, 3 / 64.0, 1 / 16.0])
    nsteps = draw(st.integers(1, 3))
    data = dict(arrays=arrays, t=draw(st.integers(0, 16)) / 8.0,
                dt=draw(DT), nsteps=nsteps)
    if nsteps > 1 and draw(st.booleans()):
        # the step size changes from one step to the next
        data['dts'] = [data['dt']] + [draw(DT) for _ in range(nsteps - 1)]
    # post-stage callback: installed / never installed / replaced by another
    # one (or removed) between two steps of the same integrator object
    data['callback'] = draw(st.sampled_from(['set', 'set', 'none', 'swap']))
    # calls between steps that must not change what the next step does
    data['between'] = draw(st.sampled_from([None, None, 'fixed_h',
                                            'time_step']))
    return data


# ----------------------------------------------------------- construction
class Side(object):
    pass


def make_objects(prog):
    from vlib import eqcatalog as C
    from checks import c04_defs as D
    if prog['kind'] == 'custom':
        icls = getattr(D, prog['integrator'])
        args = prog.get('stepper_args') or {}
        steppers = dict((a, getattr(D, s)(**args.get(a, {}))) for a, s in
                        prog['steppers'].items())
    else:
        icls = C.integrator_classes()[prog['integrator']]
        sc = C.stepper_classes()
        steppers = dict((a, sc[s]()) for a, s in prog['steppers'].items())
    for s in steppers.values():
        C.inject_math(type(s))
    return icls, steppers


def make_equations(prog):
    from pysph.sph.equation import Group, MultiStageEquations
    from checks import c04_defs as D
    dests = sorted(prog['steppers'])
    srcs = ['a0', 'a1']

    def wrap(eqs):
        # a set is a list of groups or, as in the documentation's example
        # of MultiStageEquations, a plain list of equations
        return eqs if prog.get('flat_sets') else [Group(equations=eqs)]
    g0 = wrap([D.AccFromPos(d, srcs, c=1.0 + 0.5 * i)
               for i, d in enumerate(dests)] +
              [D.NbrTracer(d, srcs, k=i + 1) for i, d in enumerate(dests)])
    if prog['nsets'] == 1:
        return g0
    g1 = wrap([D.AccSecond(d, srcs, c=0.5 + i)
               for i, d in enumerate(dests)] +
              [D.NbrTracer(d, srcs, k=i + 4) for i, d in enumerate(dests)])
    sets = [g0, g1]
    if prog['kind'] == 'custom' and prog['nsets'] >= 3:
        sets.append(wrap([D.AccThird(d, srcs, c=0.75 + i)
                          for i, d in enumerate(dests)] +
                         [D.NbrTracer(d, srcs, k=i + 7)
                          for i, d in enumerate(dests)]))
    while len(sets) < prog['nsets']:
        sets.append(g0)
    return MultiStageEquations(sets)


def needed_props(prog):
    icls, steppers = make_objects(prog)
    props = {}
    for nm in ('a0', 'a1'):
        p = set(BASE) | {'tr', 'nw'}
        if nm in steppers:
            p |= stepper_props(steppers[nm])
        props[nm] = p
    return props


def make_domain(prog):
    if not prog['periodic']:
        return None
    from pysph.base.nnps import DomainManager
    if prog['periodic'] == 'mirror':
        # walls only: ghosts are images of the current particle state and
        # exist only because update_domain() re-creates them
        return DomainManager(xmin=0.0, xmax=2.0, ymin=0.0, ymax=2.0,
                             mirror_in_x=True, mirror_in_y=True)
    if prog['periodic'] == 'mixed':
        return DomainManager(xmin=0.0, xmax=2.0, ymin=0.0, ymax=2.0,
                             periodic_in_x=True, mirror_in_y=True)
    return DomainManager(xmin=0.0, xmax=2.0, ymin=0.0, ymax=2.0,
                         periodic_in_x=True, periodic_in_y=True)


def setup_program(prog, first):
    from pysph.base.kernels import CubicSpline
    from pysph.base.nnps import LinkedListNNPS
    from pysph.sph.acceleration_eval import make_acceleration_evals
    from pysph.sph.sph_compiler import SPHCompiler
    from vlib import jit
    from vlib.refeval import RefEval, RefIntegrator
    from checks import c04_defs as D
    dim = 3
    c = Side()
    c.arrays = jit.make_arrays(first['arrays'])
    icls, c.steppers = make_objects(prog)
    c.integ = icls(**c.steppers)
    c.kernel = CubicSpline(dim=dim)
    c.evals = make_acceleration_evals(c.arrays, make_equations(prog),
                                      c.kernel)
    comp = SPHCompiler(c.evals, c.integ)
    comp.compile()
    c.domain = make_domain(prog)
    c.nnps = LinkedListNNPS(dim=dim, particles=c.arrays,
                            radius_scale=c.kernel.radius_scale,
                            domain=c.domain, sort_gids=True)
    for ae in c.evals:
        ae.set_nnps(c.nnps)
    c.integ.set_nnps(c.nnps)
    c.log = []
    c.log2 = []
    c.callback = lambda t, dt, stage: c.log.append((float(t), float(dt),
                                                    int(stage)))
    c.callback2 = lambda t, dt, stage: c.log2.append((float(t), float(dt),
                                                      int(stage)))
    c.integ.set_post_stage_callback(c.callback)
    r = Side()
    r.arrays = jit.make_arrays(first['arrays'])
    icls, r.steppers = make_objects(prog)
    r.integ = icls(**r.steppers)
    r.kernel = CubicSpline(dim=dim)
    r.domain = make_domain(prog)
    r.nnps = LinkedListNNPS(dim=dim, particles=r.arrays,
                            radius_scale=r.kernel.radius_scale,
                            domain=r.domain, sort_gids=True)
    eqs = make_equations(prog)
    sets = eqs.groups if hasattr(eqs, 'groups') else [eqs]
    r.evals = [RefEval(r.arrays, s, r.kernel, r.nnps) for s in sets]
    r.ri = RefIntegrator(r.integ, r.steppers, r.arrays, r.evals, r.nnps)
    return c, r


def arith_only(prog):
    from vlib import eqcatalog as C
    icls, steppers = make_objects(prog)
    ok = {'sqrt', 'abs', 'fabs', 'max', 'min', 'declare', 'range'}
    import ast
    import textwrap
    for s in steppers.values():
        for m in dir(s):
            if m == 'initialize' or re.match(r'stage\d+$', m):
                try:
                    tree = ast.parse(textwrap.dedent(
                        inspect.getsource(getattr(s, m))))
                except Exception:
                    return False
                for node in ast.walk(tree):
                    if isinstance(node, ast.Pow):
                        return False
                    if isinstance(node, ast.Call) and isinstance(
                            node.func, ast.Name) and node.func.id not in ok:
                        return False
    return True


def run_data(prog, sides, data, bitwise):
    from vlib import jit
    from vlib.refeval import RefUndefined
    from checks import c04_defs as D
    c, r = sides
    labels = [prog['kind']]
    fails = []
    kl = dict(integrator=prog['integrator'].split('.')[-1])
    if prog['periodic'] in (True, 'mixed'):
        labels.append('periodic')
    if prog['periodic'] in ('mirror', 'mixed'):
        labels.append('mirror')
    if any(a['nghost'] for a in data['arrays']):
        labels.append('static_ghosts')
    if prog['nsets'] >= 2:
        labels.append('two_sets')
    if len(set(prog['steppers'].values())) >= 2:
        labels.append('different_steppers')
    if data['nsteps'] >= 2:
        labels.append('multi_step')
    if prog.get('omp'):
        labels.append('openmp')
    if any(a['n'] >= 150 for a in data['arrays']):
        labels.append('large_arrays')
    if prog.get('stepper_args'):
        labels.append('stepper_args')
    if prog.get('flat_sets'):
        labels.append('flat_sets')
    if prog['nsets'] >= 3:
        labels.append('three_sets')
    if len(prog['steppers']) < 2:
        labels.append('array_without_stepper')
    if prog['integrator'] in ('I4Loop',):
        labels.append('control_flow')
    if prog['integrator'] in ('I3Keywords',):
        labels.append('keyword_calls')
    if prog['integrator'] in ('I1Sub',):
        labels.append('inherited_timestep')
    if 'SF' in prog['steppers'].values() and \
            'stage2' in CUSTOM.get(prog['integrator'], ([],))[0]:
        labels.append('py_hook_without_stage')
    a1 = data['arrays'][1]
    if a1['n'] == 0:
        labels.append('empty_array')
    elif a1['nghost'] == a1['n']:
        labels.append('ghost_only_array')
    dts = data.get('dts') or [data['dt']] * data['nsteps']
    if len(set(dts)) > 1:
        labels.append('varying_dt')
    cbmode = data.get('callback', 'set')
    if cbmode != 'set':
        labels.append('callback_' + cbmode)
    if data.get('between'):
        labels.append('between_step_calls')
    for side in (c, r):
        jit.load_data(side.arrays, data['arrays'])
        side.nnps.update_domain()
        side.nnps.update()
    del c.log[:]
    del c.log2[:]
    r.ri.log = []
    t = data['t']
    moved = False
    expect = []
    expect2 = []
    for k in range(data['nsteps']):
        dt = dts[k]
        # which callback object is installed for this step
        if cbmode == 'none':
            cb = None
        elif cbmode == 'swap':
            cb = [c.callback, c.callback2, None][k % 3]
        else:
            cb = c.callback
        c.integ.set_post_stage_callback(cb)
        nlog = len(r.ri.log)
        del D.PYLOG[:]
        try:
            r.ri.step(t, dt)
        except RefUndefined as ex:
            return [], labels + ['ref_undefined'], False
        rlog = list(D.PYLOG)
        del D.PYLOG[:]
        try:
            c.integ.step(t, dt)
        except Exception as ex:
            fails.append(Failure('Integrator', 'exception', repr(ex), kl))
            return fails, labels, False
        clog = list(D.PYLOG)
        if rlog or clog:
            labels.append('py_stage')
        if rlog != clog:
            fails.append(Failure('Integrator', 'py_stage_log',
                                 'step %d: reference %r, compiled %r' % (
                                     k, rlog[:6], clog[:6]), kl))
        if cb is c.callback:
            expect += r.ri.log[nlog:]
        elif cb is c.callback2:
            expect2 += r.ri.log[nlog:]
        diffs = jit.compare_arrays(r.arrays, c.arrays, bitwise=bitwise,
                                   rtol=1e-9, skip=('pid',))
        if diffs:
            d = diffs[0]
            fails.append(Failure(
                'Integrator', 'state_differs',
                'step %d: array %s property %s index %s: reference %s, '
                'compiled %s (%s)' % ((k,) + d), kl))
            break
        t = t + dt
        if data.get('between') and k < data['nsteps'] - 1:
            # bookkeeping calls of the solver between two steps: they read
            # the particles and must leave the next step as it is (their own
            # results belong to C19)
            try:
                if data['between'] == 'fixed_h':
                    c.integ.set_fixed_h(k % 2 == 0)
                else:
                    c.integ.compute_time_step(dt, 0.25)
            except Exception:
                pass
    c.integ.set_post_stage_callback(c.callback)
    if c.log != expect or c.log2 != expect2:
        fails.append(Failure('Integrator', 'post_stage_callback',
                             'mode %s: reference %r / %r, compiled %r / %r'
                             % (cbmode, expect[:8], expect2[:8], c.log[:8],
                                c.log2[:8]), kl))
    nstages = len(r.ri.log) / max(1, data['nsteps'])
    nt = nstages >= 2 or bool(prog['periodic']) or \
        any(a['nghost'] for a in data['arrays'])
    return fails, sorted(set(labels)), bool(nt)


# ------------------------------------------------------------ entry points
def plan(ctx):
    if ctx['tier'] == 'quick':
        progs = programs(ctx['seed'], 34, 'quick')
        nd = 8
    else:
        progs = programs(ctx['seed'], 0, 'thorough')
        nd = 40
    return [dict(name='prog-%03d-%s' % (i, p['integrator'].split('.')[-1]),
                 prog=p, ndata=nd, omp=p.get('omp', 0))
            for i, p in enumerate(progs)]


def run_shard(spec, ctx):
    stats = Stats()
    prog = spec['prog']
    set_openmp(prog)
    stats.extra['jit_compiles'] = 0
    props = needed_props(prog)
    holder = {}
    bitwise = arith_only(prog)

    def execute(data):
        ctx.journal(dict(program=prog, data=data))
        if 'sides' not in holder:
            try:
                holder['sides'] = setup_program(prog, data)
                stats.extra['jit_compiles'] += 1
            except SystemExit:
                holder['sides'] = None
                if prog['kind'] == 'custom':
                    holder['compile_failed'] = True
                else:
                    # shipped steppers on generic double/stride-1 arrays:
                    # a type mismatch of the harness layout, listed
                    stats.extra.setdefault('skipped_programs', {})[
                        spec['name']] = 'does not compile on the generic ' \
                        'array layout'
            except RuntimeError as ex:
                # documented rejection (e.g. stepper needs a property the
                # generic arrays lack is impossible here; anything else is
                # reported)
                holder['sides'] = None
                stats.extra.setdefault('skipped_programs', {})[
                    spec['name']] = repr(ex)[:300]
                return Outcome([], [prog['kind']], False, skipped=True)
        if holder.get('compile_failed'):
            return Outcome([Failure(
                'SPHCompiler', 'compile_failed',
                'integrator program does not compile: %r' % (prog,),
                dict(integrator=prog['integrator'].split('.')[-1]))],
                [prog['kind']], False)
        if holder['sides'] is None:
            return Outcome([], [prog['kind']], False, skipped=True)
        fails, labels, nt = run_data(prog, holder['sides'], data, bitwise)
        if 'ref_undefined' in labels:
            stats.extra.setdefault('skipped_programs', {})[
                spec['name']] = 'reference undefined'
        return Outcome(fails, labels, nt)
    search(data_strategy(prog, props), execute,
           derive_seed(ctx.seed, 'C04', spec['name']), spec['ndata'], stats,
           shrink=True)
    for f in stats.failures:
        f['case'] = dict(program=prog, data=f['case'])
    stats.nontrivial = set(case_hash([canon(prog), h])
                           for h in stats.nontrivial)
    stats.samples = [dict(program=prog, data=s) for s in stats.samples[:1]]
    return stats.result()


def set_openmp(prog):
    if prog.get('omp'):
        # stage loops become prange loops; a stepper method writes its own
        # particle only, so the result must not depend on the schedule
        # (the driver sets OMP_NUM_THREADS from the shard's `omp` entry)
        from compyle.config import get_config
        get_config().use_openmp = True


def run_case(case, component, ctx):
    prog, data = case['program'], case['data']
    set_openmp(prog)
    try:
        sides = setup_program(prog, data)
    except SystemExit:
        return [Failure('SPHCompiler', 'compile_failed',
                        'does not compile').as_dict(case)]
    fails, _, _ = run_data(prog, sides, data, arith_only(prog))
    return [f.as_dict(case) for f in fails]
