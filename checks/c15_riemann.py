"""C15 - Riemann solvers are reflection-symmetric; contact solvers admissible.

Metamorphic oracles (reflection, equal sides, Galilean shift, joint scaling)
with a conditioning-aware tolerance, plus an independent transcription of
Toro's pressure function for the exact solver and the vacuum criterion.
"""
import math

from hypothesis import strategies as st

from vlib.hyp import Failure, Outcome, Stats, search, derive_seed

RULE = ('cases = (solver in the 11 functions or dispatch method 0..10, '
        'rho_l, rho_r, p_l, p_r log-uniform over [1e-6,1e6] incl. equal sides '
        'and extreme ratios, u_l,u_r in multiples of the sound speed, gamma '
        'in (1,3], niter in [1,100], tol in [1e-12,1e-2]). Non-trivial = '
        'sides differ (p_l != p_r or u_l != u_r) and the solver reports '
        'success; distinct by case hash.')
ASSUMPTIONS = [
    'an exception raised by the pure-Python helper paths (printf with two '
    'arguments, math domain errors where C would give NaN) is treated as '
    '"failure reported", not as a violation',
    'metamorphic partners may differ by max(1e-10*scale, 200*S) where S is '
    'the change of the solver output under 8 fixed input perturbations of '
    '4 eps (conditioning), plus 20*tol for the iterative solvers',
    'return codes of iterative solvers are compared only when both partners '
    'are non-borderline (same code again with niter+5, 4*tol)',
]
SOLVERS = ['non_diffusive', 'van_leer', 'exact', 'hllc', 'ducowicz', 'hlle',
           'roe', 'llxf', 'hllc_ball', 'hll_ball', 'hllsy']
ITERATIVE = {'van_leer', 'exact'}
ESSENTIAL_LABELS = {'all': ['ok:' + s for s in SOLVERS] +
                    ['equal_sides', 'vacuum', 'dispatch', 'extreme_ratio',
                     'galilean', 'scaling', 'residual_checked']}
EPSM = 2.0 ** -52


class Reported(Exception):
    pass


_MPNS = {}


def mp_module():
    """The riemann_solver module of the tree under test, re-executed so that
    its arithmetic runs on 60-digit mpmath numbers (same code, exact
    arithmetic for all practical purposes)."""
    if 'ns' not in _MPNS:
        import types
        import mpmath as mp
        from pysph.sph.gas_dynamics import riemann_solver as rs
        src = open(rs.__file__.replace('.pyc', '.py')).read()
        m = types.ModuleType('riemann_solver_mp')
        exec(compile(src, rs.__file__, 'exec'), m.__dict__)

        def declare(t, n=1):
            if t.startswith('matrix'):
                size = int(t[t.index('(') + 1:t.index(')')].strip('(), '))
                mk = lambda: [mp.mpf(0)] * size   # noqa
            else:
                mk = lambda: mp.mpf(0)            # noqa
            if n == 1:
                return mk()
            return tuple(mk() for _ in range(n))

        def msqrt(x):
            if x < 0:
                raise ValueError('math domain error')
            return mp.sqrt(x)
        m.sqrt = msqrt
        m.declare = declare
        _MPNS['ns'] = m
    return _MPNS['ns']


def call(name, a, niter=None, tol=None, method=None, mode='float'):
    """-> (rc, p*, u*) ; exceptions of the pure-python failure paths are
    mapped to rc = 'exc'."""
    if mode == 'mp':
        import mpmath as mp
        mp.mp.dps = 60
        rs = mp_module()
        res = [mp.mpf(0), mp.mpf(0)]
        a = dict(a)
        for k in ('rhol', 'rhor', 'pl', 'pr', 'ul', 'ur', 'gamma'):
            a[k] = mp.mpf(a[k])
    else:
        from pysph.sph.gas_dynamics import riemann_solver as rs
        res = [0.0, 0.0]
    ni = a['niter'] if niter is None else niter
    tl = a['tol'] if tol is None else tol
    args = (a['rhol'], a['rhor'], a['pl'], a['pr'], a['ul'], a['ur'],
            a['gamma'], ni, tl, res)
    try:
        if method is not None:
            rc = rs.riemann_solve(method, *args)
        else:
            rc = getattr(rs, name)(*args)
    except (TypeError, ValueError, ZeroDivisionError, OverflowError) as ex:
        return 'exc', 0.0, 0.0
    return rc, res[0], res[1]


def reflect(a):
    b = dict(a)
    b.update(rhol=a['rhor'], rhor=a['rhol'], pl=a['pr'], pr=a['pl'],
             ul=-a['ur'], ur=-a['ul'])
    return b


PERT = [(1, 1, 1, 1, 1, 1), (-1, 1, -1, 1, -1, 1), (1, -1, 1, -1, 1, -1),
        (-1, -1, 1, 1, -1, -1), (1, 1, -1, -1, 1, -1), (-1, 1, 1, -1, -1, 1),
        (1, -1, -1, 1, 1, 1), (-1, -1, -1, -1, 1, 1)]


def sensitivity(name, a):
    rc0, p0, u0 = call(name, a)
    sp = su = 0.0
    for pat in PERT:
        b = dict(a)
        for k, s in zip(('rhol', 'rhor', 'pl', 'pr', 'ul', 'ur'), pat):
            b[k] = a[k] * (1.0 + 4 * EPSM * s)
        rc, p, u = call(name, b)
        if rc != rc0 or rc != 0:
            continue
        if math.isfinite(p) and math.isfinite(u):
            sp = max(sp, abs(p - p0))
            su = max(su, abs(u - u0))
    return sp, su


def scales(a):
    cl = math.sqrt(a['gamma'] * a['pl'] / a['rhol'])
    cr = math.sqrt(a['gamma'] * a['pr'] / a['rhor'])
    return max(a['pl'], a['pr']), max(cl, cr, abs(a['ul']), abs(a['ur']))


# ----------------------------------------------- Toro's pressure function
def toro_f(p, rho, pk, gamma):
    """f_K(p) and its derivative, Toro (2009) eq. 4.6/4.7 and 4.37."""
    import mpmath as mp
    mp.mp.dps = 30
    p, rho, pk, g = mp.mpf(p), mp.mpf(rho), mp.mpf(pk), mp.mpf(gamma)
    c = mp.sqrt(g * pk / rho)
    if p > pk:
        A = 2 / ((g + 1) * rho)
        B = (g - 1) / (g + 1) * pk
        f = (p - pk) * mp.sqrt(A / (p + B))
        fd = mp.sqrt(A / (B + p)) * (1 - (p - pk) / (2 * (B + p)))
    else:
        f = 2 * c / (g - 1) * ((p / pk) ** ((g - 1) / (2 * g)) - 1)
        fd = 1 / (rho * c) * (p / pk) ** (-(g + 1) / (2 * g))
    return f, fd


@st.composite
def case_strategy(draw):
    solver = draw(st.sampled_from(SOLVERS))
    via = draw(st.sampled_from(['direct', 'direct', 'dispatch']))
    lg = st.floats(-6, 6)
    kind = draw(st.sampled_from(['generic', 'generic', 'generic', 'equal',
                                 'extreme', 'vacuum', 'moderate',
                                 'moderate']))
    if kind == 'moderate':
        rhol = 10.0 ** draw(st.floats(-1, 1))
        rhor = 10.0 ** draw(st.floats(-1, 1))
        pl = 10.0 ** draw(st.floats(-1, 1))
        pr = 10.0 ** draw(st.floats(-1, 1))
    else:
        rhol = 10.0 ** draw(lg)
        pl = 10.0 ** draw(lg)
        if kind == 'equal':
            rhor, pr = rhol, pl
        elif kind == 'extreme':
            rhor = rhol * 10.0 ** draw(st.sampled_from([-6, -4, 4, 6]))
            pr = pl * 10.0 ** draw(st.sampled_from([-8, -5, 5, 8]))
        else:
            rhor = 10.0 ** draw(lg)
            pr = 10.0 ** draw(lg)
    gamma = draw(st.sampled_from([1.4, 5.0 / 3.0, 2.0, 3.0, 1.01, 1.1]) |
                 st.floats(1.001, 3.0))
    cl = math.sqrt(gamma * pl / rhol)
    cr = math.sqrt(gamma * pr / rhor)
    cs = max(cl, cr)
    if kind == 'equal':
        ul = ur = cs * draw(st.floats(-5, 5))
    elif kind == 'vacuum':
        ul = cs * draw(st.floats(-2, 2))
        ur = ul + 2 * (cl + cr) / (gamma - 1) * draw(st.floats(1.001, 5.0))
    else:
        mk = draw(st.sampled_from(['zero', 'sub', 'sub', 'super', 'big']))
        m = {'zero': 0.0, 'sub': 0.9, 'super': 5.0, 'big': 1e3}[mk]
        ul = cs * m * draw(st.floats(-1, 1))
        ur = cs * m * draw(st.floats(-1, 1))
    niter = draw(st.sampled_from([20, 20, 50, 100, 5, 2, 1]) |
                 st.integers(1, 100))
    tol = 10.0 ** draw(st.floats(-12, -2))
    shift = cs * draw(st.sampled_from([0.5, -1.0, 3.0, 100.0])) * \
        draw(st.floats(0.1, 1.0))
    lam = 10.0 ** draw(st.floats(-4, 4))
    return dict(solver=solver, via=via, kind=kind, rhol=rhol, rhor=rhor,
                pl=pl, pr=pr, ul=ul, ur=ur, gamma=gamma, niter=niter,
                tol=tol, shift=shift, lam=lam)


def check(case):
    import mpmath as mp
    mp.mp.dps = 60
    name = case['solver']
    a = case
    labels = []
    fails = []
    it = name in ITERATIVE

    def F(kind, detail, **kw):
        fails.append(Failure(name, kind, detail, kw))

    method = None
    if case['via'] == 'dispatch':
        # documented numbering of riemann_solve
        method = {'non_diffusive': 0, 'van_leer': 1, 'exact': 2, 'hllc': 3,
                  'ducowicz': 4, 'hlle': 5, 'roe': 6, 'llxf': 7,
                  'hllc_ball': 8, 'hll_ball': 9, 'hllsy': 10}[name]
        labels.append('dispatch')
    rc, p, u = call(name, a, method=method)
    if method is not None:
        rcd, pd, ud = call(name, a)
        same = (rcd == rc) and (
            (pd == p or (pd != pd and p != p)) and
            (ud == u or (ud != ud and u != u)))
        if not same:
            F('dispatch', 'riemann_solve(method=%d) -> %r but %s() -> %r' % (
                method, (rc, p, u), name, (rcd, pd, ud)))
    pscale, uscale = scales(a)
    # exact-arithmetic evaluation of the same code (primary oracle)
    mrc, mpp, mpu = call(name, a, mode='mp')
    T = mp.mpf('1e-25')
    PS, US = mp.mpf(pscale), mp.mpf(uscale)
    cl = math.sqrt(a['gamma'] * a['pl'] / a['rhol'])
    cr = math.sqrt(a['gamma'] * a['pr'] / a['rhor'])
    vacuum = 2 * (mp.sqrt(mp.mpf(a['gamma']) * a['pl'] / a['rhol']) +
                  mp.sqrt(mp.mpf(a['gamma']) * a['pr'] / a['rhor'])) / (
        mp.mpf(a['gamma']) - 1) <= (mp.mpf(a['ur']) - mp.mpf(a['ul']))
    if vacuum:
        labels.append('vacuum')
    if case['kind'] == 'extreme':
        labels.append('extreme_ratio')
    if rc == 'exc':
        labels.append('py_exception_as_failure')

    def fin(x):
        return mp.isfinite(x)

    # ---- reflection symmetry (exact arithmetic: tight)
    b = reflect(a)
    brc, bp, bu = call(name, b, mode='mp')
    if mrc != brc:
        if 'exc' in (mrc, brc) and 1 in (mrc, brc):
            labels.append('exc_vs_failure_code')
        else:
            F('reflection_code', 'exact-arithmetic run returns %r, reflected '
              'problem returns %r' % (mrc, brc))
    elif mrc == 0:
        # tolerance relative to the intermediate magnitudes of the formulas
        M = max(PS, abs(mpp), abs(bp))
        if not (fin(mpp) and fin(bp)) or abs(mpp - bp) > T * M * mp.mpf(
                '1e10'):
            F('reflection', 'p*=%s but the reflected problem gives %s '
              '(same code in 60-digit arithmetic)' % (
                  mp.nstr(mpp, 17), mp.nstr(bp, 17)), quantity='p')
        MU = max(US, abs(mpu), abs(bu))
        if not (fin(mpu) and fin(bu)) or abs(mpu + bu) > T * MU * mp.mpf(
                '1e10'):
            F('reflection', 'u*=%s but the reflected problem gives %s '
              '(same code in 60-digit arithmetic)' % (
                  mp.nstr(mpu, 17), mp.nstr(bu, 17)), quantity='u')
    # ---- reflection symmetry of the double-precision run: partners agree
    # within their own measured rounding errors
    frc, fp, fu = call(name, b)
    if rc == 0 and frc == 0 and mrc == 0 and brc == 0 and \
            math.isfinite(p) and math.isfinite(fp):
        sp, su = sensitivity(name, a)
        da = abs(mp.mpf(p) - mpp) + abs(mp.mpf(fp) - bp)
        du = abs(mp.mpf(u) - mpu) + abs(mp.mpf(fu) - bu)
        ttol = 20 * a['tol'] if it else 0.0
        tp = max(1e-10 * pscale, 200 * sp, 3 * float(da)) + ttol * pscale
        tu = max(1e-10 * uscale, 200 * su, 3 * float(du)) + ttol * uscale
        if abs(p - fp) > tp:
            F('reflection_float', 'p*=%r but reflected problem gives %r '
              '(tol %.3g)' % (p, fp, tp), quantity='p')
        if abs(u + fu) > tu:
            F('reflection_float', 'u*=%r but reflected problem gives %r '
              '(tol %.3g)' % (u, fu, tu), quantity='u')
    # ---- equal sides
    if case['kind'] == 'equal':
        labels.append('equal_sides')
        ttol = mp.mpf(20 * a['tol']) if it else mp.mpf(0)
        if mrc == 0:
            M = max(PS, abs(mpp))
            if abs(mpp - a['pl']) > T * M * mp.mpf('1e10') + ttol * PS or \
                    abs(mpu - a['ul']) > T * US * mp.mpf('1e10') + ttol * US:
                F('equal_sides', 'common state (p=%r,u=%r) but result '
                  '(%s,%s)' % (a['pl'], a['ul'], mp.nstr(mpp, 17),
                                mp.nstr(mpu, 17)))
        elif mrc != 'exc' and not it:
            F('equal_sides', 'failure code %r for equal sides' % (mrc,))
    # ---- contact solvers
    if it and rc == 0:
        if not (math.isfinite(p) and p > 0 and math.isfinite(u)):
            F('admissible', 'success reported with p*=%r u*=%r' % (p, u))
    if it and mrc == 0:
        if not (fin(mpp) and mpp > 0 and fin(mpu)):
            F('admissible', 'success reported with p*=%s u*=%s' % (mpp, mpu))
        else:
            # the iteration stops at a relative change < tol: partners may
            # stop at different iterates (van_leer clamps its first guess at
            # the absolute 1e-25), so they agree to the tolerance only
            TT = mp.mpf(20 * a['tol'])
            # Galilean shift (exact in 60 digits)
            c = dict(a)
            c['ul'] = mp.mpf(a['ul']) + mp.mpf(a['shift'])
            c['ur'] = mp.mpf(a['ur']) + mp.mpf(a['shift'])
            crc, cp, cu = call(name, c, mode='mp')
            labels.append('galilean')
            if crc != 0:
                F('galilean', 'success, but failure %r after adding %r to '
                  'both velocities' % (crc, a['shift']))
            else:
                if abs(cp - mpp) > (T * mp.mpf('1e10') + TT) * max(PS, mpp):
                    F('galilean', 'p*=%s, shifted by %r gives %s' % (
                        mp.nstr(mpp, 17), a['shift'], mp.nstr(cp, 17)),
                      quantity='p')
                if abs((cu - a['shift']) - mpu) > (T * mp.mpf('1e10') +
                                                   TT) * max(
                        US, abs(a['shift'])):
                    F('galilean', 'u*=%s, shifted by %r gives %s' % (
                        mp.nstr(mpu, 17), a['shift'], mp.nstr(cu, 17)),
                      quantity='u')
            # joint scaling of p and rho: p* scales, u* unchanged.
            # van_leer clamps p* at the absolute constant 1e-25: the clause
            # is checked where that clamp is far away.
            lam = mp.mpf(a['lam'])
            if name == 'exact' or (mpp > 1e-15 and mpp * lam > 1e-15 and
                                   min(a['pl'], a['pr']) *
                                   min(1.0, a['lam']) > 1e-12):
                e = dict(a)
                e.update(pl=mp.mpf(a['pl']) * lam, pr=mp.mpf(a['pr']) * lam,
                         rhol=mp.mpf(a['rhol']) * lam,
                         rhor=mp.mpf(a['rhor']) * lam)
                erc, ep, eu = call(name, e, mode='mp')
                labels.append('scaling')
                if erc != 0:
                    F('scaling', 'success, but failure %r after scaling p '
                      'and rho by %r' % (erc, a['lam']))
                else:
                    if abs(ep / lam - mpp) > (T * mp.mpf('1e10') +
                                              TT) * max(PS, mpp):
                        F('scaling', 'p*=%s, scaled by %r gives %s/lam=%s'
                          % (mp.nstr(mpp, 17), a['lam'], mp.nstr(ep, 17),
                             mp.nstr(ep / lam, 17)), quantity='p')
                    if abs(eu - mpu) > (T * mp.mpf('1e10') + TT) * US:
                        F('scaling', 'u*=%s, scaled data gives %s' % (
                            mp.nstr(mpu, 17), mp.nstr(eu, 17)),
                          quantity='u')
    if name == 'exact':
        if vacuum and (rc == 0 or mrc == 0):
            F('vacuum', 'vacuum-generating data but success reported '
              '(p*=%r)' % p)
        for which, (xrc, xp, xu) in (('float', (rc, p, u)),
                                    ('mp', (mrc, mpp, mpu))):
            if xrc != 0 or not (mp.isfinite(xp) and xp > 0):
                continue
            fl, fdl = toro_f(xp, a['rhol'], a['pl'], a['gamma'])
            fr, fdr = toro_f(xp, a['rhor'], a['pr'], a['gamma'])
            resid = abs(fl + fr + (mp.mpf(a['ur']) - mp.mpf(a['ul'])))
            mag = abs(fl) + abs(fr) + abs(a['ur']) + abs(a['ul']) + \
                2 * (cl + cr) / (a['gamma'] - 1)
            bound = 10 * a['tol'] * xp * (fdl + fdr)
            if which == 'float':
                bound += 64 * EPSM * mag
            else:
                bound += mp.mpf('1e-40') * mag
            labels.append('residual_checked')
            if resid > bound:
                F('residual', '%s run: f_l+f_r+du = %s at p*=%s exceeds %s '
                  '(tol=%g)' % (which, mp.nstr(resid, 6), mp.nstr(xp, 17),
                                mp.nstr(bound, 6), a['tol']), run=which)
            ustar = (mp.mpf(a['ul']) + mp.mpf(a['ur']) + fr - fl) / 2
            ut = mp.mpf(1e-9) * mag if which == 'float' else \
                mp.mpf('1e-30') * mag
            if abs(ustar - xu) > ut + 10 * a['tol'] * mag:
                F('ustar', '%s run: u*=%s but 0.5(ul+ur+fr-fl)=%s' % (
                    which, mp.nstr(xu, 17), mp.nstr(ustar, 17)), run=which)
    if rc == 0:
        labels.append('ok:' + name)
    nontrivial = rc == 0 and (a['pl'] != a['pr'] or a['ul'] != a['ur'])
    return fails, labels, nontrivial


def execute(case):
    fails, labels, nt = check(case)
    return Outcome(fails, sorted(set(labels)), nt)


def plan(ctx):
    n = 20000 if ctx['tier'] == 'quick' else 2000000
    k = 16
    return [dict(name='riemann-%02d' % i, max_examples=n // k)
            for i in range(k)]


def run_shard(spec, ctx):
    stats = Stats()
    search(case_strategy(), execute,
           derive_seed(ctx.seed, 'C15', spec['name']),
           spec['max_examples'], stats, shrink=True)
    return stats.result()


def run_case(case, component, ctx):
    fails, _, _ = check(case)
    return [f.as_dict(case) for f in fails]
