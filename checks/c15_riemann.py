"""C15 - Riemann solvers are reflection-symmetric; contact solvers admissible.

Metamorphic oracles (reflection, equal sides, Galilean shift, joint scaling)
with a conditioning-aware tolerance, plus an independent transcription of
Toro's pressure function for the exact solver and the vacuum criterion.
"""
import math

from hypothesis import strategies as st

from vlib.hyp import Failure, Outcome, Stats, search, derive_seed

RULE = ('cases = (solver in the 11 functions or dispatch method 0..10, '
        'rho_l, rho_r, p_l, p_r log-uniform over [1e-6,1e6] incl. equal '
        'sides, one equal quantity (p, rho or u), mirror-symmetric data, '
        'extreme ratios, vacuum-generating and nearly vacuum-generating '
        'velocities, u_l,u_r in multiples of the sound speed, gamma in '
        '(1,3], niter in [1,100], tol in [1e-12,1e-2]); every case runs '
        'as Python (double and 60-digit, positional or keyword call, '
        'result buffer pre-filled with garbage) and through the '
        'transpiled riemann_solve of a compiled equation '
        '(checks/c15_eqs.py). Non-trivial = sides differ (p_l != p_r or '
        'u_l != u_r) and the solver reports success; distinct by case '
        'hash.')
ASSUMPTIONS = [
    'an exception raised by the pure-Python helper paths (printf with two '
    'arguments, math domain errors where C would give NaN) is treated as '
    '"failure reported", not as a violation',
    'metamorphic partners may differ by max(1e-10*scale, 200*S) where S is '
    'the change of the solver output under 8 fixed input perturbations of '
    '4 eps (conditioning), plus 20*tol for the iterative solvers',
    'return codes of iterative solvers are compared only when both partners '
    'are non-borderline (same code again with niter+5, 4*tol)',
    'the transpiled solver (same source, compiled) must return the Python '
    'return code (iterative solvers: one of the codes Python returns for '
    'niter+-1, tol*(1+-1e-6) and the 8 perturbed inputs) and the Python '
    'star state within the same conditioning-aware tolerance; where Python '
    'raises (see above) only the documented codes 0/1, admissibility and '
    'the residual of the exact solver are asserted of the transpiled run',
    'mirror-symmetric data (left state = reflected right state) is its own '
    'reflection partner: reflection symmetry then means u* = 0',
    'documented return codes are 0 and 1 (docstrings)',
]
SOLVERS = ['non_diffusive', 'van_leer', 'exact', 'hllc', 'ducowicz', 'hlle',
           'roe', 'llxf', 'hllc_ball', 'hll_ball', 'hllsy']
ITERATIVE = {'van_leer', 'exact'}
ESSENTIAL_LABELS = {'all': ['ok:' + s for s in SOLVERS] +
                    ['transpiled_ok:' + s for s in SOLVERS] +
                    ['equal_sides', 'vacuum', 'dispatch', 'extreme_ratio',
                     'galilean', 'scaling', 'residual_checked',
                     'residual_checked:transpiled', 'kind:eqp', 'kind:eqrho',
                     'kind:equ', 'kind:mirror', 'kind:near_vacuum',
                     'call:keywords', 'pattern:RR', 'pattern:SS',
                     'pattern:RS', 'pattern:SR', 'guess:pvrs', 'guess:trrs',
                     'guess:tsrs', 'ball:q00', 'ball:q01', 'ball:q10',
                     'ball:q11', 'transpiled:compared',
                     'transpiled:failure_code']}
METHOD = {'non_diffusive': 0, 'van_leer': 1, 'exact': 2, 'hllc': 3,
          'ducowicz': 4, 'hlle': 5, 'roe': 6, 'llxf': 7, 'hllc_ball': 8,
          'hll_ball': 9, 'hllsy': 10}
GARBAGE = (7.25, -3.5)
EPSM = 2.0 ** -52


class Reported(Exception):
    pass


_MPNS = {}


def mp_module():
    """The riemann_solver module of the tree under test, re-executed so that
    its arithmetic runs on 60-digit mpmath numbers (same code, exact
    arithmetic for all practical purposes)."""
    if 'ns' not in _MPNS:
        import types
        import mpmath as mp
        from pysph.sph.gas_dynamics import riemann_solver as rs
        src = open(rs.__file__.replace('.pyc', '.py')).read()
        m = types.ModuleType('riemann_solver_mp')
        exec(compile(src, rs.__file__, 'exec'), m.__dict__)

        def declare(t, n=1):
            if t.startswith('matrix'):
                size = int(t[t.index('(') + 1:t.index(')')].strip('(), '))
                mk = lambda: [mp.mpf(0)] * size   # noqa
            else:
                mk = lambda: mp.mpf(0)            # noqa
            if n == 1:
                return mk()
            return tuple(mk() for _ in range(n))

        def msqrt(x):
            if x < 0:
                raise ValueError('math domain error')
            return mp.sqrt(x)
        m.sqrt = msqrt
        m.declare = declare
        _MPNS['ns'] = m
    return _MPNS['ns']


def call(name, a, niter=None, tol=None, method=None, mode='float',
         keywords=False):
    """-> (rc, p*, u*) ; exceptions of the pure-python failure paths are
    mapped to rc = 'exc'.  The result buffer holds garbage on entry (the
    callers re-use one buffer: gsph.GSPHAcceleration.loop calls the solver
    twice on the same `result`)."""
    if mode == 'mp':
        import mpmath as mp
        mp.mp.dps = 60
        rs = mp_module()
        res = [mp.mpf(GARBAGE[0]), mp.mpf(GARBAGE[1])]
        a = dict(a)
        for k in ('rhol', 'rhor', 'pl', 'pr', 'ul', 'ur', 'gamma'):
            a[k] = mp.mpf(a[k])
    else:
        from pysph.sph.gas_dynamics import riemann_solver as rs
        res = [GARBAGE[0], GARBAGE[1]]
    ni = a['niter'] if niter is None else niter
    tl = a['tol'] if tol is None else tol
    args = (a['rhol'], a['rhor'], a['pl'], a['pr'], a['ul'], a['ur'],
            a['gamma'], ni, tl, res)
    try:
        if keywords:
            kw = dict(rhol=a['rhol'], rhor=a['rhor'], pl=a['pl'], pr=a['pr'],
                      ul=a['ul'], ur=a['ur'], gamma=a['gamma'], niter=ni,
                      tol=tl, result=res)
            if method is not None:
                rc = rs.riemann_solve(method=method, **kw)
            else:
                rc = getattr(rs, name)(**kw)
        elif method is not None:
            rc = rs.riemann_solve(method, *args)
        else:
            rc = getattr(rs, name)(*args)
    except (TypeError, ValueError, ZeroDivisionError, OverflowError) as ex:
        return 'exc', 0.0, 0.0
    return rc, res[0], res[1]


def reflect(a):
    b = dict(a)
    b.update(rhol=a['rhor'], rhor=a['rhol'], pl=a['pr'], pr=a['pl'],
             ul=-a['ur'], ur=-a['ul'])
    return b


PERT = [(1, 1, 1, 1, 1, 1), (-1, 1, -1, 1, -1, 1), (1, -1, 1, -1, 1, -1),
        (-1, -1, 1, 1, -1, -1), (1, 1, -1, -1, 1, -1), (-1, 1, 1, -1, -1, 1),
        (1, -1, -1, 1, 1, 1), (-1, -1, -1, -1, 1, 1)]


def sensitivity(name, a):
    rc0, p0, u0 = call(name, a)
    sp = su = 0.0
    for pat in PERT:
        b = dict(a)
        for k, s in zip(('rhol', 'rhor', 'pl', 'pr', 'ul', 'ur'), pat):
            b[k] = a[k] * (1.0 + 4 * EPSM * s)
        rc, p, u = call(name, b)
        if rc != rc0 or rc != 0:
            continue
        if math.isfinite(p) and math.isfinite(u):
            sp = max(sp, abs(p - p0))
            su = max(su, abs(u - u0))
    return sp, su


def scales(a):
    cl = math.sqrt(a['gamma'] * a['pl'] / a['rhol'])
    cr = math.sqrt(a['gamma'] * a['pr'] / a['rhor'])
    return max(a['pl'], a['pr']), max(cl, cr, abs(a['ul']), abs(a['ur']))


# ------------------------------------------------------- transpiled solvers
_EV = {}


def evaluator():
    """(SPHEvaluator, particle array) running checks/c15_eqs.RiemannProbe
    over 3 particles (case, reflected case, a fixed shock tube), or
    ('error', text) when the probe cannot be built."""
    if 'ev' not in _EV:
        try:
            import numpy as np
            from pysph.base.utils import get_particle_array
            from pysph.sph.equation import Group
            from pysph.tools.sph_evaluator import SPHEvaluator
            from checks.c15_eqs import RiemannProbe, DPROPS, IPROPS
            K = 3
            pa = get_particle_array(name='rp', x=np.arange(K) * 1.0,
                                    y=np.zeros(K), z=np.zeros(K),
                                    h=np.ones(K))
            for k in DPROPS:
                pa.add_property(k)
            for k in IPROPS:
                pa.add_property(k, type='int')
            ev = SPHEvaluator(
                [pa], [Group(equations=[RiemannProbe(dest='rp',
                                                     sources=None)])],
                dim=1)
            _EV['ev'] = (ev, pa)
        except SystemExit as ex:
            _EV['ev'] = ('error', 'JIT build of the probe equation calling '
                         'riemann_solve with HELPERS failed (exit %r)' % (
                             ex.code,))
        except Exception as ex:
            _EV['ev'] = ('error', repr(ex))
    return _EV['ev']


SOD = dict(rhol=1.0, rhor=0.125, pl=1.0, pr=0.1, ul=0.0, ur=0.0, gamma=1.4,
           niter=20, tol=1e-6)


def transpiled(method, a, b):
    """Run problems a, b (and the fixed tube) through the compiled
    riemann_solve -> ([(rc, p*, u*)] * 3, number of exceptions swallowed by
    the generated nogil code) or None when the probe is not available."""
    import sys
    ev, pa = evaluator()
    if ev == 'error':
        return None
    from checks.c15_eqs import GARBAGE as G
    for i, q in enumerate((a, b, SOD)):
        pa.rhol[i] = q['rhol']
        pa.rhor[i] = q['rhor']
        pa.pl[i] = q['pl']
        pa.pr[i] = q['pr']
        pa.ul[i] = q['ul']
        pa.ur[i] = q['ur']
        pa.gam[i] = q['gamma']
        pa.rtol[i] = q['tol']
        pa.niter[i] = q['niter']
        pa.method[i] = method if i < 2 else 2
    pa.rc[:] = -9.0
    pa.ps[:] = G[0]
    pa.us[:] = G[1]
    swallowed = []
    hook = sys.unraisablehook
    sys.unraisablehook = lambda u: swallowed.append(1)
    # the generated code also prints every swallowed exception on the C
    # level stderr (70 MB per thorough shard): silenced for the iterative
    # solvers, the only ones that raise
    quiet = method in (1, 2)
    if quiet:
        import os
        sys.stderr.flush()
        if 'null' not in _EV:
            _EV['null'] = os.open(os.devnull, os.O_WRONLY)
        saved = os.dup(2)
        os.dup2(_EV['null'], 2)
    try:
        ev.evaluate()
    finally:
        sys.unraisablehook = hook
        if quiet:
            os.dup2(saved, 2)
            os.close(saved)
    out = []
    for i in range(3):
        rc = float(pa.rc[i])
        out.append((int(rc) if rc == int(rc) else rc, float(pa.ps[i]),
                    float(pa.us[i])))
    return out, len(swallowed)


def py_rc_set(name, a):
    """Return codes of the Python solver next to (niter, tol, data)."""
    out = set()
    for ni in (a['niter'] - 1, a['niter'], a['niter'] + 1):
        if ni >= 1:
            for tl in (a['tol'] * (1 - 1e-6), a['tol'], a['tol'] * (1 + 1e-6)):
                out.add(call(name, a, niter=ni, tol=tl)[0])
    for pat in PERT:
        b = dict(a)
        for k, sg in zip(('rhol', 'rhor', 'pl', 'pr', 'ul', 'ur'), pat):
            b[k] = a[k] * (1.0 + 4 * EPSM * sg)
        out.add(call(name, b)[0])
    return out


# ----------------------------------------------- Toro's pressure function
def toro_f(p, rho, pk, gamma):
    """f_K(p) and its derivative, Toro (2009) eq. 4.6/4.7 and 4.37."""
    import mpmath as mp
    mp.mp.dps = 30
    p, rho, pk, g = mp.mpf(p), mp.mpf(rho), mp.mpf(pk), mp.mpf(gamma)
    c = mp.sqrt(g * pk / rho)
    if p > pk:
        A = 2 / ((g + 1) * rho)
        B = (g - 1) / (g + 1) * pk
        f = (p - pk) * mp.sqrt(A / (p + B))
        fd = mp.sqrt(A / (B + p)) * (1 - (p - pk) / (2 * (B + p)))
    else:
        f = 2 * c / (g - 1) * ((p / pk) ** ((g - 1) / (2 * g)) - 1)
        fd = 1 / (rho * c) * (p / pk) ** (-(g + 1) / (2 * g))
    return f, fd


@st.composite
def case_strategy(draw):
    solver = draw(st.sampled_from(SOLVERS))
    via = draw(st.sampled_from(['direct', 'direct', 'dispatch']))
    lg = st.floats(-6, 6)
    kind = draw(st.sampled_from(['generic', 'generic', 'generic', 'equal',
                                 'extreme', 'vacuum', 'moderate',
                                 'moderate', 'eqp', 'eqrho', 'equ', 'mirror',
                                 'near_vacuum']))
    if kind == 'moderate':
        rhol = 10.0 ** draw(st.floats(-1, 1))
        rhor = 10.0 ** draw(st.floats(-1, 1))
        pl = 10.0 ** draw(st.floats(-1, 1))
        pr = 10.0 ** draw(st.floats(-1, 1))
    else:
        rhol = 10.0 ** draw(lg)
        pl = 10.0 ** draw(lg)
        if kind == 'equal' or kind == 'mirror':
            rhor, pr = rhol, pl
        elif kind == 'extreme':
            rhor = rhol * 10.0 ** draw(st.sampled_from([-6, -4, 4, 6]))
            pr = pl * 10.0 ** draw(st.sampled_from([-8, -5, 5, 8]))
        else:
            rhor = 10.0 ** draw(lg)
            pr = 10.0 ** draw(lg)
            # exactly one quantity equal on both sides (ties of the
            # shock / rarefaction decisions p* <= p_K, H > 1, max(c_l, c_r))
            if kind == 'eqp':
                pr = pl
            elif kind == 'eqrho':
                rhor = rhol
    gamma = draw(st.sampled_from([1.4, 5.0 / 3.0, 2.0, 3.0, 1.01, 1.1]) |
                 st.floats(1.001, 3.0))
    cl = math.sqrt(gamma * pl / rhol)
    cr = math.sqrt(gamma * pr / rhor)
    cs = max(cl, cr)
    if kind == 'equal':
        ul = ur = cs * draw(st.floats(-5, 5))
    elif kind == 'vacuum':
        ul = cs * draw(st.floats(-2, 2))
        ur = ul + 2 * (cl + cr) / (gamma - 1) * draw(st.floats(1.001, 5.0))
    elif kind == 'near_vacuum':
        # strong double rarefaction just short of generating a vacuum
        ul = cs * draw(st.floats(-2, 2))
        ur = ul + 2 * (cl + cr) / (gamma - 1) * draw(
            st.sampled_from([0.5, 0.9, 0.99, 0.999, 0.9999]) |
            st.floats(0.3, 0.9999))
    else:
        mk = draw(st.sampled_from(['zero', 'sub', 'sub', 'super', 'big']))
        m = {'zero': 0.0, 'sub': 0.9, 'super': 5.0, 'big': 1e3}[mk]
        ul = cs * m * draw(st.floats(-1, 1))
        ur = cs * m * draw(st.floats(-1, 1))
        if kind == 'equ':
            ur = ul
        elif kind == 'mirror':
            # the data is its own mirror image (colliding or receding)
            if mk == 'zero':
                ul = cs * draw(st.floats(-1.5, 1.5))
            ur = -ul
    niter = draw(st.sampled_from([20, 20, 50, 100, 5, 2, 1]) |
                 st.integers(1, 100))
    tol = 10.0 ** draw(st.floats(-12, -2))
    shift = cs * draw(st.sampled_from([0.5, -1.0, 3.0, 100.0])) * \
        draw(st.floats(0.1, 1.0))
    lam = 10.0 ** draw(st.floats(-4, 4))
    kw = draw(st.sampled_from([False, False, True]))
    return dict(solver=solver, via=via, kind=kind, rhol=rhol, rhor=rhor,
                pl=pl, pr=pr, ul=ul, ur=ur, gamma=gamma, niter=niter,
                tol=tol, shift=shift, lam=lam, keywords=kw)


def check(case):
    import mpmath as mp
    mp.mp.dps = 60
    name = case['solver']
    a = case
    labels = []
    fails = []
    it = name in ITERATIVE

    def F(kind, detail, **kw):
        fails.append(Failure(name, kind, detail, kw))

    method = None
    if case['via'] == 'dispatch':
        # documented numbering of riemann_solve
        method = METHOD[name]
        labels.append('dispatch')
    rc, p, u = call(name, a, method=method)

    def same_val(x, y):
        return x == y or (x != x and y != y)
    if case.get('keywords'):
        # documented parameter names: the keyword call is the same call
        labels.append('call:keywords')
        krc, kp, ku = call(name, a, method=method, keywords=True)
        if not (krc == rc and same_val(kp, p) and same_val(ku, u)):
            F('call_form', 'keyword call -> %r but positional call -> %r' % (
                (krc, kp, ku), (rc, p, u)))
    if case['kind'] in ('eqp', 'eqrho', 'equ', 'mirror', 'near_vacuum'):
        labels.append('kind:' + case['kind'])
    if method is not None:
        rcd, pd, ud = call(name, a)
        same = (rcd == rc) and (
            (pd == p or (pd != pd and p != p)) and
            (ud == u or (ud != ud and u != u)))
        if not same:
            F('dispatch', 'riemann_solve(method=%d) -> %r but %s() -> %r' % (
                method, (rc, p, u), name, (rcd, pd, ud)))
    pscale, uscale = scales(a)
    # exact-arithmetic evaluation of the same code (primary oracle)
    mrc, mpp, mpu = call(name, a, mode='mp')
    T = mp.mpf('1e-25')
    PS, US = mp.mpf(pscale), mp.mpf(uscale)
    cl = math.sqrt(a['gamma'] * a['pl'] / a['rhol'])
    cr = math.sqrt(a['gamma'] * a['pr'] / a['rhor'])
    vacuum = 2 * (mp.sqrt(mp.mpf(a['gamma']) * a['pl'] / a['rhol']) +
                  mp.sqrt(mp.mpf(a['gamma']) * a['pr'] / a['rhor'])) / (
        mp.mpf(a['gamma']) - 1) <= (mp.mpf(a['ur']) - mp.mpf(a['ul']))
    if vacuum:
        labels.append('vacuum')
    if case['kind'] == 'extreme':
        labels.append('extreme_ratio')
    if rc == 'exc':
        labels.append('py_exception_as_failure')
    for which, xrc in (('float', rc), ('mp', mrc)):
        if not (xrc == 'exc' or (isinstance(xrc, int) and xrc in (0, 1))):
            F('return_code', '%s run returned %r (documented: 0 or 1)' % (
                which, xrc), run=which)
    # ---- which branches of the solver the data reaches (labels only)
    if name == 'exact' and not vacuum:
        cup = 0.25 * (a['rhol'] + a['rhor']) * (cl + cr)
        ppv = max(0.0, 0.5 * (a['pl'] + a['pr']) +
                  0.5 * (a['ul'] - a['ur']) * cup)
        pmn, pmx = min(a['pl'], a['pr']), max(a['pl'], a['pr'])
        if pmx / pmn <= 2.0 and pmn <= ppv <= pmx:
            labels.append('guess:pvrs')
        elif ppv < pmn:
            labels.append('guess:trrs')
        else:
            labels.append('guess:tsrs')
        if mrc == 0 and mp.isfinite(mpp):
            labels.append('pattern:' + ('R' if mpp <= a['pl'] else 'S') +
                          ('R' if mpp <= a['pr'] else 'S'))
    if name == 'hllc_ball':
        pprov = 0.5 * (a['pl'] + a['pr'] - 0.5 * (a['rhol'] + a['rhor']) *
                       0.5 * (cl + cr) * (a['ur'] - a['ul']))
        labels.append('ball:q%d%d' % (pprov / a['pl'] > 1,
                                      pprov / a['pr'] > 1))

    def fin(x):
        return mp.isfinite(x)

    # ---- reflection symmetry (exact arithmetic: tight)
    b = reflect(a)
    brc, bp, bu = call(name, b, mode='mp')
    if mrc != brc:
        if 'exc' in (mrc, brc) and 1 in (mrc, brc):
            labels.append('exc_vs_failure_code')
        else:
            F('reflection_code', 'exact-arithmetic run returns %r, reflected '
              'problem returns %r' % (mrc, brc))
    elif mrc == 0:
        # tolerance relative to the intermediate magnitudes of the formulas
        M = max(PS, abs(mpp), abs(bp))
        if not (fin(mpp) and fin(bp)) or abs(mpp - bp) > T * M * mp.mpf(
                '1e10'):
            F('reflection', 'p*=%s but the reflected problem gives %s '
              '(same code in 60-digit arithmetic)' % (
                  mp.nstr(mpp, 17), mp.nstr(bp, 17)), quantity='p')
        MU = max(US, abs(mpu), abs(bu))
        if not (fin(mpu) and fin(bu)) or abs(mpu + bu) > T * MU * mp.mpf(
                '1e10'):
            F('reflection', 'u*=%s but the reflected problem gives %s '
              '(same code in 60-digit arithmetic)' % (
                  mp.nstr(mpu, 17), mp.nstr(bu, 17)), quantity='u')
    # ---- data that is its own mirror image: u* = -u*
    if mrc == 0 and all(a[k] == b[k] for k in ('rhol', 'rhor', 'pl', 'pr',
                                                'ul', 'ur')):
        labels.append('mirror_data')
        ttol = mp.mpf(20 * a['tol']) if it else mp.mpf(0)
        if not fin(mpu) or abs(mpu) > (T * mp.mpf('1e10') + ttol) * US:
            F('reflection', 'mirror-symmetric data but u*=%s (same code in '
              '60-digit arithmetic)' % mp.nstr(mpu, 17), quantity='u_mirror')
    # ---- reflection symmetry of the double-precision run: partners agree
    # within their own measured rounding errors
    frc, fp, fu = call(name, b)
    sp = su = None
    if rc == 0 and frc == 0 and mrc == 0 and brc == 0 and \
            math.isfinite(p) and math.isfinite(fp):
        sp, su = sensitivity(name, a)
        da = abs(mp.mpf(p) - mpp) + abs(mp.mpf(fp) - bp)
        du = abs(mp.mpf(u) - mpu) + abs(mp.mpf(fu) - bu)
        ttol = 20 * a['tol'] if it else 0.0
        tp = max(1e-10 * pscale, 200 * sp, 3 * float(da)) + ttol * pscale
        tu = max(1e-10 * uscale, 200 * su, 3 * float(du)) + ttol * uscale
        if abs(p - fp) > tp:
            F('reflection_float', 'p*=%r but reflected problem gives %r '
              '(tol %.3g)' % (p, fp, tp), quantity='p')
        if abs(u + fu) > tu:
            F('reflection_float', 'u*=%r but reflected problem gives %r '
              '(tol %.3g)' % (u, fu, tu), quantity='u')
    # ---- the transpiled solvers (reached through riemann_solve, as the
    # GSPH equation does): same codes, same star state as the Python run
    tr = transpiled(METHOD[name], a, b)
    c_a = None
    if tr is None:
        F('transpiled_build', evaluator()[1])
    else:
        (c_a, c_b, c_sod), swallowed = tr
        sw_a = sw_b = 0
        if swallowed:
            # the generated helpers are noexcept: an exception inside one
            # is printed and the helper returns without writing its result.
            # (Before the cpow=True repair of the template, `x**y` with a
            # negative or denormal Newton iterate did that in prefun_exact
            # and `exact` reported success with a stale f, f':
            # replays/C15/transpiled_exact_swallowed_pow.json.)  Counted;
            # whatever such a run returns is compared like any other.
            labels.append('transpiled:swallowed_exception')
            sw_a = transpiled(METHOD[name], a, SOD)[1]
            sw_b = transpiled(METHOD[name], SOD, b)[1]
        src, sps, sus = call('exact', SOD)
        if src == 0 and not (c_sod[0] == 0 and
                             abs(c_sod[1] - sps) <= 1e-9 and
                             abs(c_sod[2] - sus) <= 1e-9):
            F('transpiled', 'fixed shock tube next to the case: transpiled '
              'exact -> %r but Python -> %r' % (c_sod, (src, sps, sus)),
              quantity='neighbour')
        for tag, A, py, cc in (('case', a, (rc, p, u), c_a),
                               ('reflected', b, (frc, fp, fu), c_b)):
            prc, pp, pu = py
            crc, cp, cu = cc
            if crc == 0 and (sw_a if tag == 'case' else sw_b):
                labels.append('transpiled:success_after_swallowed_exception')
            if crc not in (0, 1):
                F('return_code', 'transpiled run returned %r (documented: 0 '
                  'or 1)' % (crc,), run='transpiled')
            if crc == 0:
                labels.append('transpiled_ok:' + name)
            if it and crc == 0 and not (math.isfinite(cp) and cp > 0 and
                                        math.isfinite(cu)):
                F('admissible', 'transpiled run: success reported with '
                  'p*=%r u*=%r' % (cp, cu), run='transpiled')
            if prc == 'exc':
                labels.append('transpiled:py_exception')
                continue
            if crc != prc:
                if it and crc in py_rc_set(name, A):
                    labels.append('transpiled:rc_borderline')
                else:
                    F('transpiled', '%s problem: transpiled return code %r '
                      'but Python %r' % (tag, crc, prc), quantity='rc')
                continue
            if crc != 0:
                labels.append('transpiled:failure_code')
                continue
            if not (math.isfinite(pp) and math.isfinite(pu)):
                labels.append('transpiled:py_nonfinite')
                continue
            if tag == 'case':
                if sp is None:
                    sp, su = sensitivity(name, a)
                s_p, s_u = sp, su
            else:
                s_p, s_u = sensitivity(name, A)
            ttol = 20 * a['tol'] if it else 0.0
            tp = max(1e-10 * pscale, 200 * s_p) + ttol * pscale
            tu = max(1e-10 * uscale, 200 * s_u) + ttol * uscale
            labels.append('transpiled:compared')
            if not abs(cp - pp) <= tp:
                F('transpiled', '%s problem: transpiled p*=%r but Python '
                  'p*=%r (tol %.3g)' % (tag, cp, pp, tp), quantity='p')
            if not abs(cu - pu) <= tu:
                F('transpiled', '%s problem: transpiled u*=%r but Python '
                  'u*=%r (tol %.3g)' % (tag, cu, pu, tu), quantity='u')
    # ---- equal sides
    if case['kind'] == 'equal':
        labels.append('equal_sides')
        ttol = mp.mpf(20 * a['tol']) if it else mp.mpf(0)
        if mrc == 0:
            M = max(PS, abs(mpp))
            if abs(mpp - a['pl']) > T * M * mp.mpf('1e10') + ttol * PS or \
                    abs(mpu - a['ul']) > T * US * mp.mpf('1e10') + ttol * US:
                F('equal_sides', 'common state (p=%r,u=%r) but result '
                  '(%s,%s)' % (a['pl'], a['ul'], mp.nstr(mpp, 17),
                                mp.nstr(mpu, 17)))
        elif mrc != 'exc' and not it:
            F('equal_sides', 'failure code %r for equal sides' % (mrc,))
    # ---- contact solvers
    if it and rc == 0:
        if not (math.isfinite(p) and p > 0 and math.isfinite(u)):
            F('admissible', 'success reported with p*=%r u*=%r' % (p, u))
    if it and mrc == 0:
        if not (fin(mpp) and mpp > 0 and fin(mpu)):
            F('admissible', 'success reported with p*=%s u*=%s' % (mpp, mpu))
        else:
            # the iteration stops at a relative change < tol: partners may
            # stop at different iterates (van_leer clamps its first guess at
            # the absolute 1e-25), so they agree to the tolerance only
            TT = mp.mpf(20 * a['tol'])
            # Galilean shift (exact in 60 digits)
            c = dict(a)
            c['ul'] = mp.mpf(a['ul']) + mp.mpf(a['shift'])
            c['ur'] = mp.mpf(a['ur']) + mp.mpf(a['shift'])
            crc, cp, cu = call(name, c, mode='mp')
            labels.append('galilean')
            if crc != 0:
                F('galilean', 'success, but failure %r after adding %r to '
                  'both velocities' % (crc, a['shift']))
            else:
                if abs(cp - mpp) > (T * mp.mpf('1e10') + TT) * max(PS, mpp):
                    F('galilean', 'p*=%s, shifted by %r gives %s' % (
                        mp.nstr(mpp, 17), a['shift'], mp.nstr(cp, 17)),
                      quantity='p')
                if abs((cu - a['shift']) - mpu) > (T * mp.mpf('1e10') +
                                                   TT) * max(
                        US, abs(a['shift'])):
                    F('galilean', 'u*=%s, shifted by %r gives %s' % (
                        mp.nstr(mpu, 17), a['shift'], mp.nstr(cu, 17)),
                      quantity='u')
            # joint scaling of p and rho: p* scales, u* unchanged.
            # van_leer clamps p* at the absolute constant 1e-25 and exact
            # reports failure for a star pressure below the smallest normal
            # double (2.2e-308, underflow next to vacuum): the clause is
            # checked where those absolute constants are far away.
            lam = mp.mpf(a['lam'])
            if (name == 'exact' and mpp > 1e-290 and mpp * lam > 1e-290) or \
                    (name != 'exact' and mpp > 1e-15 and mpp * lam > 1e-15 and
                     min(a['pl'], a['pr']) * min(1.0, a['lam']) > 1e-12):
                e = dict(a)
                e.update(pl=mp.mpf(a['pl']) * lam, pr=mp.mpf(a['pr']) * lam,
                         rhol=mp.mpf(a['rhol']) * lam,
                         rhor=mp.mpf(a['rhor']) * lam)
                erc, ep, eu = call(name, e, mode='mp')
                labels.append('scaling')
                if erc != 0:
                    F('scaling', 'success, but failure %r after scaling p '
                      'and rho by %r' % (erc, a['lam']))
                else:
                    if abs(ep / lam - mpp) > (T * mp.mpf('1e10') +
                                              TT) * max(PS, mpp):
                        F('scaling', 'p*=%s, scaled by %r gives %s/lam=%s'
                          % (mp.nstr(mpp, 17), a['lam'], mp.nstr(ep, 17),
                             mp.nstr(ep / lam, 17)), quantity='p')
                    if abs(eu - mpu) > (T * mp.mpf('1e10') + TT) * US:
                        F('scaling', 'u*=%s, scaled data gives %s' % (
                            mp.nstr(mpu, 17), mp.nstr(eu, 17)),
                          quantity='u')
    if name == 'exact':
        if vacuum and (rc == 0 or mrc == 0):
            F('vacuum', 'vacuum-generating data but success reported '
              '(p*=%r)' % p)
        if vacuum and c_a is not None and c_a[0] == 0:
            F('vacuum', 'vacuum-generating data but the transpiled run '
              'reports success (p*=%r)' % c_a[1], run='transpiled')
        runs = [('float', (rc, p, u)), ('mp', (mrc, mpp, mpu))]
        if c_a is not None:
            runs.append(('transpiled', c_a))
        for which, (xrc, xp, xu) in runs:
            if xrc != 0 or not (mp.isfinite(xp) and xp > 0):
                continue
            if which != 'mp' and xp >= 2.2250738585072014e-308 and \
                    xp / max(a['pl'], a['pr']) < 1e-290:
                # the double evaluation of the pressure function forms
                # p*/p_k: next to the bottom of the double range that ratio
                # is a denormal with a few significant bits, and the
                # rounding model of the bound below does not hold
                labels.append('residual_skipped:ratio_near_underflow')
                continue
            fl, fdl = toro_f(xp, a['rhol'], a['pl'], a['gamma'])
            fr, fdr = toro_f(xp, a['rhor'], a['pr'], a['gamma'])
            resid = abs(fl + fr + (mp.mpf(a['ur']) - mp.mpf(a['ul'])))
            mag = abs(fl) + abs(fr) + abs(a['ur']) + abs(a['ul']) + \
                2 * (cl + cr) / (a['gamma'] - 1)
            bound = 10 * a['tol'] * xp * (fdl + fdr)
            if which != 'mp':
                bound += 64 * EPSM * mag
            else:
                bound += mp.mpf('1e-40') * mag
            labels.append('residual_checked')
            if which == 'transpiled':
                labels.append('residual_checked:transpiled')
            if resid > bound:
                F('residual', '%s run: f_l+f_r+du = %s at p*=%s exceeds %s '
                  '(tol=%g)' % (which, mp.nstr(resid, 6), mp.nstr(xp, 17),
                                mp.nstr(bound, 6), a['tol']), run=which)
            ustar = (mp.mpf(a['ul']) + mp.mpf(a['ur']) + fr - fl) / 2
            ut = mp.mpf(1e-9) * mag if which != 'mp' else \
                mp.mpf('1e-30') * mag
            if abs(ustar - xu) > ut + 10 * a['tol'] * mag:
                F('ustar', '%s run: u*=%s but 0.5(ul+ur+fr-fl)=%s' % (
                    which, mp.nstr(xu, 17), mp.nstr(ustar, 17)), run=which)
    if rc == 0:
        labels.append('ok:' + name)
    nontrivial = rc == 0 and (a['pl'] != a['pr'] or a['ul'] != a['ur'])
    return fails, labels, nontrivial


def execute(case):
    fails, labels, nt = check(case)
    return Outcome(fails, sorted(set(labels)), nt)


def plan(ctx):
    n = 20000 if ctx['tier'] == 'quick' else 2000000
    k = 16
    # compile the probe equation once, before the shards start (they then
    # all load the cached module)
    import os
    import subprocess
    import sys
    try:
        subprocess.run([sys.executable, '-c',
                        'from checks.c15_riemann import evaluator; '
                        'evaluator()'],
                       cwd=os.path.dirname(os.path.dirname(
                           os.path.abspath(__file__))), timeout=900,
                       stdout=subprocess.DEVNULL, stderr=subprocess.DEVNULL)
    except Exception:
        pass
    return [dict(name='riemann-%02d' % i, max_examples=n // k)
            for i in range(k)]


def run_shard(spec, ctx):
    stats = Stats()
    search(case_strategy(), execute,
           derive_seed(ctx.seed, 'C15', spec['name']),
           spec['max_examples'], stats, shrink=True)
    return stats.result()


def run_case(case, component, ctx):
    fails, _, _ = check(case)
    return [f.as_dict(case) for f in fails]
