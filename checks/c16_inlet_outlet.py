"""C16 - inlets and outlets move each particle across exactly once.

For each of the five shipped inlet/outlet families the arrays are prepared
the way the family documents (its manager's add_io_properties, ghosts from
create_ghost), the updaters come from InletOutletManager.get_inlet_outlet and
are driven through generated histories of

    advect every array by u*dt ; inlet.update(t, dt, stage) ;
    outlet.update(t, dt, stage)

A reference model, written from the documented zone rule (signed distance to
the interface plane, IOEvaluate docstring) and working on uid-tracked records,
predicts the three arrays after every update call; the real arrays are
compared with it as keyed multisets of whole records.
"""
import importlib
import math
import os
import subprocess
import sys

import numpy as np
from hypothesis import strategies as st

from vlib.hyp import Failure, Outcome, Stats, search, derive_seed

VERIF = os.path.dirname(os.path.dirname(os.path.abspath(__file__)))

RULE = ('history = family (donothing, mirror, hybrid, characteristic, '
        'mod_donothing) x dim 1-3 x flow direction (axis aligned or oblique) '
        'x outlet normal (same or a different oblique direction) x spacing x '
        'inlet/outlet zone length 1-6 layers x transverse lattice x gap and '
        'initial fluid x per-particle velocities of both signs x ghosts on/'
        'off x props_to_copy (documented list / None) x active_stages, then '
        '1-40 steps (fraction of a zone length advanced, stage, optional '
        'sign flip of a residue class of the velocities).  The arrays carry a '
        'unique uid and a stamp written by the harness before every update, '
        'so a fluid copy is identified by (uid, stamp).  Non-trivial = some '
        'update in which >= 2 particles change array together, or a particle '
        'that crossed an interface is later found back on the side it came '
        'from; distinct by case hash.')
ASSUMPTIONS = [
    'between two active updates no particle advances by a full zone length '
    '(|u*dt| summed over inactive stages < 0.95 * shortest zone length)',
    'after advection particles are nudged out of the +-1e-5 band around the '
    'zone thresholds (disp = 0 for the inlet and the fluid, disp = length '
    'for the outlet); IOEvaluate itself uses 1e-6',
    'inlet, fluid, outlet (and ghost) arrays have identical property sets '
    '(extract_particles documents that the destination must have the '
    'properties); the outlet array is not empty when the manager evaluates '
    'the zone length; fluid particles stay within 1000 units of the outlet '
    'plane (IOEvaluate default maxdist)',
    'ioid and disp are scratch properties and are not compared; only '
    'props_to_copy are compared on the outlet when a list is given',
    'a history stops (label stop_nnps_degenerate) before an update whose '
    'evaluator would see all its particles at one point in dim < 3: '
    'LinkedListNNPS overruns its head array there (a C01 finding)',
    'positions are compared to 1e-9 (absolute, scaled by max(1,|x|)), every '
    'other property exactly',
    'the auto-numbered Group names are reset before each evaluator is '
    'created (pysph.sph.equation.group_counter), so that the generated '
    'source - and therefore the cached JIT module - is the same for every '
    'history of a family',
]
ESSENTIAL_LABELS = {'all': ['recycle', 'multi_cross', 'to_outlet',
                            'outlet_delete', 'return', 'inactive_stage',
                            'oblique', 'axis', 'dim1', 'dim2', 'dim3',
                            'copy_all', 'copy_list', 'ghosts', 'long_step',
                            'fluid_starts_empty']}
SHARD_TIMEOUT = {'quick': 1500, 'thorough': 6 * 3600}

FAMILIES = ['donothing', 'mirror', 'hybrid', 'characteristic',
            'mod_donothing']
# the list flow_past_cylinder_2d.py documents, plus the identity props and
# one strided property
COPY_BASE = ['x0', 'y0', 'z0', 'uhat', 'vhat', 'what', 'x', 'y', 'z', 'u',
             'v', 'w', 'm', 'h', 'rho', 'p', 'ioid', 'uid', 'stamp', 'Bp']
COPY_EXTRA = {'hybrid': ['uta', 'pta', 'u0', 'v0', 'w0', 'p0']}
# properties the EDAC scheme would have added before add_io_properties
EXTRA_PROPS = {'hybrid': ['u0', 'v0', 'w0', 'p0']}
SCRATCH = ('ioid', 'disp')
EPS_IO = 0.000001          # IOEvaluate's threshold
BAND = 1e-5
FLUID_MAXDIST = 1000.0

DIRS = {
    1: [[1, 0, 0], [-1, 0, 0]],
    2: [[1, 0, 0], [-1, 0, 0], [0, 1, 0], [0, -1, 0], [1, 1, 0], [3, 4, 0],
        [-2, 1, 0], [1, -3, 0], [-4, -3, 0]],
    3: [[1, 0, 0], [0, 0, -1], [0, 1, 0], [0, 0, 1], [-1, 0, 0], [1, 1, 1],
        [1, 2, 2], [-2, 3, 6], [0, 3, -4], [-1, -1, 2]],
}


# ------------------------------------------------------------- strategy
@st.composite
def step_strategy(draw):
    return dict(
        frac=draw(st.sampled_from([0.5, 0.25, 0.9, 0.125, 0.7, 0.5, 0.25,
                                   1.6, 2.4])),
        stage=draw(st.sampled_from([2, 2, 2, 1, 3])),
        flip=draw(st.sampled_from([None, None, None, [2, 0], [2, 1], [3, 1],
                                   [1, 0]])))


@st.composite
def case_strategy(draw, family):
    dim = draw(st.sampled_from([2, 1, 3]))
    dirs = DIRS[dim]
    d = draw(st.sampled_from(dirs))
    od = draw(st.sampled_from([None, None] + dirs))
    nt = [1, 1]
    if dim >= 2:
        nt[0] = draw(st.integers(1, 4))
    if dim == 3:
        nt[1] = draw(st.integers(1, 3))
    case = dict(
        family=family, dim=dim, dir=d, odir=od,
        dx=draw(st.sampled_from([0.1, 0.05, 0.25, 1.0, 0.3])),
        nl_in=draw(st.integers(1, 6)), nl_out=draw(st.integers(1, 6)),
        nt=nt,
        gap=draw(st.sampled_from([1.0, 0.5, 2.0, 3.5])),
        fluid0=draw(st.integers(0, 3)),
        ref=[draw(st.integers(-3, 3)) for _ in range(3)],
        hfac=draw(st.sampled_from([1.5, 1.2, 2.0])),
        speeds=draw(st.lists(st.sampled_from([1.0, 1.0, 0.5, 0.75, -0.5,
                                              0.0, 0.25, -1.0]),
                             min_size=1, max_size=5)),
        trans=draw(st.lists(st.sampled_from([0.0, 0.0, 0.5, -0.5]),
                            min_size=1, max_size=3)),
        active=draw(st.sampled_from([[2], [1], [1, 2], [1, 2, 3], [2, 3]])),
        ghosts=draw(st.booleans()),
        copy_all=draw(st.booleans()),
        callback=draw(st.booleans()),
        steps=draw(st.lists(step_strategy(), min_size=1, max_size=40)))
    return case


# ------------------------------------------------------------- geometry
def _unit(v):
    n = math.sqrt(sum(c * c for c in v))
    return [c / n for c in v]


def _cross(a, b):
    return [a[1] * b[2] - a[2] * b[1], a[2] * b[0] - a[0] * b[2],
            a[0] * b[1] - a[1] * b[0]]


def basis(d, dim):
    """orthonormal (d, t1, t2) with the transverse vectors inside the
    first `dim` axes"""
    d = _unit(d)
    if dim == 1:
        return d, [0.0, 0.0, 0.0], [0.0, 0.0, 0.0]
    if dim == 2:
        return d, [-d[1], d[0], 0.0], [0.0, 0.0, 0.0]
    k = min(range(3), key=lambda i: abs(d[i]))
    e = [0.0, 0.0, 0.0]
    e[k] = 1.0
    t1 = _unit(_cross(d, e))
    t2 = _cross(d, t1)
    return d, t1, t2


def is_axis(d):
    return sum(1 for c in d if c != 0) == 1


def geometry(case):
    dim, dx = case['dim'], case['dx']
    d, t1, t2 = basis(case['dir'], dim)
    od = case.get('odir')
    if od is not None:
        ou = _unit(od)
        if sum(a * b for a, b in zip(ou, d)) < 0.35:
            od = None
    odv = case['dir'] if od is None else od
    o, ot1, ot2 = basis(odv, dim)
    ri = [case['ref'][i] * 0.7 * dx if i < dim else 0.0 for i in range(3)]
    ro = [ri[i] + d[i] * case['gap'] * dx for i in range(3)]
    return dict(d=d, t1=t1, t2=t2, ni=[-c for c in d], no=o, ot1=ot1,
                ot2=ot2, ri=ri, ro=ro, odir_diff=od is not None,
                oblique_in=not is_axis(case['dir']),
                oblique_out=not is_axis(odv))


def block(origin, normal, t1, t2, nl, nt, dx, sign=1.0):
    """nl layers of nt[0] x nt[1] particles; layer k sits (k+0.5)dx from
    the plane through `origin` along sign*normal"""
    pts = []
    for k in range(nl):
        for i in range(nt[0]):
            for j in range(nt[1]):
                a = (k + 0.5) * dx * sign
                b = (i - (nt[0] - 1) / 2.0) * dx
                c = (j - (nt[1] - 1) / 2.0) * dx
                pts.append([origin[q] + a * normal[q] + b * t1[q] + c * t2[q]
                            for q in range(3)])
    return np.array(pts, dtype=float).reshape(-1, 3)


# ------------------------------------------------------------ the model
class MArr(object):
    """Record model of one particle array: prop -> (n, stride) ndarray."""

    def __init__(self, cols):
        self.c = cols

    @property
    def n(self):
        return self.c['uid'].shape[0]

    def take(self, idx):
        return MArr(dict((k, v[idx].copy()) for k, v in self.c.items()))

    def append(self, other):
        for k in self.c:
            self.c[k] = np.concatenate([self.c[k], other.c[k]], axis=0)

    def keep(self, mask):
        for k in self.c:
            self.c[k] = self.c[k][mask]

    def pos(self):
        return np.concatenate([self.c['x'], self.c['y'], self.c['z']],
                              axis=1)

    def disp(self, ref, nrm):
        # the expression of IOEvaluate.loop
        return ((self.c['x'][:, 0] - ref[0]) * nrm[0] +
                (self.c['y'][:, 0] - ref[1]) * nrm[1] +
                (self.c['z'][:, 0] - ref[2]) * nrm[2])

    def shift(self, mask, vec):
        for q, k in enumerate('xyz'):
            self.c[k][mask, 0] += vec[q]


def read_array(pa):
    n = pa.get_number_of_particles()
    cols = {}
    for name in pa.properties:
        a = pa.get_carray(name).get_npy_array()
        s = pa.stride.get(name, 1)
        if a.shape[0] != n * s:
            raise ValueError('property %s of %s has %d values for %d '
                             'particles (stride %d)' % (name, pa.name,
                                                        a.shape[0], n, s))
        cols[name] = a.reshape(n, s).copy()
    return MArr(cols)


def keys_of(m):
    return list(zip(m.c['uid'][:, 0].tolist(), m.c['stamp'][:, 0].tolist()))


def compare(model, real, props, what):
    """-> None or (kind, detail).  Keyed multiset comparison."""
    mk, rk = keys_of(model), keys_of(real)
    if len(mk) != len(rk):
        return ('count', '%s: expected %d particles, found %d; expected '
                'keys (uid, stamp) %s, found %s' % (
                    what, len(mk), len(rk), sorted(mk)[:40],
                    sorted(rk)[:40]))
    if sorted(mk) != sorted(rk):
        miss = sorted(set(mk) - set(rk))
        extra = sorted(set(rk) - set(mk))
        dup = sorted(set(k for k in rk if rk.count(k) > mk.count(k)))
        return ('identity', '%s: missing %s, unexpected %s, duplicated %s'
                % (what, miss[:20], extra[:20], dup[:20]))
    mo = sorted(range(len(mk)), key=lambda i: mk[i])
    ro = sorted(range(len(rk)), key=lambda i: rk[i])
    for p in props:
        a = model.c[p][mo]
        b = real.c[p][ro]
        if p in ('x', 'y', 'z'):
            tol = 1e-9 * np.maximum(1.0, np.abs(a))
            bad = ~(np.abs(a - b) <= tol)
        else:
            bad = ~(a == b)
        if bad.any():
            i = int(np.argwhere(bad)[0][0])
            return ('values', '%s: particle (uid, stamp)=%s property %s: '
                    'expected %s, found %s' % (
                        what, mk[mo[i]], p, a[i].tolist(), b[i].tolist()))
    return None


def order_like(model, real):
    """re-order the model rows into the order of the (verified equal) real
    array"""
    mk, rk = keys_of(model), keys_of(real)
    pos = {}
    for i, k in enumerate(mk):
        pos.setdefault(k, []).append(i)
    idx = [pos[k].pop() for k in rk]
    model.keep(np.array(idx, dtype=int))


# ------------------------------------------------------- family set-up
def family_classes(fam):
    base = 'pysph.sph.bc.%s.' % fam
    M = importlib.import_module(base + 'simple_inlet_outlet').SimpleInletOutlet
    I = importlib.import_module(base + 'inlet').Inlet
    O = importlib.import_module(base + 'outlet').Outlet
    return M, I, O


def reset_group_names():
    # Group names are auto-numbered from a module-level counter and end up
    # in the generated source; restart it so that every evaluator of a
    # family yields the same source (one JIT compile, then the cache)
    import pysph.sph.equation as E
    E.group_counter = E._counter()


def fill_values(pa, uid0):
    """deterministic, particle-specific values for every property the
    harness does not otherwise own"""
    n = pa.get_number_of_particles()
    uid = np.arange(uid0, uid0 + n, dtype=np.int64)
    pa.get_carray('uid').get_npy_array()[:] = uid
    pa.get_carray('stamp').get_npy_array()[:] = -1
    own = set(['x', 'y', 'z', 'u', 'v', 'w', 'h', 'tag', 'gid', 'pid',
               'uid', 'stamp'])
    for k, name in enumerate(sorted(pa.properties)):
        if name in own:
            continue
        s = pa.stride.get(name, 1)
        a = pa.get_carray(name).get_npy_array()
        if a.dtype.kind != 'f':
            continue
        vals = (k + 1) * 1000.0 + uid[:, None] + np.arange(s)[None, :] / 64.0
        a[:] = vals.reshape(-1)
    return uid0 + n


class Setup(object):
    pass


def build(case):
    """Prepare the arrays and the updaters the way the family documents."""
    from pysph.base.utils import get_particle_array
    from pysph.base.kernels import QuinticSpline
    from pysph.sph.bc.inlet_outlet_manager import InletInfo, OutletInfo
    fam, dim, dx = case['family'], case['dim'], case['dx']
    g = geometry(case)
    M, I, O = family_classes(fam)
    S = Setup()
    S.g = g
    h = case['hfac'] * dx
    xi = block(g['ri'], g['ni'], g['t1'], g['t2'], case['nl_in'],
               case['nt'], dx)
    xo = block(g['ro'], g['no'], g['ot1'], g['ot2'], case['nl_out'],
               case['nt'], dx)
    nfl = [k for k in range(case['fluid0']) if k + 0.5 < case['gap']]
    if nfl:
        xf = block(g['ri'], g['d'], g['t1'], g['t2'], len(nfl), case['nt'],
                   dx)
    else:
        xf = np.zeros((0, 3))

    def mk(name, pts):
        if len(pts) == 0:
            # scalars next to an empty x would make one particle at 0
            return get_particle_array(name=name)
        return get_particle_array(name=name, x=pts[:, 0], y=pts[:, 1],
                                  z=pts[:, 2], h=h, m=1.0, rho=1.0)
    inlet, fluid, outlet = mk('inlet', xi), mk('fluid', xf), mk('outlet', xo)
    p2c = None if case['copy_all'] else COPY_BASE + COPY_EXTRA.get(fam, [])
    gi = bool(case['ghosts'])
    go = bool(case['ghosts']) and fam == 'mirror'
    ii = InletInfo('inlet', normal=list(g['ni']), refpoint=list(g['ri']),
                   has_ghost=gi, update_cls=I)
    oi = OutletInfo('outlet', normal=list(g['no']), refpoint=list(g['ro']),
                    has_ghost=go, update_cls=O, props_to_copy=p2c)
    iom = M(fluid_arrays=['fluid'], inletinfo=[ii], outletinfo=[oi])
    iom.active_stages = list(case['active'])
    iom.setup_iom(dim=dim, kernel=QuinticSpline(dim=dim))
    iom.update_dx(dx)
    # velocities before the ghosts are made (create_ghost copies u)
    main = [inlet, fluid, outlet]
    uid0 = 0
    sp, tr = case['speeds'], case['trans']
    for pa in main:
        n = pa.get_number_of_particles()
        uid = np.arange(uid0, uid0 + n)
        uid0 += n
        f = np.array([sp[i % len(sp)] for i in uid], dtype=float)
        a = np.array([tr[i % len(tr)] for i in uid], dtype=float)
        b = np.array([tr[(i // 2) % len(tr)] for i in uid], dtype=float)
        for q, nm in enumerate('uvw'):
            pa.get_carray(nm).get_npy_array()[:] = (
                f * g['d'][q] + a * g['t1'][q] + b * g['t2'][q])
    arrays = dict(inlet=inlet, fluid=fluid, outlet=outlet)
    ghost_in = iom.create_ghost(inlet, inlet=True)
    ghost_out = iom.create_ghost(outlet, inlet=False)
    for gp in (ghost_in, ghost_out):
        if gp is not None:
            arrays[gp.name] = gp
    for pa in arrays.values():
        for nm in EXTRA_PROPS.get(fam, []):
            pa.add_property(nm)
        iom.add_io_properties(pa)
        pa.add_property('uid', type='long')
        pa.add_property('stamp', type='long')
    uid0 = 0
    for pa in main:
        uid0 = fill_values(pa, uid0)
    if ghost_in is not None:
        ghost_in.get_carray('uid').get_npy_array()[:] = \
            inlet.get_carray('uid').get_npy_array()
    if ghost_out is not None:
        ghost_out.get_carray('uid').get_npy_array()[:] = \
            outlet.get_carray('uid').get_npy_array()
        ghost_out.get_carray('stamp').get_npy_array()[:] = -1
    S.arrays = arrays
    S.iom, S.ii, S.oi = iom, ii, oi
    S.p2c = p2c
    S.updaters = iom.get_inlet_outlet(arrays)
    S.inlet_upd, S.outlet_upd = S.updaters
    return S


# -------------------------------------------------------- one history
def comp_name(case, which):
    return '%s.%s' % (case['family'], which)


def degenerate(dim, *marrs):
    if dim >= 3:
        return False
    pts = [m.pos() for m in marrs if m.n]
    if not pts:
        return False
    p = np.concatenate(pts, axis=0)
    return bool(np.all(p.max(axis=0) - p.min(axis=0) < 1e-12))


def nudge(m, ref, nrm, thr):
    """move particles out of the band around disp = thr (along nrm)"""
    if not m.n:
        return 0
    d = m.disp(ref, nrm)
    inband = np.abs(d - thr) < BAND
    if not inband.any():
        return 0
    s = np.where(d - thr >= 0, 1.0, -1.0)
    delta = (thr + 2.5 * BAND * s) - d
    for q, k in enumerate('xyz'):
        m.c[k][inband, 0] += delta[inband] * nrm[q]
    return int(inband.sum())


def run_history(case):
    """-> (failures, labels, nontrivial)"""
    fam, dim, dx = case['family'], case['dim'], case['dx']
    labels = set([fam, 'dim%d' % dim])
    fails = []
    kl = dict(family=fam)

    def fail(comp, kind, detail, **extra):
        k = dict(kl)
        k.update(extra)
        fails.append(Failure(comp, kind, detail, k))
        return fails, sorted(labels), False

    try:
        S = build(case)
    except Exception as ex:
        return fail('InletOutletManager.get_inlet_outlet', 'exception',
                    repr(ex))
    g = S.g
    labels.add('oblique' if (g['oblique_in'] or g['oblique_out'])
               else 'axis')
    if g['odir_diff']:
        labels.add('odir_diff')
    labels.add('copy_all' if case['copy_all'] else 'copy_list')
    if case['ghosts']:
        labels.add('ghosts')
    pas = S.arrays
    inlet, fluid, outlet = pas['inlet'], pas['fluid'], pas['outlet']
    if fluid.get_number_of_particles() == 0:
        labels.add('fluid_starts_empty')

    # zone lengths as evaluated by the manager vs the geometric ones
    Li_geo, Lo_geo = case['nl_in'] * dx, case['nl_out'] * dx
    Li, Lo = float(S.ii.length), float(S.oi.length)
    for nm, L, Lg, obl in (('inlet', Li, Li_geo, g['oblique_in']),
                           ('outlet', Lo, Lo_geo, g['oblique_out'])):
        if not abs(L - Lg) <= 1e-9 * max(1.0, Lg):
            fails.append(Failure(
                'InletOutletManager.zone_length', 'zone_length',
                '%s zone of %d layers of spacing %s along normal %s is %s '
                'long; the manager evaluated length=%s' % (
                    nm, round(Lg / dx), dx,
                    g['ni'] if nm == 'inlet' else g['no'], Lg, L),
                dict(normal='oblique' if obl else 'axis')))
    # the model follows the length the updaters use
    Ls = [v for v in (Li, Lo, Li_geo, Lo_geo) if v > 1e-3 * dx]
    Lmin = min(Ls)

    all_props = [p for p in inlet.properties if p not in SCRATCH]
    out_props = all_props if S.p2c is None else \
        [p for p in S.p2c if p not in SCRATCH]
    mI, mF, mO = read_array(inlet), read_array(fluid), read_array(outlet)
    mO.c['_moved'] = np.zeros((mO.n, 1))
    n0 = mF.n
    n_inlet0 = mI.n
    vmax = 0.0
    for m in (mI, mF, mO):
        if m.n:
            v2 = m.c['u'][:, 0] ** 2 + m.c['v'][:, 0] ** 2 + \
                m.c['w'][:, 0] ** 2
            vmax = max(vmax, float(np.sqrt(v2.max())))
    if vmax < 1e-9:
        vmax = 1.0
    calls = []
    if case['callback']:
        def cb_in(d, i):
            calls.append(('inlet', d is fluid, i is inlet,
                          d.get_number_of_particles(),
                          i.get_number_of_particles()))

        def cb_out(s, o):
            calls.append(('outlet', s is fluid, o is outlet,
                          s.get_number_of_particles(),
                          o.get_number_of_particles()))
        S.inlet_upd.callback = cb_in
        S.outlet_upd.callback = cb_out
        labels.add('callback')

    entered = left = 0
    t = 0.0
    cum = 0.0
    max_cross = 0
    returned = False

    def write_back():
        for pa, m in ((inlet, mI), (fluid, mF), (outlet, mO)):
            for nm in ('x', 'y', 'z', 'u', 'v', 'w', 'p', 'stamp'):
                pa.get_carray(nm).get_npy_array()[:] = m.c[nm][:, 0]

    def verify(comp, after):
        """compare the three arrays; returns failure triple or None"""
        try:
            rI, rF, rO = read_array(inlet), read_array(fluid), \
                read_array(outlet)
        except ValueError as ex:
            return fail(comp, 'array_incoherent', str(ex))
        for nm, m, r, props in (('inlet', mI, rI, all_props),
                                ('fluid', mF, rF, all_props),
                                ('outlet', mO, rO, out_props)):
            res = compare(m, r, props, '%s array after %s' % (nm, after))
            if res is not None:
                return fail(comp, '%s_%s' % (nm, res[0]), res[1])
        if rI.n != n_inlet0:
            return fail(comp, 'inlet_count', 'inlet has %d particles, '
                        'started with %d' % (rI.n, n_inlet0))
        if rF.n != n0 + entered - left:
            return fail(comp, 'bookkeeping', 'fluid has %d particles; '
                        'initial %d + entered %d - left %d' % (
                            rF.n, n0, entered, left))
        for gname, owner in (('ghost_inlet', rI), ('ghost_outlet', rO)):
            gp = pas.get(gname)
            if gp is None:
                continue
            ng = gp.get_number_of_particles()
            if ng != owner.n:
                return fail(comp, 'ghost_count', '%s has %d particles, its '
                            'owner %d' % (gname, ng, owner.n))
            if gname == 'ghost_outlet':
                gk = sorted(zip(gp.uid.tolist(), gp.stamp.tolist()))
                if gk != sorted(keys_of(owner)):
                    return fail(comp, 'ghost_identity', 'ghost_outlet '
                                'holds %s, outlet %s' % (
                                    gk[:30], sorted(keys_of(owner))[:30]))
        order_like(mI, rI)
        order_like(mF, rF)
        order_like(mO, rO)
        return None

    for k, st_ in enumerate(case['steps']):
        stage = st_['stage']
        active = stage in case['active']
        # ---- advect (model first, then written to the arrays)
        flip = st_.get('flip')
        if flip:
            labels.add('flip')
        if st_['frac'] > 1.0:
            # a long step: the fastest particles advance by more than the
            # shortest zone length between two updates (the statement
            # quantifies over all step sizes)
            frac = st_['frac']
            labels.add('long_step')
        else:
            frac = min(st_['frac'], max(0.0, 0.95 - cum))
        cum += frac
        dt = frac * Lmin / vmax
        for m in (mI, mF, mO):
            if not m.n:
                continue
            if flip:
                sel = (m.c['uid'][:, 0] % flip[0]) == flip[1]
                for nm in 'uvw':
                    m.c[nm][sel, 0] *= -1.0
            m.c['x'][:, 0] += m.c['u'][:, 0] * dt
            m.c['y'][:, 0] += m.c['v'][:, 0] * dt
            m.c['z'][:, 0] += m.c['w'][:, 0] * dt
            m.c['p'][:, 0] += 1.0
        mI.c['stamp'][:, 0] = k
        for _ in range(3):
            nn = nudge(mI, g['ri'], g['ni'], 0.0)
            nn += nudge(mI, g['ri'], g['ni'], Li)
            nn += nudge(mF, g['ro'], g['no'], 0.0)
            nn += nudge(mO, g['ro'], g['no'], Lo)
            if not nn:
                break
            labels.add('nudged')
        write_back()
        for gname in ('ghost_inlet', 'ghost_outlet'):
            gp = pas.get(gname)
            if gp is not None and gp.get_number_of_particles():
                gp.x[:] = gp.x + gp.u * dt
        t += dt
        if mF.n and np.abs(mF.disp(g['ro'], g['no'])).max() > 900.0:
            labels.add('stop_far')
            break

        # ---- inlet.update
        if active and degenerate(dim, mI, mF):
            labels.add('stop_nnps_degenerate')
            break
        del calls[:]
        if S.inlet_upd.io_eval is None:
            reset_group_names()
        try:
            S.inlet_upd.update(t, dt, stage)
        except Exception as ex:
            return fail(comp_name(case, 'Inlet'), 'exception', repr(ex))
        ncross_in = 0
        if active:
            di = mI.disp(g['ri'], g['ni'])
            cross = ~(di > EPS_IO)
            ncross_in = int(cross.sum())
            if mF.n and (mF.c['stamp'][:, 0] >= 0).any():
                back = (mF.c['stamp'][:, 0] >= 0) & \
                    (mF.disp(g['ri'], g['ni']) > EPS_IO)
                if back.any():
                    returned = True
            if ncross_in:
                labels.add('recycle')
                mF.append(mI.take(np.where(cross)[0]))
                mI.shift(cross, [Li * c for c in g['ni']])
                entered += ncross_in
        else:
            labels.add('inactive_stage')
        res = verify(comp_name(case, 'Inlet'),
                     'inlet.update #%d (stage %d, %s)' % (
                         k, stage, 'active' if active else 'inactive'))
        if res is not None:
            return res
        if case['callback'] and active:
            want = [('inlet', True, True, mF.n, mI.n)]
            if calls != want:
                return fail(comp_name(case, 'Inlet'), 'callback',
                            'callback calls %r, expected %r' % (calls, want))

        # ---- outlet.update
        if active and degenerate(dim, mO, mF):
            labels.add('stop_nnps_degenerate')
            break
        del calls[:]
        if S.outlet_upd.io_eval is None:
            reset_group_names()
        try:
            S.outlet_upd.update(t, dt, stage)
        except Exception as ex:
            return fail(comp_name(case, 'Outlet'), 'exception', repr(ex))
        nmove = ndel = 0
        if active:
            cum = 0.0
            if mO.n:
                do = mO.disp(g['ro'], g['no'])
                if ((mO.c['_moved'][:, 0] > 0) & ~(do > EPS_IO)).any():
                    returned = True
                dele = (do - Lo) > EPS_IO
                ndel = int(dele.sum())
                if ndel:
                    labels.add('outlet_delete')
                    mO.keep(~dele)
            if mF.n:
                df = mF.disp(g['ro'], g['no'])
                move = (df > EPS_IO) & ((df - FLUID_MAXDIST) < EPS_IO)
                nmove = int(move.sum())
                if nmove:
                    labels.add('to_outlet')
                    add = mF.take(np.where(move)[0])
                    add.c['_moved'] = np.ones((add.n, 1))
                    for p in add.c:
                        if p not in out_props and p != '_moved' and \
                                add.c[p].dtype.kind == 'f':
                            add.c[p][:] = np.nan
                    mO.append(add)
                    mF.keep(~move)
                    left += nmove
        res = verify(comp_name(case, 'Outlet'),
                     'outlet.update #%d (stage %d, %s)' % (
                         k, stage, 'active' if active else 'inactive'))
        if res is not None:
            return res
        if case['callback'] and active:
            want = [('outlet', True, True, mF.n, mO.n)]
            if calls != want:
                return fail(comp_name(case, 'Outlet'), 'callback',
                            'callback calls %r, expected %r' % (calls, want))
        max_cross = max(max_cross, ncross_in, nmove, ndel)
    if max_cross >= 2:
        labels.add('multi_cross')
    if returned:
        labels.add('return')
    nontrivial = (max_cross >= 2 or returned) and not fails
    return fails, sorted(labels), nontrivial


def execute(case):
    fails, labels, nt = run_history(case)
    return Outcome(fails, labels, nt)


# ------------------------------------------------------- entry points
def warm_case(fam):
    return dict(family=fam, dim=1, dir=[1, 0, 0], odir=None, dx=0.1,
                nl_in=2, nl_out=2, nt=[1, 1], gap=1.0, fluid0=1,
                ref=[0, 0, 0], hfac=1.5, speeds=[1.0], trans=[0.0],
                active=[2], ghosts=True, copy_all=False, callback=False,
                steps=[dict(frac=0.5, stage=2, flip=None)])


def warm(fam):
    run_history(warm_case(fam))


PER_FAMILY = 3


def plan(ctx):
    quick = ctx['tier'] == 'quick'
    n = 60 if quick else 5000
    # compile the two evaluators of each family once, before the shards
    # start (they then all load the cached modules)
    procs = []
    for fam in FAMILIES:
        try:
            procs.append(subprocess.Popen(
                [sys.executable, '-c',
                 'from checks.c16_inlet_outlet import warm; warm(%r)' % fam],
                cwd=VERIF, stdout=subprocess.DEVNULL,
                stderr=subprocess.DEVNULL))
        except Exception:
            pass
    for p in procs:
        try:
            p.wait(timeout=1200)
        except Exception:
            p.kill()
    specs = []
    for fam in FAMILIES:
        for i in range(PER_FAMILY):
            specs.append(dict(name='%s-%d' % (fam, i), family=fam,
                              max_examples=-(-n // PER_FAMILY),
                              component='%s.Inlet/Outlet' % fam,
                              klass=dict(family=fam)))
    return specs


def run_shard(spec, ctx):
    stats = Stats()
    search(case_strategy(spec['family']), execute,
           derive_seed(ctx.seed, 'C16', spec['name']),
           spec['max_examples'], stats, shrink=True, journal=ctx.journal)
    return stats.result()


def run_case(case, component, ctx):
    fails, _, _ = run_history(case)
    return [f.as_dict(case) for f in fails]
