"""C16 - inlets and outlets move each particle across exactly once.

For each of the five shipped inlet/outlet families the arrays are prepared
the way the family documents (its manager's add_io_properties, ghosts from
create_ghost), the updaters come from InletOutletManager.get_inlet_outlet and
are driven through generated histories of

    advect every array by u*dt ; inlet.update(t, dt, stage) ;
    outlet.update(t, dt, stage)

A reference model, written from the documented zone rule (signed distance to
the interface plane, IOEvaluate docstring) and working on uid-tracked records,
predicts the three arrays after every update call; the real arrays are
compared with it as keyed multisets of whole records.
"""
import importlib
import math
import os
import subprocess
import sys

import numpy as np
from hypothesis import strategies as st

from vlib.hyp import Failure, Outcome, Stats, search, derive_seed

VERIF = os.path.dirname(os.path.dirname(os.path.abspath(__file__)))

RULE = ('history = family (donothing, mirror, hybrid, characteristic, '
        'mod_donothing) x dim 1-3 x flow direction (axis aligned or oblique) '
        'x outlet normal (same or a different oblique direction) x spacing x '
        'inlet/outlet zone length 1-6 layers x transverse lattice x gap and '
        'initial fluid x per-particle velocities of both signs x ghosts on/'
        'off x props_to_copy (documented list / None) x active_stages, then '
        '1-40 steps (fraction of a zone length advanced, stage, optional '
        'sign flip of a residue class of the velocities; fraction 0 = an '
        'update repeated without movement) x optional second inlet and/or '
        'outlet of the same manager (own direction, lengths, offset; same '
        'fluid) x updaters from get_inlet_outlet or built directly from the '
        'classes (with the given or the default active_stages, callback as '
        'constructor argument, zone length set by hand, outlet array '
        'possibly empty at the start) x update_cls given or None (base '
        'classes) x '
        'props_to_copy None / documented list / that list without a drawn '
        'subset.  The arrays carry a '
        'unique uid and a stamp written by the harness before every update, '
        'so a fluid copy is identified by (uid, stamp).  Non-trivial = some '
        'update in which >= 2 particles change array together, or a particle '
        'that crossed an interface is later found back on the side it came '
        'from; distinct by case hash.')
ASSUMPTIONS = [
    'between two active updates no particle advances by a full zone length '
    '(|u*dt| summed over inactive stages < 0.95 * shortest zone length)',
    'after advection particles are nudged out of the +-1e-5 band around the '
    'zone thresholds (disp = 0 for the inlet and the fluid, disp = length '
    'for the outlet); IOEvaluate itself uses 1e-6',
    'inlet, fluid, outlet (and ghost) arrays have identical property sets '
    '(extract_particles documents that the destination must have the '
    'properties); the outlet array is not empty when the manager evaluates '
    'the zone length; fluid particles stay within 1000 units of the outlet '
    'plane (IOEvaluate default maxdist)',
    'ioid and disp are scratch properties and are not compared; only '
    'props_to_copy are compared on the outlet when a list is given',
    'a history stops (label stop_nnps_degenerate) before an update whose '
    'evaluator would see all its particles at one point in dim < 3: '
    'LinkedListNNPS overruns its head array there (a C01 finding)',
    'positions are compared to 1e-9 (absolute, scaled by max(1,|x|)), every '
    'other property exactly',
    'with a second inlet/outlet the updaters run in the order '
    'get_inlet_outlet returns them (inlets, then outlets, each in the order '
    'of the info lists) and the model applies the same half-space rule per '
    'updater, whatever the relative position of the zones; a history stops '
    '(label stop_band) when a fluid particle cannot be nudged out of the '
    'bands of two outlet planes at once',
    'updaters built directly from the classes get the zone length set by '
    'hand (layers x spacing, as the upstream tests do) and, when '
    'active_stages is left out, the documented default [1] (the harness then '
    'swaps stage numbers 1 and 2 of the drawn steps so that the frequent '
    'stage is the active one); an outlet array that starts empty is only '
    'used there and without a ghost outlet (create_ghost of an empty array '
    'is not defined)',
    'update_cls=None selects InletBase/OutletBase; OutletBase does not '
    'maintain a ghost outlet, so none is requested then',
    'the auto-numbered Group names are reset before each evaluator is '
    'created (pysph.sph.equation.group_counter), so that the generated '
    'source - and therefore the cached JIT module - is the same for every '
    'history of a family',
]
ESSENTIAL_LABELS = {'all': ['recycle', 'multi_cross', 'to_outlet',
                            'outlet_delete', 'return', 'inactive_stage',
                            'oblique', 'axis', 'dim1', 'dim2', 'dim3',
                            'copy_all', 'copy_list', 'ghosts', 'long_step',
                            'fluid_starts_empty',
                            'zone2', 'zone2:recycle', 'zone2:to_outlet',
                            'zone2:outlet_delete', 'zone2:ghosts',
                            'no_move_update', 'no_move_after_event',
                            'direct', 'direct_default_stages', 'base_cls',
                            'copy_subset', 'copy_without_ioid',
                            'outlet_emptied', 'into_empty_outlet',
                            'outlet_starts_empty',
                            'fluid_emptied', 'inlet_all_cross'] +
                    ['%s:%s' % (f, e) for f in
                     ('donothing', 'mirror', 'hybrid', 'characteristic',
                      'mod_donothing')
                     for e in ('recycle', 'to_outlet', 'outlet_delete',
                               'multi_cross', 'oblique_recycle')] +
                    ['mirror:ghost_to_outlet', 'mirror:ghost_delete',
                     'hybrid:recycle_distinct_normal']}
SHARD_TIMEOUT = {'quick': 1500, 'thorough': 6 * 3600}

FAMILIES = ['donothing', 'mirror', 'hybrid', 'characteristic',
            'mod_donothing']
# the list flow_past_cylinder_2d.py documents, plus the identity props and
# one strided property
COPY_BASE = ['x0', 'y0', 'z0', 'uhat', 'vhat', 'what', 'x', 'y', 'z', 'u',
             'v', 'w', 'm', 'h', 'rho', 'p', 'ioid', 'uid', 'stamp', 'Bp']
COPY_EXTRA = {'hybrid': ['uta', 'pta', 'u0', 'v0', 'w0', 'p0']}
# properties the EDAC scheme would have added before add_io_properties
EXTRA_PROPS = {'hybrid': ['u0', 'v0', 'w0', 'p0']}
SCRATCH = ('ioid', 'disp')
# entries of the documented copy list that the harness does not need on the
# outlet (it writes x y z u v w p stamp and identifies by uid; h feeds the
# neighbour search of the evaluator)
COPY_DROPPABLE = ['x0', 'y0', 'z0', 'uhat', 'vhat', 'what', 'm', 'rho',
                  'ioid', 'Bp']
EPS_IO = 0.000001          # IOEvaluate's threshold
BAND = 1e-5
FLUID_MAXDIST = 1000.0

DIRS = {
    1: [[1, 0, 0], [-1, 0, 0]],
    2: [[1, 0, 0], [-1, 0, 0], [0, 1, 0], [0, -1, 0], [1, 1, 0], [3, 4, 0],
        [-2, 1, 0], [1, -3, 0], [-4, -3, 0]],
    3: [[1, 0, 0], [0, 0, -1], [0, 1, 0], [0, 0, 1], [-1, 0, 0], [1, 1, 1],
        [1, 2, 2], [-2, 3, 6], [0, 3, -4], [-1, -1, 2]],
}


# ------------------------------------------------------------- strategy
@st.composite
def step_strategy(draw):
    return dict(
        frac=draw(st.sampled_from([0.5, 0.25, 0.9, 0.125, 0.7, 0.5, 0.25,
                                   1.6, 2.4, 0.0, 0.9])),
        stage=draw(st.sampled_from([2, 2, 2, 1, 3])),
        flip=draw(st.sampled_from([None, None, None, [2, 0], [2, 1], [3, 1],
                                   [1, 0]])))


@st.composite
def case_strategy(draw, family):
    dim = draw(st.sampled_from([2, 1, 3]))
    dirs = DIRS[dim]
    # oblique directions twice: they are the minority of the list
    d = draw(st.sampled_from(dirs + [v for v in dirs if not is_axis(v)]))
    od = draw(st.sampled_from([None, None] + dirs))
    nt = [1, 1]
    if dim >= 2:
        nt[0] = draw(st.integers(1, 4))
    if dim == 3:
        nt[1] = draw(st.integers(1, 3))
    case = dict(
        family=family, dim=dim, dir=d, odir=od,
        dx=draw(st.sampled_from([0.1, 0.05, 0.25, 1.0, 0.3])),
        nl_in=draw(st.integers(1, 6)), nl_out=draw(st.integers(1, 6)),
        nt=nt,
        gap=draw(st.sampled_from([1.0, 0.5, 2.0, 3.5])),
        fluid0=draw(st.integers(0, 3)),
        ref=[draw(st.integers(-3, 3)) for _ in range(3)],
        hfac=draw(st.sampled_from([1.5, 1.2, 2.0])),
        speeds=draw(st.lists(st.sampled_from([1.0, 1.0, 0.5, 0.75, -0.5,
                                              0.0, 0.25, -1.0]),
                             min_size=1, max_size=5)),
        trans=draw(st.lists(st.sampled_from([0.0, 0.0, 0.5, -0.5]),
                            min_size=1, max_size=3)),
        active=draw(st.sampled_from([[2], [1], [1, 2], [1, 2, 3], [2, 3]])),
        ghosts=draw(st.sampled_from([True, False, True])),
        copy_all=draw(st.booleans()),
        callback=draw(st.booleans()),
        steps=draw(st.lists(step_strategy(), min_size=1, max_size=40)))
    if draw(st.sampled_from([0, 0, 1, 1, 1])):
        case['zone2'] = dict(
            which=draw(st.sampled_from(['both', 'both', 'inlet', 'outlet'])),
            dir=draw(st.sampled_from(dirs)),
            odir=draw(st.sampled_from([None, None] + dirs)),
            nl_in=draw(st.integers(1, 4)), nl_out=draw(st.integers(1, 4)),
            gap=draw(st.sampled_from([1.0, 0.5, 2.0])),
            off=[draw(st.integers(-8, 8)) for _ in range(3)],
            first=draw(st.booleans()))
    else:
        case['zone2'] = None
    case['construct'] = draw(st.sampled_from(
        ['manager', 'manager', 'direct', 'direct_defaults']))
    case['base_cls'] = draw(st.sampled_from([False, False, False, True]))
    # (direct construction only) the outlet array starts empty and the zone
    # length is set by hand, as in the upstream tests
    case['empty_outlet'] = draw(st.sampled_from([False, False, True]))
    case['copy_drop'] = [] if draw(st.booleans()) else draw(
        st.lists(st.sampled_from(COPY_DROPPABLE), min_size=1, max_size=4,
                 unique=True))
    return case


# ------------------------------------------------------------- geometry
def _unit(v):
    n = math.sqrt(sum(c * c for c in v))
    return [c / n for c in v]


def _cross(a, b):
    return [a[1] * b[2] - a[2] * b[1], a[2] * b[0] - a[0] * b[2],
            a[0] * b[1] - a[1] * b[0]]


def basis(d, dim):
    """orthonormal (d, t1, t2) with the transverse vectors inside the
    first `dim` axes"""
    d = _unit(d)
    if dim == 1:
        return d, [0.0, 0.0, 0.0], [0.0, 0.0, 0.0]
    if dim == 2:
        return d, [-d[1], d[0], 0.0], [0.0, 0.0, 0.0]
    k = min(range(3), key=lambda i: abs(d[i]))
    e = [0.0, 0.0, 0.0]
    e[k] = 1.0
    t1 = _unit(_cross(d, e))
    t2 = _cross(d, t1)
    return d, t1, t2


def is_axis(d):
    return sum(1 for c in d if c != 0) == 1


def geometry(case, zone2=False):
    """geometry of the (first) inlet/outlet pair; with zone2 that of the
    second one: its own directions and gap, reference point offset from the
    first inlet's by zone2['off'] spacings along (d, t1, t2) of the first"""
    dim, dx = case['dim'], case['dx']
    if zone2:
        g1 = geometry(case)
        z = case['zone2']
        off = [z['off'][0] * dx * g1['d'][q] + z['off'][1] * dx * g1['t1'][q]
               + z['off'][2] * dx * g1['t2'][q] for q in range(3)]
        sub = dict(case, dir=z['dir'], odir=z['odir'], gap=z['gap'])
        g = geometry(sub)
        ri = [g1['ri'][q] + off[q] for q in range(3)]
        g['ro'] = [g['ro'][q] - g['ri'][q] + ri[q] for q in range(3)]
        g['ri'] = ri
        return g
    d, t1, t2 = basis(case['dir'], dim)
    od = case.get('odir')
    if od is not None:
        ou = _unit(od)
        if sum(a * b for a, b in zip(ou, d)) < 0.35:
            od = None
    odv = case['dir'] if od is None else od
    o, ot1, ot2 = basis(odv, dim)
    ri = [case['ref'][i] * 0.7 * dx if i < dim else 0.0 for i in range(3)]
    ro = [ri[i] + d[i] * case['gap'] * dx for i in range(3)]
    return dict(d=d, t1=t1, t2=t2, ni=[-c for c in d], no=o, ot1=ot1,
                ot2=ot2, ri=ri, ro=ro, odir_diff=od is not None,
                oblique_in=not is_axis(case['dir']),
                oblique_out=not is_axis(odv))


def block(origin, normal, t1, t2, nl, nt, dx, sign=1.0):
    """nl layers of nt[0] x nt[1] particles; layer k sits (k+0.5)dx from
    the plane through `origin` along sign*normal"""
    pts = []
    for k in range(nl):
        for i in range(nt[0]):
            for j in range(nt[1]):
                a = (k + 0.5) * dx * sign
                b = (i - (nt[0] - 1) / 2.0) * dx
                c = (j - (nt[1] - 1) / 2.0) * dx
                pts.append([origin[q] + a * normal[q] + b * t1[q] + c * t2[q]
                            for q in range(3)])
    return np.array(pts, dtype=float).reshape(-1, 3)


# ------------------------------------------------------------ the model
class MArr(object):
    """Record model of one particle array: prop -> (n, stride) ndarray."""

    def __init__(self, cols):
        self.c = cols

    @property
    def n(self):
        return self.c['uid'].shape[0]

    def take(self, idx):
        return MArr(dict((k, v[idx].copy()) for k, v in self.c.items()))

    def append(self, other):
        for k in self.c:
            self.c[k] = np.concatenate([self.c[k], other.c[k]], axis=0)

    def keep(self, mask):
        for k in self.c:
            self.c[k] = self.c[k][mask]

    def pos(self):
        return np.concatenate([self.c['x'], self.c['y'], self.c['z']],
                              axis=1)

    def disp(self, ref, nrm):
        # the expression of IOEvaluate.loop
        return ((self.c['x'][:, 0] - ref[0]) * nrm[0] +
                (self.c['y'][:, 0] - ref[1]) * nrm[1] +
                (self.c['z'][:, 0] - ref[2]) * nrm[2])

    def shift(self, mask, vec):
        for q, k in enumerate('xyz'):
            self.c[k][mask, 0] += vec[q]


def read_array(pa):
    n = pa.get_number_of_particles()
    cols = {}
    for name in pa.properties:
        a = pa.get_carray(name).get_npy_array()
        s = pa.stride.get(name, 1)
        if a.shape[0] != n * s:
            raise ValueError('property %s of %s has %d values for %d '
                             'particles (stride %d)' % (name, pa.name,
                                                        a.shape[0], n, s))
        cols[name] = a.reshape(n, s).copy()
    return MArr(cols)


def keys_of(m):
    return list(zip(m.c['uid'][:, 0].tolist(), m.c['stamp'][:, 0].tolist()))


def compare(model, real, props, what):
    """-> None or (kind, detail).  Keyed multiset comparison."""
    mk, rk = keys_of(model), keys_of(real)
    if len(mk) != len(rk):
        return ('count', '%s: expected %d particles, found %d; expected '
                'keys (uid, stamp) %s, found %s' % (
                    what, len(mk), len(rk), sorted(mk)[:40],
                    sorted(rk)[:40]))
    if sorted(mk) != sorted(rk):
        miss = sorted(set(mk) - set(rk))
        extra = sorted(set(rk) - set(mk))
        dup = sorted(set(k for k in rk if rk.count(k) > mk.count(k)))
        return ('identity', '%s: missing %s, unexpected %s, duplicated %s'
                % (what, miss[:20], extra[:20], dup[:20]))
    mo = sorted(range(len(mk)), key=lambda i: mk[i])
    ro = sorted(range(len(rk)), key=lambda i: rk[i])
    for p in props:
        a = model.c[p][mo]
        b = real.c[p][ro]
        if p in ('x', 'y', 'z'):
            tol = 1e-9 * np.maximum(1.0, np.abs(a))
            bad = ~(np.abs(a - b) <= tol)
        else:
            bad = ~(a == b)
        if bad.any():
            i = int(np.argwhere(bad)[0][0])
            return ('values', '%s: particle (uid, stamp)=%s property %s: '
                    'expected %s, found %s' % (
                        what, mk[mo[i]], p, a[i].tolist(), b[i].tolist()))
    return None


def order_like(model, real):
    """re-order the model rows into the order of the (verified equal) real
    array"""
    mk, rk = keys_of(model), keys_of(real)
    pos = {}
    for i, k in enumerate(mk):
        pos.setdefault(k, []).append(i)
    idx = [pos[k].pop() for k in rk]
    model.keep(np.array(idx, dtype=int))


# ------------------------------------------------------- family set-up
def family_classes(fam):
    base = 'pysph.sph.bc.%s.' % fam
    M = importlib.import_module(base + 'simple_inlet_outlet').SimpleInletOutlet
    I = importlib.import_module(base + 'inlet').Inlet
    O = importlib.import_module(base + 'outlet').Outlet
    return M, I, O


def reset_group_names():
    # Group names are auto-numbered from a module-level counter and end up
    # in the generated source; restart it so that every evaluator of a
    # family yields the same source (one JIT compile, then the cache)
    import pysph.sph.equation as E
    E.group_counter = E._counter()


def fill_values(pa, uid0):
    """deterministic, particle-specific values for every property the
    harness does not otherwise own"""
    n = pa.get_number_of_particles()
    uid = np.arange(uid0, uid0 + n, dtype=np.int64)
    pa.get_carray('uid').get_npy_array()[:] = uid
    pa.get_carray('stamp').get_npy_array()[:] = -1
    own = set(['x', 'y', 'z', 'u', 'v', 'w', 'h', 'tag', 'gid', 'pid',
               'uid', 'stamp'])
    for k, name in enumerate(sorted(pa.properties)):
        if name in own:
            continue
        s = pa.stride.get(name, 1)
        a = pa.get_carray(name).get_npy_array()
        if a.dtype.kind != 'f':
            continue
        vals = (k + 1) * 1000.0 + uid[:, None] + np.arange(s)[None, :] / 64.0
        a[:] = vals.reshape(-1)
    return uid0 + n


class Setup(object):
    pass


def build(case, cbf=None):
    """Prepare the arrays and the updaters the way the family documents.

    cbf(kind, name) -> callback for the updater of zone `name` (or None)."""
    from pysph.base.utils import get_particle_array
    from pysph.base.kernels import QuinticSpline
    from pysph.sph.bc.inlet_outlet_manager import InletInfo, OutletInfo
    fam, dim, dx = case['family'], case['dim'], case['dx']
    g = geometry(case)
    z2 = case.get('zone2')
    g2 = geometry(case, True) if z2 else None
    M, I, O = family_classes(fam)
    S = Setup()
    S.g, S.g2 = g, g2
    h = case['hfac'] * dx
    zin = [dict(kind='inlet', name='inlet', g=g, nl=case['nl_in'], idx=0)]
    zout = [dict(kind='outlet', name='outlet', g=g, nl=case['nl_out'],
                 idx=0)]
    if z2 and z2['which'] in ('both', 'inlet'):
        zin.append(dict(kind='inlet', name='inlet2', g=g2, nl=z2['nl_in'],
                        idx=1))
    if z2 and z2['which'] in ('both', 'outlet'):
        zout.append(dict(kind='outlet', name='outlet2', g=g2,
                         nl=z2['nl_out'], idx=1))
    for z in zin:
        gg = z['g']
        z['ref'], z['nrm'] = list(gg['ri']), list(gg['ni'])
        z['pts'] = block(gg['ri'], gg['ni'], gg['t1'], gg['t2'], z['nl'],
                         case['nt'], dx)
        z['oblique'] = gg['oblique_in']
    for z in zout:
        gg = z['g']
        z['ref'], z['nrm'] = list(gg['ro']), list(gg['no'])
        z['pts'] = block(gg['ro'], gg['no'], gg['ot1'], gg['ot2'], z['nl'],
                         case['nt'], dx)
        z['oblique'] = gg['oblique_out']
    nfl = [k for k in range(case['fluid0']) if k + 0.5 < case['gap']]
    if nfl:
        xf = block(g['ri'], g['d'], g['t1'], g['t2'], len(nfl), case['nt'],
                   dx)
    else:
        xf = np.zeros((0, 3))

    def mk(name, pts):
        if len(pts) == 0:
            # scalars next to an empty x would make one particle at 0
            return get_particle_array(name=name)
        return get_particle_array(name=name, x=pts[:, 0], y=pts[:, 1],
                                  z=pts[:, 2], h=h, m=1.0, rho=1.0)
    base_cls = bool(case.get('base_cls'))
    construct = case.get('construct') or 'manager'
    gi = bool(case['ghosts'])
    # only the mirror Outlet class maintains a ghost outlet
    go = bool(case['ghosts']) and fam == 'mirror' and not base_cls
    S.empty_outlet = bool(case.get('empty_outlet')) and \
        construct != 'manager' and not go
    if S.empty_outlet:
        zout[0]['pts'] = np.zeros((0, 3))
    for z in zin + zout:
        z['pa'] = mk(z['name'], z['pts'])
    fluid = mk('fluid', xf)
    if case['copy_all']:
        p2c = None
    else:
        drop = case.get('copy_drop') or []
        p2c = [x for x in COPY_BASE + COPY_EXTRA.get(fam, [])
               if x not in drop]
    for z in zin:
        z['info'] = InletInfo(z['name'], normal=list(z['nrm']),
                              refpoint=list(z['ref']), has_ghost=gi,
                              update_cls=None if base_cls else I)
    for z in zout:
        z['info'] = OutletInfo(z['name'], normal=list(z['nrm']),
                               refpoint=list(z['ref']), has_ghost=go,
                               update_cls=None if base_cls else O,
                               props_to_copy=p2c)
    if z2 and z2.get('first'):
        zin, zout = zin[::-1], zout[::-1]
    iom = M(fluid_arrays=['fluid'], inletinfo=[z['info'] for z in zin],
            outletinfo=[z['info'] for z in zout])
    iom.active_stages = list(case['active'])
    iom.setup_iom(dim=dim, kernel=QuinticSpline(dim=dim))
    iom.update_dx(dx)
    # velocities before the ghosts are made (create_ghost copies u)
    zones = sorted(zin + zout, key=lambda z: (z['idx'], z['kind']))
    main = []           # inlet, fluid, outlet, inlet2, outlet2
    for z in zones:
        main.append((z['pa'], z['g']))
        if z['name'] == 'inlet':
            main.append((fluid, g))
    uid0 = 0
    sp, tr = case['speeds'], case['trans']
    for pa, gg in main:
        n = pa.get_number_of_particles()
        uid = np.arange(uid0, uid0 + n)
        uid0 += n
        f = np.array([sp[i % len(sp)] for i in uid], dtype=float)
        a = np.array([tr[i % len(tr)] for i in uid], dtype=float)
        b = np.array([tr[(i // 2) % len(tr)] for i in uid], dtype=float)
        for q, nm in enumerate('uvw'):
            pa.get_carray(nm).get_npy_array()[:] = (
                f * gg['d'][q] + a * gg['t1'][q] + b * gg['t2'][q])
    arrays = dict(fluid=fluid)
    for z in zones:
        arrays[z['name']] = z['pa']
        z['ghost'] = iom.create_ghost(z['pa'], inlet=z['kind'] == 'inlet')
        if z['ghost'] is not None:
            arrays[z['ghost'].name] = z['ghost']
    for pa in arrays.values():
        for nm in EXTRA_PROPS.get(fam, []):
            pa.add_property(nm)
        iom.add_io_properties(pa)
        pa.add_property('uid', type='long')
        pa.add_property('stamp', type='long')
    uid0 = 0
    for pa, gg in main:
        uid0 = fill_values(pa, uid0)
    for z in zones:
        gp = z['ghost']
        if gp is not None:
            gp.get_carray('uid').get_npy_array()[:] = \
                z['pa'].get_carray('uid').get_npy_array()
            if z['kind'] == 'outlet':
                gp.get_carray('stamp').get_npy_array()[:] = -1
    S.arrays = arrays
    S.fluid = fluid
    S.iom = iom
    S.p2c = p2c
    S.go = go
    order = zin + zout
    if construct == 'manager':
        upd = iom.get_inlet_outlet(arrays)
        if len(upd) != len(order):
            raise RuntimeError('get_inlet_outlet returned %d updaters for '
                               '%d inlets and outlets' % (len(upd),
                                                          len(order)))
    else:
        upd = [None] * len(order)
    S.active = list(case['active'])
    for z, u in zip(order, upd):
        cb = cbf(z['kind'], z['name']) if cbf else None
        if construct == 'manager':
            z['upd'] = u
            if cb is not None:
                u.callback = cb
            continue
        # the updater classes used directly, as the upstream tests do: the
        # zone length is set by hand
        z['info'].length = z['nl'] * dx
        cls = z['info'].update_cls
        kw = dict(ghost_pa=z['ghost'])
        if cb is not None:
            kw['callback'] = cb
        if construct == 'direct':
            kw['active_stages'] = list(case['active'])
        else:
            S.active = [1]          # the documented default
        z['upd'] = cls(z['pa'], fluid, z['info'], iom.kernel, dim, **kw)
    S.order = order
    S.zin = [z for z in order if z['kind'] == 'inlet']
    S.zout = [z for z in order if z['kind'] == 'outlet']
    return S


# -------------------------------------------------------- one history
def comp_name(case, which):
    return '%s.%s' % (case['family'], which)


def degenerate(dim, *marrs):
    if dim >= 3:
        return False
    pts = [m.pos() for m in marrs if m.n]
    if not pts:
        return False
    p = np.concatenate(pts, axis=0)
    return bool(np.all(p.max(axis=0) - p.min(axis=0) < 1e-12))


def nudge(m, ref, nrm, thr):
    """move particles out of the band around disp = thr (along nrm)"""
    if not m.n:
        return 0
    d = m.disp(ref, nrm)
    inband = np.abs(d - thr) < BAND
    if not inband.any():
        return 0
    s = np.where(d - thr >= 0, 1.0, -1.0)
    delta = (thr + 2.5 * BAND * s) - d
    for q, k in enumerate('xyz'):
        m.c[k][inband, 0] += delta[inband] * nrm[q]
    return int(inband.sum())


def model_of(pa):
    m = read_array(pa)
    # model-only columns: the inlet a fluid record came through, and whether
    # it went through an outlet plane
    m.c['_from'] = -np.ones((m.n, 1))
    m.c['_moved'] = np.zeros((m.n, 1))
    return m


def run_history(case):
    """-> (failures, labels, nontrivial)"""
    fam, dim, dx = case['family'], case['dim'], case['dx']
    labels = set([fam, 'dim%d' % dim])
    fails = []
    kl = dict(family=fam)

    def fail(comp, kind, detail, **extra):
        k = dict(kl)
        k.update(extra)
        fails.append(Failure(comp, kind, detail, k))
        return fails, sorted(labels), False

    calls = []

    def cbf(kind, name):
        if not case['callback']:
            return None

        def cb(first, second):
            calls.append((name, first.name, second.name,
                          first.get_number_of_particles(),
                          second.get_number_of_particles()))
        return cb

    try:
        S = build(case, cbf)
    except Exception as ex:
        return fail('InletOutletManager.get_inlet_outlet', 'exception',
                    repr(ex))
    zones = S.order
    labels.add('oblique' if any(z['oblique'] for z in zones) else 'axis')
    if S.g['odir_diff']:
        labels.add('odir_diff')
    labels.add('copy_all' if case['copy_all'] else 'copy_list')
    if S.p2c is not None and case.get('copy_drop'):
        labels.add('copy_subset')
        if 'ioid' not in S.p2c:
            labels.add('copy_without_ioid')
    if case['ghosts']:
        labels.add('ghosts')
    if case['callback']:
        labels.add('callback')
    construct = case.get('construct') or 'manager'
    if construct != 'manager':
        labels.add('direct')
        if construct == 'direct_defaults':
            labels.add('direct_default_stages')
    if case.get('base_cls'):
        labels.add('base_cls')
    if S.empty_outlet:
        labels.add('outlet_starts_empty')
    if len(zones) > 2:
        labels.add('zone2')
        if case['ghosts']:
            labels.add('zone2:ghosts')
    pas = S.arrays
    fluid = S.fluid
    if fluid.get_number_of_particles() == 0:
        labels.add('fluid_starts_empty')

    # zone lengths as evaluated by the manager vs the geometric ones
    Ls = []
    for z in zones:
        Lg = z['nl'] * dx
        L = float(z['info'].length)
        z['L'] = L
        if not abs(L - Lg) <= 1e-9 * max(1.0, Lg):
            fails.append(Failure(
                'InletOutletManager.zone_length', 'zone_length',
                '%s zone of %d layers of spacing %s along normal %s is %s '
                'long; the manager evaluated length=%s' % (
                    z['name'], round(Lg / dx), dx, z['nrm'], Lg, L),
                dict(normal='oblique' if z['oblique'] else 'axis')))
        # the model follows the length the updaters use
        Ls += [v for v in (L, Lg) if v > 1e-3 * dx]
    Lmin = min(Ls)

    all_props = [p for p in fluid.properties if p not in SCRATCH]
    out_props = all_props if S.p2c is None else \
        [p for p in S.p2c if p not in SCRATCH]
    mF = model_of(fluid)
    for z in zones:
        z['m'] = model_of(z['pa'])
        z['n0'] = z['m'].n
    n0 = mF.n
    models = [z['m'] for z in zones] + [mF]
    vmax = 0.0
    for m in models:
        if m.n:
            v2 = m.c['u'][:, 0] ** 2 + m.c['v'][:, 0] ** 2 + \
                m.c['w'][:, 0] ** 2
            vmax = max(vmax, float(np.sqrt(v2.max())))
    if vmax < 1e-9:
        vmax = 1.0

    st8 = dict(entered=0, left=0, max_cross=0, returned=False)
    t = 0.0
    cum = 0.0

    def write_back():
        for pa, m in [(z['pa'], z['m']) for z in zones] + [(fluid, mF)]:
            for nm in ('x', 'y', 'z', 'u', 'v', 'w', 'p', 'stamp'):
                pa.get_carray(nm).get_npy_array()[:] = m.c[nm][:, 0]

    def verify(comp, after):
        """compare all the arrays; returns failure triple or None"""
        real = {}
        try:
            rF = read_array(fluid)
            for z in zones:
                real[z['name']] = read_array(z['pa'])
        except ValueError as ex:
            return fail(comp, 'array_incoherent', str(ex))
        todo = [(z['kind'], z['name'], z['m'], real[z['name']],
                 all_props if z['kind'] == 'inlet' else out_props)
                for z in zones]
        todo.insert(1, ('fluid', 'fluid', mF, rF, all_props))
        for kind, nm, m, r, props in todo:
            res = compare(m, r, props, '%s array after %s' % (nm, after))
            if res is not None:
                return fail(comp, '%s_%s' % (kind, res[0]), res[1])
        for z in S.zin:
            if real[z['name']].n != z['n0']:
                return fail(comp, 'inlet_count', '%s has %d particles, '
                            'started with %d' % (
                                z['name'], real[z['name']].n, z['n0']))
        if rF.n != n0 + st8['entered'] - st8['left']:
            return fail(comp, 'bookkeeping', 'fluid has %d particles; '
                        'initial %d + entered %d - left %d' % (
                            rF.n, n0, st8['entered'], st8['left']))
        for z in zones:
            gp = z['ghost']
            if gp is None:
                continue
            owner = real[z['name']]
            ng = gp.get_number_of_particles()
            if ng != owner.n:
                return fail(comp, 'ghost_count', '%s has %d particles, its '
                            'owner %d' % (gp.name, ng, owner.n))
            if z['kind'] == 'outlet':
                gk = sorted(zip(gp.uid.tolist(), gp.stamp.tolist()))
                if gk != sorted(keys_of(owner)):
                    return fail(comp, 'ghost_identity', '%s '
                                'holds %s, %s %s' % (
                                    gp.name, gk[:30], z['name'],
                                    sorted(keys_of(owner))[:30]))
        order_like(mF, rF)
        for z in zones:
            order_like(z['m'], real[z['name']])
        return None

    def ev(z, what):
        labels.add(what)
        labels.add('%s:%s' % (fam, what))
        if z['idx'] == 1:
            labels.add('zone2:' + what)

    prev_event = False
    stop = False
    for k, st_ in enumerate(case['steps']):
        stage = st_['stage']
        if construct == 'direct_defaults':
            # the default active stage is 1: let the frequent stage be it
            stage = {1: 2, 2: 1}.get(stage, stage)
        active = stage in S.active
        # ---- advect (model first, then written to the arrays)
        flip = st_.get('flip')
        if flip:
            labels.add('flip')
        if st_['frac'] > 1.0:
            # a long step: the fastest particles advance by more than the
            # shortest zone length between two updates (the statement
            # quantifies over all step sizes)
            frac = st_['frac']
            labels.add('long_step')
        else:
            frac = min(st_['frac'], max(0.0, 0.95 - cum))
        if st_['frac'] == 0.0 and active:
            # an update repeated without any movement
            labels.add('no_move_update')
            if prev_event:
                labels.add('no_move_after_event')
        cum += frac
        dt = frac * Lmin / vmax
        for m in models:
            if not m.n:
                continue
            if flip:
                sel = (m.c['uid'][:, 0] % flip[0]) == flip[1]
                for nm in 'uvw':
                    m.c[nm][sel, 0] *= -1.0
            m.c['x'][:, 0] += m.c['u'][:, 0] * dt
            m.c['y'][:, 0] += m.c['v'][:, 0] * dt
            m.c['z'][:, 0] += m.c['w'][:, 0] * dt
            m.c['p'][:, 0] += 1.0
        for z in S.zin:
            z['m'].c['stamp'][:, 0] = k
        nn = 0
        for _ in range(6):
            nn = 0
            for z in S.zin:
                nn += nudge(z['m'], z['ref'], z['nrm'], 0.0)
                nn += nudge(z['m'], z['ref'], z['nrm'], z['L'])
            for z in S.zout:
                nn += nudge(mF, z['ref'], z['nrm'], 0.0)
                nn += nudge(z['m'], z['ref'], z['nrm'], z['L'])
            if not nn:
                break
            labels.add('nudged')
        if nn:
            # two outlet planes whose bands cannot be left together
            labels.add('stop_band')
            break
        write_back()
        for z in zones:
            gp = z['ghost']
            if gp is not None and gp.get_number_of_particles():
                gp.x[:] = gp.x + gp.u * dt
        t += dt
        if mF.n and max(np.abs(mF.disp(z['ref'], z['nrm'])).max()
                        for z in S.zout) > 900.0:
            labels.add('stop_far')
            break

        event = False
        for z in zones:
            m = z['m']
            kind = z['kind']
            cname = comp_name(case, 'Inlet' if kind == 'inlet' else 'Outlet')
            if active and degenerate(dim, m, mF):
                labels.add('stop_nnps_degenerate')
                stop = True
                break
            del calls[:]
            if z['upd'].io_eval is None:
                reset_group_names()
            try:
                z['upd'].update(t, dt, stage)
            except Exception as ex:
                return fail(cname, 'exception', repr(ex))
            ncross = nmove = ndel = 0
            if not active:
                labels.add('inactive_stage')
            elif kind == 'inlet':
                di = m.disp(z['ref'], z['nrm'])
                cross = ~(di > EPS_IO)
                ncross = int(cross.sum())
                if mF.n:
                    back = (mF.c['_from'][:, 0] == z['idx']) & \
                        (mF.disp(z['ref'], z['nrm']) > EPS_IO)
                    if back.any():
                        st8['returned'] = True
                if ncross:
                    ev(z, 'recycle')
                    if z['oblique']:
                        ev(z, 'oblique_recycle')
                    nr = z['nrm']
                    if min(abs(nr[0] - nr[1]), abs(nr[1] - nr[2]),
                           abs(nr[0] - nr[2])) > 1e-6:
                        # no two components of the normal are equal
                        labels.add(fam + ':recycle_distinct_normal')
                    if ncross == m.n:
                        labels.add('inlet_all_cross')
                    add = m.take(np.where(cross)[0])
                    add.c['_from'][:] = z['idx']
                    mF.append(add)
                    m.shift(cross, [z['L'] * c for c in z['nrm']])
                    st8['entered'] += ncross
            else:
                if m.n:
                    do = m.disp(z['ref'], z['nrm'])
                    if ((m.c['_moved'][:, 0] > 0) & ~(do > EPS_IO)).any():
                        st8['returned'] = True
                    dele = (do - z['L']) > EPS_IO
                    ndel = int(dele.sum())
                    if ndel:
                        ev(z, 'outlet_delete')
                        if z['ghost'] is not None:
                            labels.add(fam + ':ghost_delete')
                        m.keep(~dele)
                        if not m.n:
                            labels.add('outlet_emptied')
                if mF.n:
                    df = mF.disp(z['ref'], z['nrm'])
                    move = (df > EPS_IO) & ((df - FLUID_MAXDIST) < EPS_IO)
                    nmove = int(move.sum())
                    if nmove:
                        ev(z, 'to_outlet')
                        if z['ghost'] is not None:
                            labels.add(fam + ':ghost_to_outlet')
                        if not m.n:
                            labels.add('into_empty_outlet')
                        add = mF.take(np.where(move)[0])
                        add.c['_moved'][:] = 1.0
                        for p in add.c:
                            if p not in out_props and p[0] != '_' and \
                                    add.c[p].dtype.kind == 'f':
                                add.c[p][:] = np.nan
                        m.append(add)
                        mF.keep(~move)
                        if not mF.n:
                            labels.add('fluid_emptied')
                        st8['left'] += nmove
            res = verify(cname, '%s.update #%d (stage %d, %s)' % (
                z['name'], k, stage, 'active' if active else 'inactive'))
            if res is not None:
                return res
            if case['callback'] and active:
                want = [(z['name'], 'fluid', z['name'], mF.n, m.n)]
                if calls != want:
                    return fail(cname, 'callback', 'callback calls %r, '
                                'expected %r' % (calls, want))
            cnt = max(ncross, nmove, ndel)
            if cnt >= 2:
                labels.add(fam + ':multi_cross')
            if cnt:
                event = True
            st8['max_cross'] = max(st8['max_cross'], cnt)
        if stop:
            break
        if active:
            cum = 0.0
            prev_event = event
    if st8['max_cross'] >= 2:
        labels.add('multi_cross')
    if st8['returned']:
        labels.add('return')
    nontrivial = (st8['max_cross'] >= 2 or st8['returned']) and not fails
    return fails, sorted(labels), nontrivial


def execute(case):
    fails, labels, nt = run_history(case)
    return Outcome(fails, labels, nt)


# ------------------------------------------------------- entry points
def warm_case(fam):
    return dict(family=fam, dim=1, dir=[1, 0, 0], odir=None, dx=0.1,
                nl_in=2, nl_out=2, nt=[1, 1], gap=1.0, fluid0=1,
                ref=[0, 0, 0], hfac=1.5, speeds=[1.0], trans=[0.0],
                active=[2], ghosts=True, copy_all=False, callback=False,
                steps=[dict(frac=0.5, stage=2, flip=None)])


def warm(fam):
    run_history(warm_case(fam))
    # the evaluators of a second inlet/outlet are modules of their own
    run_history(dict(warm_case(fam), dim=2, zone2=dict(
        which='both', dir=[0, 1, 0], odir=None, nl_in=1, nl_out=1, gap=1.0,
        off=[0, 6, 0], first=False)))


PER_FAMILY = 3


def plan(ctx):
    quick = ctx['tier'] == 'quick'
    n = 120 if quick else 5000
    # compile the two evaluators of each family once, before the shards
    # start (they then all load the cached modules)
    procs = []
    for fam in FAMILIES:
        try:
            procs.append(subprocess.Popen(
                [sys.executable, '-c',
                 'from checks.c16_inlet_outlet import warm; warm(%r)' % fam],
                cwd=VERIF, stdout=subprocess.DEVNULL,
                stderr=subprocess.DEVNULL))
        except Exception:
            pass
    for p in procs:
        try:
            p.wait(timeout=1200)
        except Exception:
            p.kill()
    specs = []
    for fam in FAMILIES:
        for i in range(PER_FAMILY):
            specs.append(dict(name='%s-%d' % (fam, i), family=fam,
                              max_examples=-(-n // PER_FAMILY),
                              component='%s.Inlet/Outlet' % fam,
                              klass=dict(family=fam)))
    return specs


def run_shard(spec, ctx):
    stats = Stats()
    search(case_strategy(spec['family']), execute,
           derive_seed(ctx.seed, 'C16', spec['name']),
           spec['max_examples'], stats, shrink=True, journal=ctx.journal)
    return stats.result()


def run_case(case, component, ctx):
    fails, _, _ = run_history(case)
    return [f.as_dict(case) for f in fails]
