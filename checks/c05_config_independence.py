"""C05 - results do not depend on neighbour algorithm, cache, threads or
reordering.

Every configuration is one run of a small Application (checks/c05_apps.py:
2D/3D free-surface drops, column on a solid floor, periodic box, periodic
channel between walls, gas blob with density-adaptive h in 1D/2D, stream with
inlet and outlet) through the real front end (`Application.run(argv)`) in its
own subprocess.  The problem-level options of a case (scheme variant,
adaptive time steps, dump frequency, output detail) are the same in all its
runs; the configuration options (--nnps and its tuning parameters,
--cache-nnps, --openmp/--no-openmp, threads, --omp-schedule, --reorder-freq,
--sort-gids, --fixed-h) differ.
Metamorphic oracle: against the reference configuration (ll, no cache, no
OpenMP, no reordering) every output property of every dump agrees per
particle (matched by gid) to 1e-9*scale, with the same iteration count and
(to 1e-9) the same time and time step; configurations with --sort-gids and
the same --reorder-freq are bit-identical across neighbour algorithm, cache,
thread count and schedule (among the OpenMP runs and among the serial runs);
a configuration run twice is bit-identical to itself.
"""
import json
import os
import subprocess
import sys

from hypothesis import strategies as st

from vlib.hyp import (Failure, Outcome, Stats, search, derive_seed, canon,
                      case_hash)

RULE = ('case = (problem in {free-surface drop, fluid column on a solid '
        'floor [2 arrays], doubly periodic box, 3D drop, gas blob with '
        'density-adaptive h [GasDScheme mpm/gsph, optionally periodic], '
        'periodic channel between solid walls [2 arrays + ghosts], stream '
        'with inlet and outlet [3 arrays, particles enter and leave]}, '
        'lattice size, jitter, dt, number of steps, per-particle h, scheme '
        'variant [--update-h, --delta-sph, --summation-density], fixed or '
        'adaptive time steps, dump frequency [every dump is compared], '
        '--detailed-output, -z, permuted gids, passive int/strided '
        'properties) x a drawn set of configurations from --nnps (10 '
        'values, with drawn --spatial-hash-sub-factor / '
        '--spatial-hash-table-size / --stratified-grid-num-levels / '
        '--tree-leaf-max-particles) x --cache-nnps x --openmp with '
        'OMP_NUM_THREADS in {1,2,3,5,8,16} and --omp-schedule in {default, '
        'static, guided} / --no-openmp x --reorder-freq {0,1,3} x '
        '--sort-gids x --fixed-h (only where h is constant in time), always '
        'containing >= 2 sorted+OpenMP configurations and one repeated '
        'configuration. A comparison (pair of runs) is '
        'non-trivial when the two differ in >= 1 option and the final state '
        'differs from the initial one by > 1e-3*scale; distinct by (case, '
        'pair) hash.')
ASSUMPTIONS = [
    'OpenMP thread interleavings cannot be owned by the harness: schedules '
    'are sampled by thread count and repetition only (weak evidence for '
    'schedule-dependent defects)',
    'tolerance 1e-9 relative to max|reference| of each property (summation '
    'order), bitwise only where the statement promises it',
    'a run that exceeds the harness time limit is inconclusive',
    'the problem-level options (scheme variant, adaptive time steps, dump '
    'frequency, output detail) are the same in every run of a case: they '
    'define the simulation, only the configuration options differ',
    '--fixed-h is passed only to problems whose smoothing lengths do not '
    'change in time (it then states a fact); tuning parameters of a '
    'neighbour algorithm are treated as variants of that algorithm',
    'a case whose reference run ends with non-finite values is skipped and '
    'counted (ref_nonfinite)',
    'periodic boxes are wider than twice the largest kernel support, so '
    'that a particle and its own periodic image (same gid) are never both '
    'neighbours of one particle (the order "sorted by gid" would be '
    'ambiguous)',
    'OMP_WAIT_POLICY=PASSIVE in every run (waiting threads sleep; many runs '
    'share the machine)',
]
ESSENTIAL_LABELS = {'all': ['problem:drop', 'problem:column',
                            'problem:periodic', 'bitwise_group', 'repeat',
                            'openmp', 'cache', 'reorder', 'sort_gids',
                            'variable_h', 'h_ratio_2',
                            'all_nnps_sweep',
                            'problem:drop3d', 'problem:gas',
                            'problem:channel', 'problem:pipe',
                            'h_evolves', 'adaptive_dt', 'dt_varies',
                            'intermediate_dumps', 'detailed_output',
                            'omp_schedule', 'nnps_tuning', 'fixed_h_flag',
                            'gid_permuted', 'passive_props',
                            'particles_entered', 'particles_left',
                            'periodic_variable_h', 'variant:update_h',
                            'variant:delta_sph',
                            'variant:summation_density',
                            'gas:mpm', 'gas:gsph', 'gas:periodic', 'gas:1d',
                            'bitwise_group_serial',
                            'reorder_after_io_in_last_stage',
                            'reorder_with_orig_idx_ghosts',
                            'io_last_stage']}
SHARD_TIMEOUT = {'quick': 1700, 'thorough': 10 * 3600}
NNPS = ['ll', 'box', 'sh', 'esh', 'ci', 'sfc', 'tree', 'comp_tree',
        'strat_hash', 'strat_sfc']
PY = '/venv/bin/python'


# tuning parameters of the neighbour algorithms that the front end passes on
TUNE = {
    'sh': {'table_size': [1024, 7]},
    'esh': {'H': [1, 2, 4, 5], 'table_size': [1024, 7]},
    'strat_hash': {'num_levels': [2, 3, 4], 'table_size': [1024, 7]},
    'strat_sfc': {'num_levels': [2, 3, 4]},
    'tree': {'leaf_max': [1, 3, 32]},
    'comp_tree': {'leaf_max': [1, 3, 32]},
}
TUNE_OPT = {'H': '--spatial-hash-sub-factor',
            'table_size': '--spatial-hash-table-size',
            'num_levels': '--stratified-grid-num-levels',
            'leaf_max': '--tree-leaf-max-particles'}
SCHEDULES = ['static', 'guided,8']
# algorithms that implement get_spatially_ordered_indices
ORDERING = ['ll', 'ci', 'sfc', 'tree', 'comp_tree', 'strat_sfc']
# problems with several particle arrays (the open finding on strat_sfc is
# about neighbours between different arrays)
MULTI_ARRAY = ('column', 'channel', 'pipe')
ADAPTIVE_OK = ('drop', 'column', 'drop3d', 'gas', 'pipe')
PROBLEMS = ('drop', 'column', 'periodic', 'drop3d', 'gas', 'channel', 'pipe')


def h_evolves(problem, phys):
    return problem == 'gas' or phys.get('variant') == 'update_h'


@st.composite
def config_strategy(draw, force_sorted_omp=False, reorder=None,
                    exclude=(), fixed_ok=False, extras=True):
    omp = True if force_sorted_omp else draw(st.booleans())
    cfg = dict(
        nnps=draw(st.sampled_from([n for n in NNPS if n not in exclude])),
        cache=draw(st.booleans()),
        openmp=omp,
        threads=draw(st.sampled_from([1, 2, 3, 5, 8, 16])) if omp else 1,
        reorder=reorder if reorder is not None else
        draw(st.sampled_from([0, 0, 1, 3])),
        sort_gids=True if force_sorted_omp else draw(st.booleans()))
    if extras:
        draw_extras(draw, cfg, fixed_ok)
    return cfg


def draw_extras(draw, cfg, fixed_ok):
    """options beyond the six of the quantifier that must not change the
    result either; keys are present only when the option is passed"""
    if cfg['openmp'] and draw(st.integers(0, 2)) == 0:
        cfg['sched'] = draw(st.sampled_from(SCHEDULES))
    knobs = TUNE.get(cfg['nnps'])
    if knobs and draw(st.booleans()):
        names = sorted(knobs)
        k = draw(st.integers(1, 2 ** len(names) - 1))
        cfg['tune'] = {nm: draw(st.sampled_from(knobs[nm]))
                       for i, nm in enumerate(names) if k >> i & 1}
    if fixed_ok and draw(st.integers(0, 3)) == 0:
        cfg['fixed_h'] = True


def draw_phys(draw, problem, pin):
    S = st.sampled_from
    ph = {}
    if problem in ('drop', 'column'):
        ph.update(n=draw(S([10, 14, 24, 32])),
                  varh=draw(S([True, True, False])),
                  hamp=draw(S([0.15, 0.5])), dt=draw(S([1e-4, 2e-4])),
                  nsteps=draw(S([8, 12, 20])))
        v = draw(S([None, None, None, 'update_h', 'delta_sph',
                    'summation_density']))
        if v:
            ph['variant'] = v
    elif problem == 'periodic':
        ph.update(n=draw(S([10, 14, 24, 32])),
                  varh=draw(S([True, True, False])),
                  hamp=draw(S([0.15, 0.5])), dt=draw(S([1e-4, 2e-4])),
                  nsteps=draw(S([8, 12, 20])))
        ph['pvarh'] = draw(st.booleans())
    elif problem == 'drop3d':
        ph.update(n=draw(S([6, 8, 10])), varh=draw(S([True, True, False])),
                  hamp=draw(S([0.15, 0.5])), dt=draw(S([1e-4, 2e-4])),
                  nsteps=draw(S([6, 8, 12])))
    elif problem == 'gas':
        ph.update(n=draw(S([14, 16, 20])), dt=draw(S([1e-3, 2e-3])),
                  nsteps=draw(S([6, 8, 12])),
                  hscheme=draw(S(['mpm', 'gsph'])),
                  gper=draw(st.booleans()))
        if draw(S([False, False, True])):
            ph['gdim'] = 1
    elif problem == 'channel':
        ph.update(n=draw(S([12, 16, 24])), pvarh=draw(st.booleans()),
                  hamp=draw(S([0.15, 0.5])), dt=draw(S([1e-4, 2e-4])),
                  nsteps=draw(S([8, 12, 20])))
    elif problem == 'pipe':
        ph.update(n=draw(S([10, 14, 20])),
                  varh=draw(S([True, False])), hamp=draw(S([0.15, 0.5])),
                  dt=5e-4, nsteps=draw(S([12, 16, 20])),
                  iostages=draw(S([[1], [2], [1, 2]])))
    if problem in ADAPTIVE_OK and draw(S([False, False, True])):
        ph['adaptive'] = True
    pf = draw(S([0, 0, 3, 5]))
    if pf:
        ph['pfreq'] = pf
    if draw(S([False, False, True])):
        ph['detailed'] = True
    if draw(S([False, False, False, True])):
        ph['compress'] = True
    if draw(st.booleans()):
        ph['gidperm'] = [draw(st.integers(2, 97)), draw(st.integers(0, 50))]
    if draw(st.booleans()):
        ph['marks'] = True
    ph['vals'] = [draw(st.integers(-8, 8)) / 16.0 for _ in range(16)]
    for k, v in (pin or {}).items():
        if v is None:
            ph.pop(k, None)
        else:
            ph[k] = v
    if problem in ('periodic', 'channel') and ph.get('pvarh') and \
            ph['n'] < 14:
        # the box stays wider than two ghost layers of the largest h
        ph['n'] = 14
    if problem == 'gas' and ph.get('gper') and ph.get('gdim', 2) == 2:
        # a particle and its own periodic image (same gid) must never both
        # be neighbours of one particle, or the order "sorted by gid" is
        # ambiguous: the box is wider than twice the largest support
        # (3 h, h up to 0.085 at the lowest density; gsph searches with 2 h)
        ph['n'] = max(ph['n'], 26 if ph['hscheme'] == 'gsph' else 16)
    if problem == 'pipe':
        # about 0.45 particle spacings of travel (the columns next to the
        # planes start 0.1-0.3 spacings away): particles enter and leave
        ph['uin'] = round(0.0225 / (ph['dt'] * ph['nsteps']), 3)
    return ph


@st.composite
def case_strategy(draw, problem, nfree, exclude=(), sweep=False, pin=None,
                  cpin=None):
    if sweep:
        # every neighbour algorithm on one multi-resolution input
        cfgs = [dict(nnps=n, cache=draw(st.booleans()), openmp=False,
                     threads=1, reorder=0, sort_gids=draw(st.booleans()))
                for n in NNPS if n not in exclude and n != 'll']
        if problem in ('drop', 'column'):
            phys = dict(n=draw(st.sampled_from([14, 24, 30])), varh=True,
                        hamp=draw(st.sampled_from([0.5, 0.75])), dt=1e-4,
                        nsteps=draw(st.sampled_from([6, 10])),
                        vals=[draw(st.integers(-8, 8)) / 16.0
                              for _ in range(16)])
        else:
            phys = draw_phys(draw, problem, pin)
            for c in cfgs:
                if draw(st.booleans()):
                    draw_extras(draw, c, not h_evolves(problem, phys))
        if cpin == 'sorted' or (cpin is None and draw(st.booleans())):
            # every algorithm with sorted neighbours: one bitwise group
            # (serial) over all of them
            for c in cfgs:
                c['sort_gids'] = True
                c.pop('fixed_h', None)
        return dict(problem=problem, phys=phys, configs=cfgs,
                    repeat=draw(st.integers(0, 8)))
    phys = draw_phys(draw, problem, pin)
    fixed_ok = not h_evolves(problem, phys)
    reorders = [0, 1, 3]
    reorder = draw(st.sampled_from(reorders))
    cfgs = [draw(config_strategy(True, reorder, exclude, fixed_ok))
            for _ in range(2)]
    # the tree algorithms build and prune with per-node data in parallel:
    # one of the sorted+OpenMP configurations always is a tree with >= 2
    # threads
    cfgs[0]['nnps'] = draw(st.sampled_from(['tree', 'comp_tree']))
    cfgs[0]['threads'] = draw(st.sampled_from([2, 3, 4, 8, 16]))
    if 'tune' in cfgs[0]:
        cfgs[0]['tune'] = {'leaf_max': draw(st.sampled_from([1, 3, 32]))}
    if reorder and cfgs[1]['nnps'] not in ORDERING:
        # the bitwise partner must run: an algorithm that offers spatial
        # ordering (the others reject --reorder-freq; the free
        # configurations still try them)
        cfgs[1]['nnps'] = draw(st.sampled_from(
            [n for n in ORDERING if n not in exclude]))
        cfgs[1].pop('tune', None)
    cfgs[1].pop('fixed_h', None)
    cfgs[0].pop('fixed_h', None)
    cfgs += [draw(config_strategy(
        exclude=exclude, fixed_ok=fixed_ok,
        reorder=0 if reorders == [0] else None)) for _ in range(nfree)]
    for i, upd in enumerate(cpin or []):
        if i < len(cfgs) - 2:
            c = cfgs[2 + i]
            c.update(upd)
            if not fixed_ok:
                c.pop('fixed_h', None)
            if not c['openmp']:
                c['threads'] = 1
                c.pop('sched', None)
            if c.get('tune') and set(c['tune']) - set(TUNE.get(c['nnps'],
                                                               {})):
                c.pop('tune')
            if reorders == [0]:
                c['reorder'] = 0
    return dict(problem=problem, phys=phys, configs=cfgs,
                repeat=draw(st.integers(0, 1 + nfree)))


REF = dict(nnps='ll', cache=False, openmp=False, threads=1, reorder=0,
           sort_gids=False)


def args_of(cfg):
    a = ['--nnps', cfg['nnps']]
    if cfg['cache']:
        a.append('--cache-nnps')
    a.append('--openmp' if cfg['openmp'] else '--no-openmp')
    a += ['--reorder-freq', str(cfg['reorder'])]
    if cfg['sort_gids']:
        a.append('--sort-gids')
    if cfg.get('sched'):
        a += ['--omp-schedule', cfg['sched']]
    for k, v in sorted((cfg.get('tune') or {}).items()):
        a += [TUNE_OPT[k], str(v)]
    if cfg.get('fixed_h'):
        a.append('--fixed-h')
    return a


def prob_args(phys):
    """options that define the simulation: the same in every run of a
    case"""
    a = []
    if phys.get('variant'):
        a.append('--' + phys['variant'].replace('_', '-'))
    if phys.get('hscheme'):
        a += ['--adaptive-h', phys['hscheme']]
    if phys.get('adaptive'):
        a += ['--adaptive-timestep', '--cfl', '0.2',
              '--max-steps', str(phys['nsteps'])]
    if phys.get('pfreq'):
        a += ['--pfreq', str(phys['pfreq'])]
    if phys.get('detailed'):
        a.append('--detailed-output')
    if phys.get('compress'):
        a.append('-z')
    return a


def run_config(problem, phys, cfg, workdir, tag):
    """-> dict of arrays or a string describing the failure."""
    import numpy as np
    out = os.path.join(workdir, 'c05_%s_%d.npz' % (tag, os.getpid()))
    # waiting threads sleep instead of spinning: many runs share the
    # machine (no effect on what the threads compute)
    env = dict(os.environ, OMP_NUM_THREADS=str(cfg['threads']),
               OMP_WAIT_POLICY='PASSIVE')
    cmd = [PY, '-X', 'faulthandler', '-m', 'checks.c05_apps', problem, out,
           json.dumps(phys), '--'] + prob_args(phys) + args_of(cfg)
    try:
        p = subprocess.run(cmd, env=env, capture_output=True, text=True,
                           timeout=900, cwd=os.path.dirname(
                               os.path.dirname(os.path.abspath(__file__))))
    except subprocess.TimeoutExpired:
        import shutil
        shutil.rmtree(out + '_output', ignore_errors=True)
        return 'timeout'
    if p.returncode != 0 or not os.path.exists(out):
        import shutil
        shutil.rmtree(out + '_output', ignore_errors=True)
        tail = (p.stderr or '')[-600:]
        return 'exit %s: %s' % (p.returncode, tail)
    d = dict(np.load(out))
    os.remove(out)
    return d


def cache_flag_exists():
    return True


def compare(ref, got, bitwise):
    import numpy as np
    keys = sorted(k for k in ref if not k.startswith('__'))
    if sorted(k for k in got if not k.startswith('__')) != keys:
        return 'different sets of arrays/properties'
    for k in keys:
        a, b = ref[k], got[k]
        if a.shape != b.shape:
            return '%s: %d vs %d particles' % (k, len(a), len(b))
        a, b = a.ravel(), b.ravel()
        if k.endswith('::gid'):
            if not np.array_equal(a, b):
                return '%s: particle identities differ' % k
            continue
        if bitwise:
            if a.tobytes() != b.tobytes():
                i = int(np.argmax(a != b))
                return '%s differs bitwise at gid-rank %d: %r vs %r' % (
                    k, i, a[i], b[i])
        else:
            scale = float(np.max(np.abs(a))) if len(a) else 0.0
            tol = 1e-9 * max(scale, 1e-12)
            if a.dtype.kind == 'f':
                bad = ~(np.abs(a - b) <= tol)
                if bad.any():
                    i = int(np.argmax(bad))
                    return '%s differs at gid-rank %d: %r vs %r (tol %.3g)' \
                        % (k, i, a[i], b[i], tol)
            elif not np.array_equal(a, b):
                return '%s differs' % k
    return None


def compare_meta(ref, got, bitwise):
    """iteration count, number of dumps, final time and the last time step
    (with adaptive time steps the sequence of steps is part of the
    result)"""
    for k in ('__count', '__nfiles'):
        if k in ref and int(ref[k][0]) != int(got[k][0]):
            return '%s: %d vs %d' % (k[2:], ref[k][0], got[k][0])
    for k in ('__t', '__dt'):
        if k not in ref or k not in got:
            continue
        a, b = float(ref[k][0]), float(got[k][0])
        if bitwise:
            if a != b:
                return 'solver %s differs bitwise: %r vs %r' % (k[2:], a, b)
        elif not abs(a - b) <= 1e-9 * max(abs(a), 1e-12):
            return 'solver %s differs: %r vs %r' % (k[2:], a, b)
    return None


def nonfinite(res):
    import numpy as np
    for k, a in res.items():
        if a.dtype.kind == 'f' and not np.isfinite(a).all():
            return k
    return None


def differs(cfg1, cfg2):
    return any(cfg1.get(k) != cfg2.get(k) for k in set(cfg1) | set(cfg2))


def phys_labels(problem, phys, ref=None):
    import numpy as np
    labels = ['problem:' + problem]
    if phys.get('varh') and problem not in ('periodic', 'gas', 'channel'):
        labels.append('variable_h')
        if phys.get('hamp', 0) >= 0.5:
            labels.append('h_ratio_2')
    if phys.get('pvarh') and problem in ('periodic', 'channel'):
        labels.append('periodic_variable_h')
    if h_evolves(problem, phys):
        labels.append('h_evolves')
    if phys.get('variant'):
        labels.append('variant:' + phys['variant'])
    if problem == 'gas':
        labels.append('gas:' + phys.get('hscheme', 'mpm'))
        if phys.get('gper'):
            labels.append('gas:periodic')
        if phys.get('gdim') == 1:
            labels.append('gas:1d')
    if phys.get('adaptive'):
        labels.append('adaptive_dt')
    if phys.get('detailed'):
        labels.append('detailed_output')
    if phys.get('compress'):
        labels.append('compressed_output')
    if phys.get('gidperm'):
        labels.append('gid_permuted')
    if phys.get('marks'):
        labels.append('passive_props')
    if problem == 'pipe' and 2 in phys.get('iostages', [1, 2]):
        labels.append('io_last_stage')
    if ref is not None:
        if phys.get('adaptive') and '__dt' in ref and \
                float(ref['__dt'][0]) != phys['dt']:
            labels.append('dt_varies')
        if phys.get('pfreq') and any(k.startswith('@') for k in ref):
            labels.append('intermediate_dumps')
        if problem == 'pipe' and '__n0' in ref:
            n0 = int(ref['__n0'][0])
            if (ref['fluid::gid'] >= n0).any():
                labels.append('particles_entered')
            if '__fluid0' in ref and np.isin(ref['outlet::gid'],
                                             ref['__fluid0']).any():
                labels.append('particles_left')
    return labels


def check(case, workdir):
    import numpy as np
    problem, phys = case['problem'], case['phys']
    labels = phys_labels(problem, phys)
    if len(set(c['nnps'] for c in case['configs'])) >= 7:
        labels.append('all_nnps_sweep')
    if any(c.get('reorder') for c in case['configs']):
        if problem == 'pipe' and 2 in phys.get('iostages', [1, 2]):
            labels.append('reorder_after_io_in_last_stage')
        if problem == 'gas' and phys.get('gper'):
            labels.append('reorder_with_orig_idx_ghosts')
    fails = []
    nontriv = []
    ref = run_config(problem, phys, REF, workdir, 'ref')
    if isinstance(ref, str):
        if ref == 'timeout':
            return [], labels, [], True
        return [Failure('Application', 'reference_run_failed', ref,
                        dict(problem=problem))], labels, [], False
    if int(ref['__count'][0]) != phys['nsteps']:
        fails.append(Failure('Application', 'step_count',
                             'ran %d steps, expected %d' % (
                                 ref['__count'][0], phys['nsteps']),
                             dict(problem=problem)))
    bad = nonfinite(ref)
    if bad:
        # the simulation itself blew up: nothing to compare against
        return fails, labels + ['ref_nonfinite'], [], False
    labels = phys_labels(problem, phys, ref)
    if len(set(c['nnps'] for c in case['configs'])) >= 7:
        labels.append('all_nnps_sweep')
    if any(c.get('reorder') for c in case['configs']):
        if problem == 'pipe' and 2 in phys.get('iostages', [1, 2]):
            labels.append('reorder_after_io_in_last_stage')
        if problem == 'gas' and phys.get('gper'):
            labels.append('reorder_with_orig_idx_ghosts')
    results = []
    for i, cfg in enumerate(case['configs']):
        r = run_config(problem, phys, cfg, workdir, 'c%d' % i)
        results.append(r)
        for k, l in (('openmp', 'openmp'), ('cache', 'cache'),
                     ('sort_gids', 'sort_gids'), ('sched', 'omp_schedule'),
                     ('tune', 'nnps_tuning'), ('fixed_h', 'fixed_h_flag')):
            if cfg.get(k):
                labels.append(l)
        if cfg['reorder']:
            labels.append('reorder')
        kl = dict(problem=problem, nnps=cfg['nnps'],
                  reorder=bool(cfg['reorder']))
        if isinstance(r, str):
            if r == 'timeout':
                labels.append('timeout')
                continue
            if cfg['reorder'] and 'NotImplementedError' in r and \
                    'get_spatially_ordered_indices' in r:
                # this neighbour algorithm does not offer spatial ordering:
                # a clean rejection of the combination
                labels.append('reorder_unsupported')
                continue
            fails.append(Failure('Application', 'run_failed',
                                 '%r: %s' % (cfg, r), kl))
            continue
        msg = compare(ref, r, False) or compare_meta(ref, r, False)
        if msg:
            fails.append(Failure(
                'Application', 'differs_from_reference',
                '%r vs reference configuration: %s' % (cfg, msg), kl))
        nontriv.append(case_hash([canon(phys), problem, 'ref', canon(cfg)]))
    # bitwise groups: sorted gids + same reorder (+ same --fixed-h), among
    # the OpenMP runs (neighbour algorithm, cache, threads, schedule vary)
    # and among the serial runs (neighbour algorithm and cache vary); runs
    # with and without OpenMP are different builds and are only held to the
    # tolerance
    grp = [(c, r) for c, r in zip(case['configs'], results)
           if c['sort_gids'] and not isinstance(r, str)]
    byr = {}
    for c, r in grp:
        byr.setdefault((c['reorder'], bool(c.get('fixed_h')),
                        bool(c['openmp'])), []).append((c, r))
    for (ro, _, omp), lst in byr.items():
        for c, r in lst[1:]:
            labels.append('bitwise_group' if omp else 'bitwise_group_serial')
            msg = compare(lst[0][1], r, True) or \
                compare_meta(lst[0][1], r, True)
            if differs(lst[0][0], c):
                nontriv.append(case_hash([canon(phys), problem,
                                          canon(lst[0][0]), canon(c)]))
            if msg:
                fails.append(Failure(
                    'Application', 'not_bit_identical',
                    'sorted neighbours, %s: %r vs %r: %s' % (
                        'OpenMP' if omp else 'serial', lst[0][0], c, msg),
                    dict(problem=problem, nnps=c['nnps'],
                         nnps0=lst[0][0]['nnps'], reorder=bool(ro))))
    # repeat
    j = case['repeat'] % len(case['configs'])
    for _ in range(len(results)):
        # a configuration that ran (a rejected combination cannot be
        # repeated)
        if not isinstance(results[j], str):
            break
        j = (j + 1) % len(results)
    if not isinstance(results[j], str):
        r2 = run_config(problem, phys, case['configs'][j], workdir, 'rep')
        labels.append('repeat')
        if isinstance(r2, str):
            if r2 != 'timeout':
                fails.append(Failure('Application', 'run_failed',
                                     'repeat of %r: %s' % (
                                         case['configs'][j], r2),
                                     dict(problem=problem,
                                          nnps=case['configs'][j]['nnps'],
                                          reorder=bool(
                                              case['configs'][j]['reorder']
                                          ))))
        else:
            msg = compare(results[j], r2, True) or \
                compare_meta(results[j], r2, True)
            if msg:
                fails.append(Failure(
                    'Application', 'not_reproducible',
                    '%r run twice: %s' % (case['configs'][j], msg),
                    dict(problem=problem, nnps=case['configs'][j]['nnps'],
                         openmp=case['configs'][j]['openmp'])))
    return fails, sorted(set(labels)), nontriv, False


# quick tier: what each shard pins (None = "not set"); everything else is
# drawn.  The pins make every essential class appear in every run.
GP = dict(gidperm=[7, 3], marks=True)
QUICK = [
    ('cfg-00-drop', 'drop', dict(variant='update_h', adaptive=True), None),
    ('cfg-01-column', 'column', dict(variant='delta_sph', detailed=True),
     None),
    ('cfg-02-periodic', 'periodic', dict(pvarh=True, pfreq=3), None),
    ('cfg-03-drop', 'drop', dict(variant='summation_density', **GP), None),
    ('cfg-04-column', 'column', dict(adaptive=True, pfreq=3), None),
    ('cfg-05-periodic', 'periodic', None, None),
    ('cfg-06-drop', 'drop', dict(variant=None, varh=True),
     [dict(openmp=True, threads=3, sched='static'),
      dict(nnps='esh', tune=dict(H=2, table_size=7)), dict(fixed_h=True)]),
    ('cfg-07-column', 'column', dict(variant=None, varh=True, **GP),
     [dict(openmp=True, threads=5, sched='guided,8'),
      dict(nnps='strat_hash', tune=dict(num_levels=3)),
      dict(fixed_h=True)]),
    ('cfg-08-periodic', 'periodic', dict(pvarh=False), None),
    ('cfg-09-drop', 'drop', None, None),
    ('cfg-10-column', 'column', dict(variant='update_h'), None),
    ('cfg-11-periodic', 'periodic', dict(pvarh=True, **GP),
     [dict(nnps='sh', tune=dict(table_size=7))]),
    ('d3-00', 'drop3d', dict(varh=True, hamp=0.5, adaptive=True), None),
    ('d3-01', 'drop3d', None,
     [dict(nnps='tree', tune=dict(leaf_max=1)), dict(fixed_h=True)]),
    ('gas-00', 'gas', dict(hscheme='mpm', gper=False, adaptive=True,
                           gdim=None), None),
    ('gas-01', 'gas', dict(hscheme='gsph', gper=True, gdim=None), None),
    ('gas-02', 'gas', dict(hscheme='mpm', gper=True, pfreq=3, gdim=None,
                           **GP),
     # re-ordering with ghosts that find their originals through orig_idx
     [dict(nnps='ll', reorder=1), dict(nnps='ci', reorder=3)]),
    ('gas-03', 'gas', dict(gdim=1), None),
    ('chan-00', 'channel', dict(pvarh=True, hamp=0.5),
     [dict(nnps='esh', tune=dict(H=4)), dict(fixed_h=True)]),
    ('chan-01', 'channel', None, None),
    ('pipe-00', 'pipe', dict(iostages=[1], varh=True, **GP), None),
    ('pipe-01', 'pipe', dict(iostages=[2]),
     # re-ordering right after the inlet/outlet changed the arrays
     [dict(nnps='ll', reorder=1), dict(nnps='tree', reorder=3)]),
    ('pipe-02', 'pipe', dict(iostages=[1], adaptive=True, pfreq=5), None),
]
SWEEPS = [('drop', None, 'sorted'), ('column', None, 'drawn'),
          ('gas', dict(adaptive=None), 'sorted'),
          ('channel', dict(pvarh=True, hamp=0.5), 'drawn'),
          ('drop3d', dict(varh=True, hamp=0.5), 'sorted'),
          ('pipe', dict(iostages=[1, 2]), 'sorted')]


def plan(ctx):
    shards = []
    # input classes with an open finding (a neighbour algorithm that is
    # known to be wrong for a problem class) are excluded by construction
    excl = {}
    for e in ctx.get('known_open', []):
        m = e['match']
        if 'problem' in m and 'nnps' in m:
            excl.setdefault(m['problem'], []).append(m['nnps'])
    # the finding recorded for the two-array column is about neighbours
    # between different arrays: the same input class in every problem with
    # several arrays
    for pr in MULTI_ARRAY:
        if pr != 'column' and excl.get('column'):
            excl[pr] = sorted(set(excl.get(pr, []) + excl['column']))
    if ctx['tier'] == 'quick':
        for name, pr, pin, cpin in QUICK:
            shards.append(dict(name=name, problem=pr, ncases=1, nfree=4,
                               exclude=excl.get(pr, []), pin=pin,
                               cpin=cpin))
        for pr, pin, srt in SWEEPS:
            shards.append(dict(name='sweep-%s' % pr, problem=pr, ncases=1,
                               nfree=0, sweep=True, pin=pin, cpin=srt,
                               exclude=excl.get(pr, [])))
    else:
        for i in range(56):
            pr = PROBLEMS[i % 7]
            shards.append(dict(name='cfg-%02d-%s' % (i, pr),
                               problem=pr, ncases=12, nfree=8,
                               exclude=excl.get(pr, [])))
        for i in range(12):
            pr, pin, _ = SWEEPS[i % 6]
            shards.append(dict(name='sweep-%02d-%s' % (i, pr), problem=pr,
                               ncases=6, nfree=0, sweep=True, pin=pin,
                               exclude=excl.get(pr, [])))
    return shards


MAX_PARALLEL = 13


def run_shard(spec, ctx):
    stats = Stats()
    stats.extra['runs'] = 0
    calls = [0]

    def execute(case):
        calls[0] += 1
        if calls[0] == 1 and spec['ncases'] >= 1:
            # Hypothesis' first example is the all-minimal one in every
            # shard; skip it (costs nothing)
            return Outcome([], [], False, skipped=True)
        ctx.journal(case)
        fails, labels, nontriv, inconclusive = check(case, ctx.workdir)
        stats.extra['runs'] += 2 + len(case['configs'])
        for h in nontriv:
            stats.nontrivial.add(h)
        if nontriv and len(stats.samples) < 2:
            stats.samples.append(json.loads(canon(case)))
        return Outcome(fails, labels, False, inconclusive=inconclusive)
    if spec.get('exclude'):
        stats.label('excluded:known:' + ','.join(spec['exclude']))
    search(case_strategy(spec['problem'], spec['nfree'],
                         tuple(spec.get('exclude', [])),
                         bool(spec.get('sweep')), spec.get('pin'),
                         spec.get('cpin')), execute,
           derive_seed(ctx.seed, 'C05', spec['name']), spec['ncases'] + 1,
           stats, shrink=False)
    return stats.result()


def run_case(case, component, ctx):
    fails, _, _, _ = check(case, ctx.workdir)
    return [f.as_dict(case) for f in fails]
