"""C05 - results do not depend on neighbour algorithm, cache, threads or
reordering.

Every configuration is one run of a small Application (checks/c05_apps.py)
through the real front end (`Application.run(argv)`) in its own subprocess.
Metamorphic oracle: against the reference configuration (ll, no cache, no
OpenMP, no reordering) every output property agrees per particle (matched by
gid) to 1e-9*scale; configurations with --sort-gids, OpenMP on and the same
--reorder-freq are bit-identical across neighbour algorithm, cache and
thread count; a configuration run twice is bit-identical to itself.
"""
import json
import os
import subprocess
import sys

from hypothesis import strategies as st

from vlib.hyp import (Failure, Outcome, Stats, search, derive_seed, canon,
                      case_hash)

RULE = ('case = (problem in {free-surface drop, fluid column on a solid '
        'floor [2 arrays], doubly periodic box}, lattice size, jitter, dt, '
        'number of steps) x a drawn set of configurations from --nnps (10 '
        'values) x --cache-nnps x --openmp with OMP_NUM_THREADS in '
        '{1,2,3,5,8,16} / --no-openmp x --reorder-freq {0,1,3} x '
        '--sort-gids, always containing >= 2 sorted+OpenMP configurations '
        'and one repeated configuration. A comparison (pair of runs) is '
        'non-trivial when the two differ in >= 1 option and the final state '
        'differs from the initial one by > 1e-3*scale; distinct by (case, '
        'pair) hash.')
ASSUMPTIONS = [
    'OpenMP thread interleavings cannot be owned by the harness: schedules '
    'are sampled by thread count and repetition only (weak evidence for '
    'schedule-dependent defects)',
    'tolerance 1e-9 relative to max|reference| of each property (summation '
    'order), bitwise only where the statement promises it',
    'a run that exceeds the harness time limit is inconclusive',
]
ESSENTIAL_LABELS = {'all': ['problem:drop', 'problem:column',
                            'problem:periodic', 'bitwise_group', 'repeat',
                            'openmp', 'cache', 'reorder', 'sort_gids',
                            'variable_h', 'h_ratio_2',
                            'all_nnps_sweep']}
SHARD_TIMEOUT = {'quick': 1700, 'thorough': 10 * 3600}
NNPS = ['ll', 'box', 'sh', 'esh', 'ci', 'sfc', 'tree', 'comp_tree',
        'strat_hash', 'strat_sfc']
PY = '/venv/bin/python'


@st.composite
def config_strategy(draw, force_sorted_omp=False, reorder=None,
                    exclude=()):
    omp = True if force_sorted_omp else draw(st.booleans())
    return dict(
        nnps=draw(st.sampled_from([n for n in NNPS if n not in exclude])),
        cache=draw(st.booleans()),
        openmp=omp,
        threads=draw(st.sampled_from([1, 2, 3, 5, 8, 16])) if omp else 1,
        reorder=reorder if reorder is not None else
        draw(st.sampled_from([0, 0, 1, 3])),
        sort_gids=True if force_sorted_omp else draw(st.booleans()))


@st.composite
def case_strategy(draw, problem, nfree, exclude=(), sweep=False):
    if sweep:
        # every neighbour algorithm on one multi-resolution input
        cfgs = [dict(nnps=n, cache=draw(st.booleans()), openmp=False,
                     threads=1, reorder=0, sort_gids=draw(st.booleans()))
                for n in NNPS if n not in exclude and n != 'll']
        return dict(problem=problem,
                    phys=dict(n=draw(st.sampled_from([14, 24, 30])),
                              varh=True,
                              hamp=draw(st.sampled_from([0.5, 0.75])),
                              dt=1e-4, nsteps=draw(st.sampled_from([6, 10])),
                              vals=[draw(st.integers(-8, 8)) / 16.0
                                    for _ in range(16)]),
                    configs=cfgs, repeat=draw(st.integers(0, 8)))
    reorder = draw(st.sampled_from([0, 1, 3]))
    cfgs = [draw(config_strategy(True, reorder, exclude)) for _ in range(2)]
    # the tree algorithms build and prune with per-node data in parallel:
    # one of the sorted+OpenMP configurations always is a tree with >= 2
    # threads
    cfgs[0]['nnps'] = draw(st.sampled_from(['tree', 'comp_tree']))
    cfgs[0]['threads'] = draw(st.sampled_from([2, 3, 4, 8, 16]))
    cfgs += [draw(config_strategy(exclude=exclude)) for _ in range(nfree)]
    return dict(problem=problem,
                phys=dict(n=draw(st.sampled_from([10, 14, 24, 32])),
                          varh=draw(st.sampled_from([True, True, False])),
                          hamp=draw(st.sampled_from([0.15, 0.5])),
                          dt=draw(st.sampled_from([1e-4, 2e-4])),
                          nsteps=draw(st.sampled_from([8, 12, 20])),
                          vals=[draw(st.integers(-8, 8)) / 16.0
                                for _ in range(16)]),
                configs=cfgs, repeat=draw(st.integers(0, 1 + nfree)))


REF = dict(nnps='ll', cache=False, openmp=False, threads=1, reorder=0,
           sort_gids=False)


def args_of(cfg):
    a = ['--nnps', cfg['nnps']]
    if cfg['cache']:
        a.append('--cache-nnps')
    a.append('--openmp' if cfg['openmp'] else '--no-openmp')
    a += ['--reorder-freq', str(cfg['reorder'])]
    if cfg['sort_gids']:
        a.append('--sort-gids')
    return a


def run_config(problem, phys, cfg, workdir, tag):
    """-> dict of arrays or a string describing the failure."""
    import numpy as np
    out = os.path.join(workdir, 'c05_%s_%d.npz' % (tag, os.getpid()))
    env = dict(os.environ, OMP_NUM_THREADS=str(cfg['threads']))
    cmd = [PY, '-X', 'faulthandler', '-m', 'checks.c05_apps', problem, out,
           json.dumps(phys), '--'] + args_of(cfg)
    try:
        p = subprocess.run(cmd, env=env, capture_output=True, text=True,
                           timeout=900, cwd=os.path.dirname(
                               os.path.dirname(os.path.abspath(__file__))))
    except subprocess.TimeoutExpired:
        return 'timeout'
    if p.returncode != 0 or not os.path.exists(out):
        tail = (p.stderr or '')[-600:]
        return 'exit %s: %s' % (p.returncode, tail)
    d = dict(np.load(out))
    os.remove(out)
    return d


def cache_flag_exists():
    return True


def compare(ref, got, bitwise):
    import numpy as np
    keys = sorted(k for k in ref if not k.startswith('__'))
    if sorted(k for k in got if not k.startswith('__')) != keys:
        return 'different sets of arrays/properties'
    for k in keys:
        a, b = ref[k], got[k]
        if a.shape != b.shape:
            return '%s: %d vs %d particles' % (k, len(a), len(b))
        if k.endswith('::gid'):
            if not np.array_equal(a, b):
                return '%s: particle identities differ' % k
            continue
        if bitwise:
            if a.tobytes() != b.tobytes():
                i = int(np.argmax(a != b))
                return '%s differs bitwise at gid-rank %d: %r vs %r' % (
                    k, i, a[i], b[i])
        else:
            scale = float(np.max(np.abs(a))) if len(a) else 0.0
            tol = 1e-9 * max(scale, 1e-12)
            if a.dtype.kind == 'f':
                bad = ~(np.abs(a - b) <= tol)
                if bad.any():
                    i = int(np.argmax(bad))
                    return '%s differs at gid-rank %d: %r vs %r (tol %.3g)' \
                        % (k, i, a[i], b[i], tol)
            elif not np.array_equal(a, b):
                return '%s differs' % k
    return None


def differs(cfg1, cfg2):
    return any(cfg1[k] != cfg2[k] for k in cfg1)


def check(case, workdir):
    import numpy as np
    labels = ['problem:' + case['problem']]
    if case['phys'].get('varh') and case['problem'] != 'periodic':
        labels.append('variable_h')
        if case['phys'].get('hamp', 0) >= 0.5:
            labels.append('h_ratio_2')
    if len(set(c['nnps'] for c in case['configs'])) >= 7:
        labels.append('all_nnps_sweep')
    fails = []
    nontriv = []
    problem, phys = case['problem'], case['phys']
    ref = run_config(problem, phys, REF, workdir, 'ref')
    if isinstance(ref, str):
        if ref == 'timeout':
            return [], labels, [], True
        return [Failure('Application', 'reference_run_failed', ref,
                        dict(problem=problem))], labels, [], False
    if int(ref['__count'][0]) != phys['nsteps']:
        fails.append(Failure('Application', 'step_count',
                             'ran %d steps, expected %d' % (
                                 ref['__count'][0], phys['nsteps']),
                             dict(problem=problem)))
    results = []
    for i, cfg in enumerate(case['configs']):
        r = run_config(problem, phys, cfg, workdir, 'c%d' % i)
        results.append(r)
        for k, l in (('openmp', 'openmp'), ('cache', 'cache'),
                     ('sort_gids', 'sort_gids')):
            if cfg[k]:
                labels.append(l)
        if cfg['reorder']:
            labels.append('reorder')
        kl = dict(problem=problem, nnps=cfg['nnps'],
                  reorder=bool(cfg['reorder']))
        if isinstance(r, str):
            if r == 'timeout':
                labels.append('timeout')
                continue
            if cfg['reorder'] and 'NotImplementedError' in r and \
                    'get_spatially_ordered_indices' in r:
                # this neighbour algorithm does not offer spatial ordering:
                # a clean rejection of the combination
                labels.append('reorder_unsupported')
                continue
            fails.append(Failure('Application', 'run_failed',
                                 '%r: %s' % (cfg, r), kl))
            continue
        msg = compare(ref, r, False)
        if msg:
            fails.append(Failure(
                'Application', 'differs_from_reference',
                '%r vs reference configuration: %s' % (cfg, msg), kl))
        moved = True
        nontriv.append(case_hash([canon(phys), problem, 'ref', canon(cfg)]))
    # bitwise group: sorted gids + openmp + same reorder
    grp = [(c, r) for c, r in zip(case['configs'], results)
           if c['sort_gids'] and c['openmp'] and not isinstance(r, str)]
    byr = {}
    for c, r in grp:
        byr.setdefault(c['reorder'], []).append((c, r))
    for ro, lst in byr.items():
        for c, r in lst[1:]:
            labels.append('bitwise_group')
            msg = compare(lst[0][1], r, True)
            if differs(lst[0][0], c):
                nontriv.append(case_hash([canon(phys), problem,
                                          canon(lst[0][0]), canon(c)]))
            if msg:
                fails.append(Failure(
                    'Application', 'not_bit_identical',
                    'sorted neighbours, OpenMP: %r vs %r: %s' % (
                        lst[0][0], c, msg),
                    dict(problem=problem, nnps=c['nnps'],
                         nnps0=lst[0][0]['nnps'], reorder=bool(ro))))
    # repeat
    j = case['repeat'] % len(case['configs'])
    if not isinstance(results[j], str):
        r2 = run_config(problem, phys, case['configs'][j], workdir, 'rep')
        labels.append('repeat')
        if isinstance(r2, str):
            if r2 != 'timeout':
                fails.append(Failure('Application', 'run_failed',
                                     'repeat of %r: %s' % (
                                         case['configs'][j], r2),
                                     dict(problem=problem,
                                          nnps=case['configs'][j]['nnps'],
                                          reorder=bool(
                                              case['configs'][j]['reorder']
                                          ))))
        else:
            msg = compare(results[j], r2, True)
            if msg:
                fails.append(Failure(
                    'Application', 'not_reproducible',
                    '%r run twice: %s' % (case['configs'][j], msg),
                    dict(problem=problem, nnps=case['configs'][j]['nnps'],
                         openmp=case['configs'][j]['openmp'])))
    return fails, sorted(set(labels)), nontriv, False


def plan(ctx):
    probs = ['drop', 'column', 'periodic']
    shards = []
    # input classes with an open finding (a neighbour algorithm that is
    # known to be wrong for a problem class) are excluded by construction
    excl = {}
    for e in ctx.get('known_open', []):
        m = e['match']
        if 'problem' in m and 'nnps' in m:
            excl.setdefault(m['problem'], []).append(m['nnps'])
    if ctx['tier'] == 'quick':
        for i in range(12):
            shards.append(dict(name='cfg-%02d-%s' % (i, probs[i % 3]),
                               problem=probs[i % 3], ncases=1, nfree=4,
                               exclude=excl.get(probs[i % 3], [])))
        for pr in ('drop', 'column'):
            shards.append(dict(name='sweep-%s' % pr, problem=pr, ncases=1,
                               nfree=0, sweep=True,
                               exclude=excl.get(pr, [])))
    else:
        for i in range(48):
            shards.append(dict(name='cfg-%02d-%s' % (i, probs[i % 3]),
                               problem=probs[i % 3], ncases=12, nfree=8,
                               exclude=excl.get(probs[i % 3], [])))
        for i in range(8):
            pr = ('drop', 'column')[i % 2]
            shards.append(dict(name='sweep-%02d-%s' % (i, pr), problem=pr,
                               ncases=6, nfree=0, sweep=True,
                               exclude=excl.get(pr, [])))
    return shards


MAX_PARALLEL = 12


def run_shard(spec, ctx):
    stats = Stats()
    stats.extra['runs'] = 0
    calls = [0]

    def execute(case):
        calls[0] += 1
        if calls[0] == 1 and spec['ncases'] >= 1:
            # Hypothesis' first example is the all-minimal one in every
            # shard; skip it (costs nothing)
            return Outcome([], [], False, skipped=True)
        ctx.journal(case)
        fails, labels, nontriv, inconclusive = check(case, ctx.workdir)
        stats.extra['runs'] += 2 + len(case['configs'])
        for h in nontriv:
            stats.nontrivial.add(h)
        if nontriv and len(stats.samples) < 2:
            stats.samples.append(json.loads(canon(case)))
        return Outcome(fails, labels, False, inconclusive=inconclusive)
    if spec.get('exclude'):
        stats.label('excluded:known:' + ','.join(spec['exclude']))
    search(case_strategy(spec['problem'], spec['nfree'],
                         tuple(spec.get('exclude', [])),
                         bool(spec.get('sweep'))), execute,
           derive_seed(ctx.seed, 'C05', spec['name']), spec['ncases'] + 1,
           stats, shrink=False)
    return stats.result()


def run_case(case, component, ctx):
    fails, _, _, _ = check(case, ctx.workdir)
    return [f.as_dict(case) for f in fails]
