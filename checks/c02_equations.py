"""C02 - compiled equations compute what the Python equation source says.

G-A: every Equation subclass shipped under pysph.sph, instantiated from its
signature, laid out by a recording dry run, is compiled in bundles (one JIT
compile per bundle, each class on its own pair of particle arrays) and
compared with the reference interpreter on generated data sets.
G-B: generated equation classes (checks/c02_gen.py) in the documented
language subset.
"""
import hashlib
import json
import math
import os
import re

from hypothesis import HealthCheck, Phase, given, seed, settings
from hypothesis import strategies as st

from vlib.hyp import (Failure, Outcome, Stats, search, derive_seed, canon,
                      case_hash)

RULE = ('G-A: bundles of shipped Equation classes (each on its own '
        'destination/source array pair, sources = [dest, other] or [other, '
        'dest], a class and its #alt instance may share a bundle, neighbour '
        'cache on in every other bundle) x kernel x '
        'dim x generated data sets (6-14 particles per array, ghost tail, '
        'values from drawn tables); G-B: generated equation classes '
        '(several instances of one class, equations without sources that '
        'define loop, SPH_KERNEL in every hook, helpers calling helpers, '
        'typed/strided/array-specific properties on both sides) evaluated '
        'as Groups or as a plain list, with the neighbour cache on or off, '
        'on new ParticleArray objects (update_particle_arrays) and twice in '
        'a row. One JIT '
        'compile per bundle. A (class, data set) pair is non-trivial when '
        'the reference executed >= 1 pair interaction (or the class has no '
        'pair hooks) and changed >= 1 value; distinct by (class, kernel, '
        'dim, data hash).')
ASSUMPTIONS = [
    'classes whose Python meaning is undefined on the generated inputs '
    '(reference raises: C-only helpers, out-of-range index, Python-only '
    'arithmetic exception) are listed in coverage.skipped_classes and not '
    'compared',
    'bitwise comparison for arithmetic-only classes with spline/Wendland '
    'kernels, else |a-b| <= 1e-9*max|ref| per property',
    'neighbour lists from LinkedListNNPS(sort_gids=True) on both sides',
    'shipped classes run serially (OpenMP off); generated programs also '
    'with OpenMP (3 and 16 threads)',
    'parallel_reduce_array is the serial no-op the manual describes '
    '(dummy_reduce_array) on the Python side, as in the generated code',
    'hooks that update an instance attribute are generated for serial, '
    'arithmetic-only programs only (one equation object, order of calls '
    'defined)',
]
ESSENTIAL_LABELS = {'all': ['shipped', 'generated', 'bitwise', 'tolerance', 'strided',
                            'constant', 'ghosts', 'openmp', 'prior_evaluator',
                            # coverage audit (DESIGN 9.7): evaluator-level
                            'nnps_cache_on', 'nnps_cache_off',
                            'update_particle_arrays', 'evaluated_twice',
                            'flat_equation_list', 'backend_explicit',
                            'group_real_false', 'unused_array:first',
                            # program-level
                            'same_class_twice', 'other_array_listed_first',
                            'gen:loop_without_sources',
                            'gen:kernel_call:post_loop',
                            'gen:hook_sets_attribute', 'arith', 'libm',
                            'omp_schedule:default', 'omp_schedule:dynamic,4',
                            'compiled_repeated',
                            'two_dests_opposite_source_order']}
SHARD_TIMEOUT = {'quick': 1700, 'thorough': 8 * 3600}
KERNELS = ['CubicSpline', 'QuinticSpline', 'WendlandQuintic', 'Gaussian',
           'SuperGaussian', 'WendlandQuinticC4', 'WendlandQuinticC6',
           'WendlandQuinticC2_1D', 'WendlandQuinticC4_1D',
           'WendlandQuinticC6_1D']
KDIMS = {'WendlandQuintic': [2, 3], 'WendlandQuinticC4': [2, 3],
         'WendlandQuinticC6': [2, 3], 'WendlandQuinticC2_1D': [1],
         'WendlandQuinticC4_1D': [1], 'WendlandQuinticC6_1D': [1]}

BASE_PROPS = ('x', 'y', 'z', 'h', 'u', 'v', 'w', 'rho', 'm')


# --------------------------------------------------------------- layouts
# Layouts the recording dry run cannot see (the strided accesses sit behind a
# data-dependent branch it does not reach): name -> ('prop', stride)
LAYOUT_OVERRIDES = {
    'FreeSurfaceBoundaryCondition': dict(coeff=('prop', 100),
                                         col_idx=('prop', 100),
                                         row_idx=('prop', 100)),
}
# Constructor arguments without a default whose generic guess (all equal)
# makes the formula divide by zero in Python
# further properties with a positive physical meaning (entropy function:
# EntropyBasedDissipationTrigger takes log of a ratio of entropies)
EXTRA_POSITIVE = ('s',)
ARG_OVERRIDES = {
    'EntropyBasedDissipationTrigger': dict(l0=0.5, l1=1.5),
}


def prepare_class(cls):
    """Make the Python meaning of `cls` executable in this (serial) process:
    math.h names, and `parallel_reduce_array`, which the manual defines as
    doing nothing in serial (the generated code imports
    `dummy_reduce_array` under that name; the module-level import of the
    equation's file is the MPI one and needs mpi4py)."""
    import sys
    from vlib import eqcatalog as C
    from pysph.base.reduce_array import dummy_reduce_array
    C.inject_math(cls)
    C.OVERRIDES.update((k, v) for k, v in ARG_OVERRIDES.items()
                       if k not in C.OVERRIDES)
    for klass in cls.__mro__:
        mod = sys.modules.get(klass.__module__)
        if mod is not None and klass.__module__.startswith('pysph.') and \
                hasattr(mod, 'parallel_reduce_array'):
            mod.parallel_reduce_array = dummy_reduce_array


def resolve(key):
    """'module.Class' or 'module.Class#alt' -> (class, alt)"""
    from vlib import eqcatalog as C
    base, _, tag = key.partition('#')
    return C.equation_classes()[base], tag == 'alt'


def short_name(key):
    return key.partition('#')[0].split('.')[-1]


def infer_layout(cls, dim, kernel_name, alt=False):
    """Recording dry run -> dict(dprops, sprops, reason).  Each entry:
    name -> ('prop', stride) | ('const', length)."""
    import numpy as np
    from pysph.base import kernels
    from pysph.sph.equation import Group
    from vlib import eqcatalog as C
    from vlib import jit
    from vlib.refeval import RefEval, RefUndefined
    prepare_class(cls)
    pyprops = []
    for attempt in range(8):
        lay, why = _infer_layout(cls, dim, kernel_name, pyprops, alt)
        m = why and re.search(r'has no property/constant (\w+)\.', why)
        if lay is not None or not m or m.group(1) in pyprops:
            if lay is not None:
                lay.update(LAYOUT_OVERRIDES.get(cls.__name__, {}))
            return lay, why
        # reduce / py_initialize read this through the ParticleArray itself
        pyprops.append(m.group(1))
    return lay, why


def _infer_layout(cls, dim, kernel_name, pyprops, alt=False):
    import numpy as np
    from pysph.base import kernels
    from pysph.sph.equation import Group
    from vlib import eqcatalog as C
    from vlib import jit
    from vlib.refeval import RefEval, RefUndefined
    recs = []
    for n in (5, 8):
        obj, why = C.instantiate(cls, 'dd', ['dd', 'ss'], dim, alt=alt)
        if obj is None:
            return None, why
        has_pair = any(hasattr(obj, h) for h in ('loop', 'loop_all',
                                                 'initialize_pair'))
        if not has_pair:
            obj, why = C.instantiate(cls, 'dd', None, dim, alt=alt)
            if obj is None:
                return None, why

        def arr(name, off):
            co = [[(0.05 * ((7 * i + 3 * a + off) % 11)) if a < dim else 0.0
                   for i in range(n)] for a in range(3)]
            props = dict(
                x=dict(data=co[0]), y=dict(data=co[1]), z=dict(data=co[2]),
                h=dict(data=[1.0] * n), u=dict(data=[0.1] * n),
                v=dict(data=[0.2] * n), w=dict(data=[0.3] * n),
                rho=dict(data=[1.0] * n), m=dict(data=[1.0] * n))
            for q in pyprops:
                props[q] = dict(data=[0] * n, type='int') \
                    if q in C.INT_PROPS else dict(data=[0.25] * n)
            return dict(name=name, n=n, nghost=0, props=props)
        arrays = jit.make_arrays([arr('dd', 0), arr('ss', 1)])
        K = getattr(kernels, kernel_name)(dim=dim)
        nn = jit.sorted_nnps(dim, arrays, K.radius_scale)
        rec = {}
        store = {}

        class Rec(RefEval):
            def _call(self, meth, env):
                for a in C.inspect.signature(meth).parameters:
                    if a[:2] in ('d_', 's_') and a not in env and \
                            a not in ('d_idx', 's_idx'):
                        if a not in store:
                            store[a] = C.Elastic(a, rec)
                            # requested but possibly never indexed on this
                            # data (guarded by a branch): still laid out
                            rec.setdefault(a, -1)
                        env[a] = store[a]
                return RefEval._call(self, meth, env)
        r = Rec(arrays, [Group(equations=[obj], real=False)], K, nn)
        try:
            r.compute(0.5, 0.125)
        except RefUndefined as ex:
            return None, 'reference undefined in dry run: %s' % ex
        except Exception as ex:
            return None, 'dry run failed: %r' % (ex,)
        recs.append((n, dict(rec)))
    (n1, r1), (n2, r2) = recs
    lay = {}
    for key in sorted(set(r1) | set(r2)):
        m1, m2 = r1.get(key, -1), r2.get(key, -1)
        nm = key[2:]
        if max(m1, m2) < 0:
            ent = ('prop', 1)
        elif m2 > m1 and m2 >= n1:
            s1 = -(-(m1 + 1) // n1)
            s2 = -(-(m2 + 1) // n2)
            stride = max(s1, s2, 1)
            ent = ('prop', stride)
        elif max(m1, m2) < n1 and nm in BASE_PROPS:
            ent = ('prop', 1)
        elif m1 == m2:
            # index does not scale with the number of particles
            ent = ('const', max(m1, m2) + 1) if max(m1, m2) + 1 > 1 or \
                nm not in BASE_PROPS else ('prop', 1)
        else:
            ent = ('prop', max(1, -(-(m2 + 1) // n2)))
        old = lay.get(nm)
        if old is None or (old[0] == ent[0] and ent[1] > old[1]):
            lay[nm] = ent
        elif old[0] != ent[0]:
            # accessed as property on one side, constant-like on the other:
            # a per-particle property is the safe superset
            if ent[0] == 'prop':
                lay[nm] = ent
    for q in pyprops:
        lay.setdefault(q, ('prop', 1))
    return lay, None


# ------------------------------------------------------------------ data
def table_value(table, name, j):
    h = int(hashlib.md5(name.encode()).hexdigest()[:6], 16)
    return table[(h + 7 * j) % len(table)]


def build_spec(name, n, nghost, dim, lay, data, off, hmul):
    from vlib import eqcatalog as C
    pos, gen = data['pos'], data['gen']
    L = data['L']
    props = {}
    for a, nm in enumerate(('x', 'y', 'z')):
        if a < dim:
            props[nm] = dict(data=[
                L * table_value(data['coord'], nm + name, j)
                for j in range(n)])
        else:
            props[nm] = dict(data=[0.0] * n)
    props['h'] = dict(data=[hmul * data['h0'] *
                            table_value(data['hvar'], 'h' + name, j)
                            for j in range(n)])
    consts = {}
    names = dict(lay)
    for nm in ('u', 'v', 'w', 'rho', 'm'):
        names.setdefault(nm, ('prop', 1))
    for nm, (kind, size) in sorted(names.items()):
        if nm in ('x', 'y', 'z', 'h', 'tag', 'gid', 'pid'):
            continue
        tp = C.INT_PROPS.get(nm, 'double')
        cnt = n * size if kind == 'prop' else size
        if tp != 'double':
            vals = [0] * cnt
        elif nm in C.POSITIVE or nm in EXTRA_POSITIVE:
            vals = [table_value(pos, nm + name, j) for j in range(cnt)]
        else:
            vals = [table_value(gen, nm + name, j) for j in range(cnt)]
        if kind == 'prop':
            props[nm] = dict(type=tp, stride=size, data=vals)
        else:
            consts[nm] = dict(type='long' if tp != 'double' else 'double',
                              data=vals)
    return dict(name=name, n=n, nghost=nghost, props=props,
                constants=consts)


@st.composite
def data_strategy(draw, nclasses):
    q = st.integers(8, 32).map(lambda k: k / 16.0)        # [0.5, 2]
    g = st.integers(-16, 16).map(lambda k: k / 16.0)      # [-1, 1]
    return dict(
        pos=draw(st.lists(q, min_size=16, max_size=16)),
        gen=draw(st.lists(g, min_size=16, max_size=16)),
        coord=draw(st.lists(st.integers(0, 64).map(lambda k: k / 64.0),
                            min_size=24, max_size=24)),
        hvar=draw(st.lists(st.sampled_from([0.8, 1.0, 1.0, 1.25]),
                           min_size=8, max_size=8)),
        h0=draw(st.sampled_from([0.35, 0.5, 0.7])),
        L=draw(st.sampled_from([1.0, 1.5])),
        nd=draw(st.integers(6, 12)), ns=draw(st.integers(5, 10)),
        nghost=draw(st.integers(0, 3)),
        t=draw(st.integers(0, 8)) / 8.0, dt=draw(st.integers(1, 8)) / 64.0)


# ---------------------------------------------------------------- bundle
class Member(object):
    pass


def prepare_bundle(keys, kernel_name, dim, first, stats):
    """Instantiate, lay out, dry-run; returns members that are comparable."""
    from pysph.base import kernels
    from vlib import eqcatalog as C
    from vlib import jit
    from vlib.refeval import RefEval, RefUndefined
    from pysph.sph.equation import Group
    classes = C.equation_classes()
    members = []
    skipped = stats.extra.setdefault('skipped_classes', {})
    for i, key in enumerate(keys):
        cls, alt = resolve(key)
        lay, why = infer_layout(cls, dim, kernel_name, alt)
        if lay is None:
            skipped[key] = why
            continue
        m = Member()
        m.key, m.cls, m.lay, m.i = key, cls, lay, i
        m.dn, m.sn = 'e%dd' % i, 'e%ds' % i
        probe, _ = C.instantiate(cls, m.dn, [m.dn, m.sn], dim, alt=alt)
        m.has_pair = any(hasattr(probe, h) for h in ('loop', 'loop_all',
                                                     'initialize_pair'))
        # the destination itself and a second array; every other member
        # lists the second array first (source order = order of the loops)
        # (decided by the class key, so that a replay of one class sees
        # the same order)
        odd = int(hashlib.md5(key.encode()).hexdigest()[:4], 16) % 2
        m.sources = ([m.dn, m.sn] if not odd else [m.sn, m.dn]) \
            if m.has_pair else None
        m.src_first = bool(m.has_pair and odd)
        m.arith = C.uses_only_arithmetic(probe) and \
            kernel_name in C.KERNEL_ARITH
        m.strided = any(k == 'prop' and s > 1 for k, s in lay.values())
        m.consts = any(k == 'const' for k, s in lay.values())
        # reference objects and arrays
        m.ref_eq, _ = C.instantiate(cls, m.dn, m.sources, dim, alt=alt)
        m.ref_arrays = jit.make_arrays(member_specs(m, dim, first))
        m.ref_kernel = getattr(kernels, kernel_name)(dim=dim)
        m.ref_nnps = jit.sorted_nnps(dim, m.ref_arrays,
                                     m.ref_kernel.radius_scale)
        m.ref = RefEval(m.ref_arrays, [Group(equations=[m.ref_eq])],
                        m.ref_kernel, m.ref_nnps)
        # membership is decided on the first data set and two variants of it
        # (signs flipped, tables reversed) that reach other branches
        probes = [first,
                  dict(first, gen=[-g for g in first['gen']]),
                  dict(first, gen=first['gen'][::-1], pos=first['pos'][::-1],
                       coord=first['coord'][::-1])]
        why = None
        for pr in probes:
            jit.load_data(m.ref_arrays, member_specs(m, dim, pr))
            m.ref_nnps.update_domain()
            m.ref_nnps.update()
            try:
                m.ref.compute(pr['t'], pr['dt'])
            except RefUndefined as ex:
                why = 'reference undefined: %s' % str(ex)[:200]
                break
            except Exception as ex:
                why = 'reference failed: %r' % (ex,)
                break
        if why:
            skipped[key] = why
            continue
        m.cmp_eq, _ = C.instantiate(cls, m.dn, m.sources, dim, alt=alt)
        members.append(m)
    return members


def member_specs(m, dim, data):
    return [build_spec(m.dn, data['nd'], data['nghost'], dim, m.lay, data,
                       0, 1.0),
            build_spec(m.sn, data['ns'], 0, dim, m.lay, data, 1, 1.1)]


def compile_bundle(members, kernel_name, dim, first, cache=False):
    from pysph.base import kernels
    from pysph.sph.equation import Group
    from vlib import jit
    arrays = []
    groups = []
    for m in members:
        m.cmp_arrays = jit.make_arrays(member_specs(m, dim, first))
        arrays += m.cmp_arrays
        groups.append(Group(equations=[m.cmp_eq]))
    K = getattr(kernels, kernel_name)(dim=dim)
    # cache: the neighbour finder of the evaluator keeps per-destination
    # neighbour lists (the default of SPHEvaluator's own factory)
    ev = jit.compiled_evaluator(arrays, groups, K, dim, cache=bool(cache))
    return ev


def run_bundle_data(members, ev, dim, kernel_name, data):
    """-> list of (member, failures, labels, nontrivial)."""
    import numpy as np
    from vlib import jit
    from vlib.refeval import RefUndefined
    out = []
    for m in members:
        specs = member_specs(m, dim, data)
        jit.load_data(m.ref_arrays, specs)
        jit.load_data(m.cmp_arrays, specs)
    # The reference runs first, for every member: compiled code is executed
    # only on data for which the Python meaning of every class in the bundle
    # is defined (an index outside its array is undefined in Python and a
    # wild read or write in C).
    before_all, undefined = {}, {}
    for m in members:
        before_all[m.key] = [
            dict((p, a.get_carray(p).get_npy_array().copy())
                 for p in a.properties) for a in m.ref_arrays]
        m.ref_nnps.update_domain()
        m.ref_nnps.update()
        m.ref.pair_calls = 0
        try:
            m.ref.compute(data['t'], data['dt'])
        except RefUndefined as ex:
            undefined[m.key] = 'ref_undefined'
        except Exception as ex:
            undefined[m.key] = 'ref_failed'
    if undefined:
        for m in members:
            out.append((m, [], ['shipped', 'bundle_not_run',
                                undefined.get(m.key, 'ref_defined')], False))
        return out
    ev.update()
    try:
        ev.evaluate(data['t'], data['dt'])
        cerr = None
    except Exception as ex:
        cerr = ex
    for m in members:
        labels = ['shipped']
        fails = []
        kl = dict(cls=m.key.split('.')[-1])
        if cerr is not None:
            out.append((m, [Failure('shipped', 'exception', repr(cerr),
                                    kl)], labels, False))
            continue
        before = before_all[m.key]
        bitwise = m.arith
        labels.append('bitwise' if bitwise else 'tolerance')
        if getattr(m, 'src_first', False):
            labels.append('other_array_listed_first')
        if m.strided:
            labels.append('strided')
        if m.consts:
            labels.append('constant')
        if data['nghost']:
            labels.append('ghosts')
        diffs = jit.compare_arrays(m.ref_arrays, m.cmp_arrays,
                                   bitwise=bitwise, rtol=1e-9)
        if diffs:
            # Does the result depend on the initial contents of a declared
            # local matrix?  C leaves those uninitialised (Python zeroes
            # them), so such a case has no defined Python meaning.
            from vlib import eqcatalog as C2
            ref1 = [dict((p, a.get_carray(p).get_npy_array().copy())
                         for p in a.properties) for a in m.ref_arrays]
            jit.load_data(m.ref_arrays, member_specs(m, dim, data))
            m.ref_nnps.update_domain()
            m.ref_nnps.update()
            try:
                with C2.declare_fill([m.ref_eq], 7.25e3):
                    m.ref.compute(data['t'], data['dt'])
            except Exception:
                pass
            same = True
            for a, b in zip(m.ref_arrays, ref1):
                for p, old in b.items():
                    if not jit.bits_equal(
                            a.get_carray(p).get_npy_array(), old):
                        same = False
            if not same:
                out.append((m, [], labels + ['uninitialised_local_read'],
                            False))
                continue
            d = diffs[0]
            fails.append(Failure(
                'shipped', 'state_differs',
                '%s (kernel %s, dim %d): array %s property %s index %s: '
                'reference %s, compiled %s (%s)' % ((m.key, kernel_name,
                                                     dim) + d), kl))
        ra = jit.public_numeric_attrs(m.ref_eq)
        ca = jit.compiled_equation_attrs(ev.func_eval, m.cmp_eq)
        if hasattr(m.ref_eq, 'py_initialize'):
            # py_initialize runs on the Python object (documented: it is not
            # transpiled); attributes it sets never reach the compiled copy,
            # and the statement is about particle properties and constants
            ra = {}
        for k, v in ra.items():
            if k in ca and not (ca[k] == v or (v != v and ca[k] != ca[k])):
                if bitwise or abs(ca[k] - v) > 1e-9 * max(abs(v), 1e-300):
                    fails.append(Failure(
                        'shipped', 'equation_attribute',
                        '%s.%s: reference %r, compiled %r' % (m.key, k, v,
                                                              ca[k]), kl))
                    break
        changed = False
        for a, b in zip(m.ref_arrays, before):
            for p, old in b.items():
                new = a.get_carray(p).get_npy_array()
                if len(new) != len(old) or not jit.bits_equal(new, old):
                    changed = True
        nt = changed and (m.ref.pair_calls > 0 or not m.has_pair)
        out.append((m, fails, labels, nt))
    return out


# ------------------------------------------------------------ entry points
def class_keys():
    """every shipped class, and a second entry `#alt` for classes whose
    constructor has boolean options or float options defaulting to 0.0
    (these switch terms of the formula on: tensile correction, viscosity
    coefficients, body forces)"""
    from vlib import eqcatalog as C
    out = []
    for k, cls in C.equation_classes().items():
        out.append(k)
        if C.has_alt(cls):
            out.append(k + '#alt')
    return out


_TWIN = {}


def twin_type_conflict(base):
    """True when the plain and the #alt instance of class `base` carry a
    public attribute of different Python type (int in one, float in the
    other).  The generated C class of all instances of a class is typed from
    one instance; before the repair in /repo (replay
    replays/C02/twin_instances_int_float_attribute.json) the other
    instance's value was converted (0.5 -> 0 for
    sisph.GTVFAcceleration.hij_fac = `1 if internal else 0.5`).  Such pairs
    share a bundle and are counted (twin:attribute_type_differs)."""
    if base not in _TWIN:
        from vlib import eqcatalog as C
        cls = C.equation_classes()[base]
        prepare_class(cls)
        a, _ = C.instantiate(cls, 'd', ['d', 's'], 2)
        b, _ = C.instantiate(cls, 'd', ['d', 's'], 2, alt=True)
        conflict = False
        if a is not None and b is not None:
            ta = dict((k, type(v)) for k, v in vars(a).items()
                      if not k.startswith('_'))
            tb = dict((k, type(v)) for k, v in vars(b).items()
                      if not k.startswith('_'))
            conflict = ta != tb
        _TWIN[base] = conflict
    return _TWIN[base]


def pack(keys, per):
    """Bundles of `per` classes with pairwise different class names (the
    generated wrappers are keyed by class name)."""
    bundles = []
    for k in keys:
        short = short_name(k)
        base = k.partition('#')[0]
        for b in bundles:
            # two instances of one class (plain and #alt) may share an
            # evaluator; two different classes of one name may not
            if len(b) < per and all(
                    short != short_name(x) or
                    base == x.partition('#')[0] for x in b):
                b.append(k)
                break
        else:
            bundles.append([k])
    return bundles


def plan(ctx):
    keys = class_keys()
    seedv = ctx['seed']
    shards = []
    if ctx['tier'] == 'quick':
        per, nb, ndata = 10, 12, 6
        # rotate through the catalogue with the seed so that successive
        # seeds cover all classes
        start = (seedv * per * nb) % max(1, len(keys))
        rot = keys[start:] + keys[:start]
        bundles = pack(rot[:per * nb], per)
        for b, grp in enumerate(bundles[:nb]):
            kern = KERNELS[(b + seedv) % len(KERNELS)]
            dims = KDIMS.get(kern, [1, 2, 3])
            dim = dims[(b + seedv) % len(dims)]
            shards.append(dict(name='shipped-%02d' % b, kind='shipped',
                               classes=grp, kernel=kern, dim=dim,
                               ndata=ndata, cache=(b + seedv) % 2))
    else:
        per, ndata = 12, 30
        b = 0
        for rep in range(3):
            for grp in pack(keys, per):
                kern = KERNELS[(b + seedv + rep * 3) % len(KERNELS)]
                dims = KDIMS.get(kern, [1, 2, 3])
                dim = dims[(b + seedv + rep) % len(dims)]
                shards.append(dict(name='shipped-%03d' % b, kind='shipped',
                                   classes=grp, kernel=kern,
                                   dim=dim, ndata=ndata,
                                   cache=(b + rep) % 2))
                b += 1
    # a fixed bundle of classes with strided properties and constants, so
    # that those layouts are exercised whatever window the seed selects
    core = [k for k in keys if k.split('.')[-1] in (
        'HookesDeviatoricStressRate', 'RigidBodyMotion',
        'ContinuityEquationDeltaSPH', 'GradientCorrectionPreStep',
        'IsothermalEOS', 'VelocityGradient', 'CorrectionMatrix',
        'MomentumEquationWithStress')]
    seen = set()
    core = [k for k in core
            if not (k.split('.')[-1] in seen or seen.add(k.split('.')[-1]))]
    shards.append(dict(name='shipped-core', kind='shipped', classes=core,
                       kernel='QuinticSpline', dim=2,
                       ndata=6 if ctx['tier'] == 'quick' else 30))
    # classes that use kernel-derived symbols whose value depends on the
    # dimension (WDP, GHI..), with a kernel whose constants do as well
    sg = [k for k in keys if k in (
        'pysph.sph.wc.basic.MomentumEquation#alt',
        'pysph.sph.wc.basic.MomentumEquationDeltaSPH',
        'pysph.sph.basic_equations.SummationDensity',
        'pysph.sph.gas_dynamics.basic.MPMAccelerations#alt',
        'pysph.sph.wc.transport_velocity.MomentumEquationArtificialStress',
        'pysph.sph.wc.kernel_correction.GradientCorrectionPreStep',
        'pysph.sph.isph.sisph.GTVFAcceleration',
        'pysph.sph.isph.sisph.GTVFAcceleration#alt')]
    sg = (pack(sg, 10) or [[]])[0]
    shards.append(dict(name='shipped-core-sg', kind='shipped', classes=sg,
                       kernel='SuperGaussian', dim=2 + seedv % 2,
                       ndata=6 if ctx['tier'] == 'quick' else 30))
    try:
        from checks import c02_gen
        shards += c02_gen.plan(ctx)
    except ImportError:
        pass
    return shards


def run_shard(spec, ctx):
    if spec['kind'] != 'shipped':
        from checks import c02_gen
        return c02_gen.run_shard(spec, ctx)
    stats = Stats()
    stats.extra['jit_compiles'] = 0
    stats.extra['classes_compared'] = []
    kernel_name, dim = spec['kernel'], spec['dim']
    calls = [0]
    holder = {}
    for k in spec['classes']:
        base, _, tag = k.partition('#')
        if tag == 'alt' and base in spec['classes'] and \
                twin_type_conflict(base):
            stats.label('twin:attribute_type_differs')

    def execute(data):
        calls[0] += 1
        if 'members' not in holder:
            ctx.journal(dict(bundle=spec['classes'], kernel=kernel_name,
                             dim=dim, data=data))
            members = prepare_bundle(spec['classes'], kernel_name, dim,
                                     data, stats)
            holder['members'] = members
            if members:
                pf = build_prior(kernel_name, dim, stats)
                if pf is not None:
                    holder['ev'] = None
                    holder['cfail'] = pf
                    return Outcome([pf], ['shipped'], False)
                try:
                    holder['ev'] = compile_bundle(members, kernel_name, dim,
                                                  data, spec.get('cache'))
                except SystemExit:
                    holder['ev'] = None
                    holder['cfail'] = Failure(
                        'shipped', 'compile_failed',
                        'bundle %r does not compile' % (
                            [m.key for m in members],))
                    return Outcome([holder['cfail']], ['shipped'], False)
                stats.extra['jit_compiles'] += 1
                stats.extra['classes_compared'] = [m.key for m in members]
        members = holder['members']
        if holder.get('cfail') is not None:
            return Outcome([holder['cfail']], ['shipped'], False)
        if not members or holder.get('ev') is None:
            return Outcome([], ['shipped'], False, skipped=True)
        ctx.journal(dict(bundle=[m.key for m in members],
                         kernel=kernel_name, dim=dim, data=data))
        res = run_bundle_data(members, holder['ev'], dim, kernel_name, data)
        fails, labels, nt = [], set(), False
        labels.add('nnps_cache_on' if spec.get('cache') else 'nnps_cache_off')
        if len(set(m.cls for m in members)) < len(members):
            labels.add('same_class_twice')
        for m, f, l, n in res:
            fails += f
            labels.update(l)
            if n:
                nt = True
                stats.nontrivial.add(case_hash([m.key, kernel_name, dim,
                                                canon(data)]))
        stats.extra['class_evaluations'] = stats.extra.get(
            'class_evaluations', 0) + len(res)
        if nt and 'sample' not in holder:
            holder['sample'] = data
        return Outcome(fails, sorted(labels), False)

    search(data_strategy(len(spec['classes'])), execute,
           derive_seed(ctx.seed, 'C02', spec['name']), spec['ndata'], stats,
           shrink=True)
    for f in stats.failures:
        f['case'] = dict(bundle=[f['klass'].get('cls')], kernel=kernel_name,
                         dim=dim, data=f['case'], cache=spec.get('cache', 0),
                         classes=[k for k in spec['classes']
                                  if short_name(k) == str(
                                      f['klass'].get('cls'))])
    if 'sample' in holder:
        stats.samples = [dict(
            bundle=[m.key for m in holder.get('members', [])][:4],
            kernel=kernel_name, dim=dim,
            data=json.loads(canon(holder['sample'])))]
    return stats.result()


def build_prior(kernel_name, dim, stats):
    """An evaluator with the same kernel class in another dimension, built
    first in this process (see checks/c02_warm.py) -> Failure or None."""
    from checks import c02_warm as W
    od = W.other_dim(kernel_name, dim, KDIMS)
    if od is None:
        return None
    try:
        diffs = W.build_and_check(kernel_name, od)
    except SystemExit:
        return Failure('shipped', 'compile_failed',
                       'prior evaluator (%s, dim %d) does not compile' % (
                           kernel_name, od), dict(cls='WarmPair'))
    stats.label('prior_evaluator')
    if diffs:
        return Failure('shipped', 'state_differs',
                       'prior evaluator %s dim %d: array %s property %s '
                       'index %s: reference %s, compiled %s (%s)' % (
                           (kernel_name, od) + diffs[0]),
                       dict(cls='WarmPair'))
    return None


def run_case(case, component, ctx):
    if 'program' in case:
        from checks import c02_gen
        return c02_gen.run_case(case, component, ctx)
    stats = Stats()
    keys = case.get('classes') or case['bundle']
    members = prepare_bundle(keys, case['kernel'], case['dim'],
                             case['data'], stats)
    pf = build_prior(case['kernel'], case['dim'], stats)
    if pf is not None:
        return [pf.as_dict(case)]
    if not members:
        return []
    try:
        ev = compile_bundle(members, case['kernel'], case['dim'],
                            case['data'], case.get('cache'))
    except SystemExit:
        return [Failure('shipped', 'compile_failed',
                        'does not compile').as_dict(case)]
    res = run_bundle_data(members, ev, case['dim'], case['kernel'],
                          case['data'])
    out = []
    for m, f, l, n in res:
        out += [x.as_dict(case) for x in f]
    return out
