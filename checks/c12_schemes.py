"""C12 - every shipped scheme yields a complete, generatable simulation.

Stage 1a (cheap, many): configure_solver + setup_properties on plain
particle arrays + get_equations, then an INDEPENDENT requirement scan (hook
signatures + documented pair-symbol formulas) over every equation and every
stepper, and construction of AccelerationEval / SPHCompiler.
Stage 1b: code generation (get_code) must succeed.
Stage 2 (sampled): JIT compile and run 3 steps on a small lattice; all
properties finite afterwards.
"""
import inspect
import itertools
import math

from hypothesis import strategies as st

from vlib.hyp import (Failure, Outcome, Stats, search, derive_seed, canon,
                      case_hash)

RULE = ('configuration = scheme class x values of its boolean/enumerated '
        'options x dim x with/without solid arrays x clean in {T,F}; stage 1 '
        'enumerates a pairwise-covering + Hypothesis-drawn sample in quick '
        'and the full product in thorough; stage 2 compiles and runs a '
        'sample. Non-trivial = configuration differing from the scheme '
        'defaults in >= 1 option; distinct by configuration hash.')
ASSUMPTIONS = [
    'plain particle arrays = pysph.base.utils.get_particle_array(name, x, '
    'y, z, h, m, rho) (its documented default property set)',
    'requirements derived independently: d_*/s_* hook arguments and the '
    'documented pair-symbol formulas; constants satisfy a requirement',
    'stage 2 initial state: regular lattice, positive finite fields, small '
    'fixed dt; non-finite values after 3 steps are violations',
    'ElasticSolidsScheme has no setup_properties and is outside C12',
]
ESSENTIAL_LABELS = {'all': ['stage1', 'stage1b', 'with_solids',
                            'without_solids', 'clean_false', 'non_default']}
SHARD_TIMEOUT = {'quick': 1700, 'thorough': 10 * 3600}

# scheme -> (module, ctor kwargs (without fluids/solids/dim), option space,
#            dims, takes_solids)
B = [False, True]
SCHEMES = {
    'WCSPHScheme': ('pysph.sph.scheme', dict(rho0=1.0, c0=10.0, h0=0.13,
                                            hdx=1.3),
                    dict(tensile_correction=B, hg_correction=B, update_h=B,
                         delta_sph=B, summation_density=B, nu=[0.0, 0.01],
                         alpha=[0.0, 0.1]), [1, 2, 3], True),
    'TVFScheme': ('pysph.sph.scheme', dict(rho0=1.0, c0=10.0, nu=0.01,
                                          p0=100.0, pb=100.0, h0=0.13),
                  dict(alpha=[0.0, 0.1], nu=[0.0, 0.01]), [1, 2, 3], True),
    'AdamiHuAdamsScheme': ('pysph.sph.scheme', dict(rho0=1.0, c0=10.0,
                                                   nu=0.01, h0=0.13),
                           dict(alpha=[0.0, 0.1], nu=[0.0, 0.01]),
                           [1, 2, 3], True),
    'GasDScheme': ('pysph.sph.scheme', dict(gamma=1.4, kernel_factor=1.2),
                   dict(adaptive_h_scheme=['mpm', 'gsph'], update_alpha1=B,
                        update_alpha2=B, has_ghosts=B), [1, 2, 3], True),
    'GSPHScheme': ('pysph.sph.scheme', dict(gamma=1.4, kernel_factor=1.2),
                   dict(rsolver=list(range(11)), interpolation=[0, 1, 2, 3],
                        monotonicity=[0, 1, 2], interface_zero=B, hybrid=B,
                        has_ghosts=B), [1, 2, 3], True),
    'ADKEScheme': ('pysph.sph.scheme', dict(gamma=1.4),
                   dict(has_ghosts=B, eps=[0.0, 0.5]), [1, 2, 3], True),
    'IISPHScheme': ('pysph.sph.iisph', dict(rho0=1.0),
                    dict(has_ghosts=B, nu=[0.0, 0.01]), [1, 2, 3], True),
    'GTVFScheme': ('pysph.sph.wc.gtvf', dict(rho0=1.0, c0=10.0, nu=0.01,
                                            h0=0.13, pref=100.0),
                   dict(alpha=[0.0, 0.1], nu=[0.0, 0.01]), [2, 3], True),
    'EDACScheme': ('pysph.sph.wc.edac', dict(c0=10.0, nu=0.01, rho0=1.0,
                                            h=0.13),
                   dict(pb=[0.0, 100.0], clamp_p=B, bql=B,
                        alpha=[0.0, 0.1], eps=[0.0, 0.5],
                        inviscid_solids=[None, 'SOLIDS'],
                        nu=[0.0, 0.01]), [1, 2, 3], True),
    'CRKSPHScheme': ('pysph.sph.wc.crksph', dict(rho0=1.0, c0=10.0, nu=0.01,
                                                h0=0.13, p0=100.0),
                     dict(has_ghosts=B), [1, 2, 3], False),
    'PCISPHScheme': ('pysph.sph.wc.pcisph', dict(rho0=1.0, nu=0.01),
                     dict(show_itercount=B, nu=[0.0, 0.01]), [1, 2, 3],
                     False),
    'ISPHScheme': ('pysph.sph.isph.isph', dict(nu=0.01, rho0=1.0, c0=10.0,
                                              alpha=0.1),
                   dict(symmetric=B), [1, 2, 3], True),
    'SISPHScheme': ('pysph.sph.isph.sisph', dict(nu=0.01, rho0=1.0, c0=10.0,
                                                pref=100.0),
                    dict(hg_correction=B, has_ghosts=B, gtvf=B, symmetric=B,
                         internal_flow=B, use_pref=B), [1, 2, 3], True),
    'MAGMA2Scheme': ('pysph.sph.gas_dynamics.magma2', dict(gamma=1.4),
                     dict(adaptive_h_scheme=['magma2', 'mpm'],
                          reconstruction_order=[0, 1, 2],
                          formulation=['mi1', 'mi2', 'stdgrad'],
                          recycle_accelerations=B, has_ghosts=B),
                     [1, 2, 3], True),
    'TSPHScheme': ('pysph.sph.gas_dynamics.tsph', dict(gamma=1.4,
                                                      hfact=1.2),
                   dict(has_ghosts=B), [1, 2, 3], True),
    'PSPHScheme': ('pysph.sph.gas_dynamics.psph', dict(gamma=1.4,
                                                      hfact=1.2),
                   dict(has_ghosts=B), [1, 2, 3], True),
}


def option_names(name):
    return sorted(SCHEMES[name][2])


def all_configs(name):
    mod, base, opts, dims, solids = SCHEMES[name]
    keys = sorted(opts)
    out = []
    for dim in dims:
        for ws in ([False, True] if solids else [False]):
            for clean in (True, False):
                for vals in itertools.product(*[opts[k] for k in keys]):
                    out.append(dict(scheme=name, dim=dim, solids=ws,
                                    clean=clean,
                                    options=dict(zip(keys, vals))))
    return out


def pairwise_configs(name):
    """A small covering sample: defaults, each option value alone, and all
    pairs via a greedy pass over the full product (capped)."""
    full = all_configs(name)
    if len(full) <= 64:
        return full

    def feats(c):
        f = [('dim', c['dim']), ('solids', c['solids']),
             ('clean', c['clean'])] + sorted(
                 (k, repr(v)) for k, v in c['options'].items())
        return set(itertools.combinations(f, 2))
    need = set()
    for c in full[::max(1, len(full) // 400)]:
        need |= feats(c)
    chosen = []
    pool = full[::max(1, len(full) // 600)]
    while need and len(chosen) < 48:
        best = max(pool, key=lambda c: len(feats(c) & need))
        gain = feats(best) & need
        if not gain:
            break
        chosen.append(best)
        need -= gain
    return chosen


# --------------------------------------------------------------- building
def make_scheme(cfg):
    import importlib
    mod, base, opts, dims, takes_solids = SCHEMES[cfg['scheme']]
    cls = getattr(importlib.import_module(mod), cfg['scheme'])
    kw = dict(base)
    o = dict(cfg['options'])
    solids = ['solid'] if cfg['solids'] else []
    if o.get('inviscid_solids') == 'SOLIDS':
        # a separate boundary array treated as an inviscid (slip) wall
        o['inviscid_solids'] = ['wall']
    if cfg['scheme'] == 'MAGMA2Scheme':
        if o.get('adaptive_h_scheme') == 'magma2':
            kw['ndes'] = {1: 10, 2: 30, 3: 60}[cfg['dim']]
        else:
            kw['hfact'] = 1.2
    kw.update(o)
    if takes_solids:
        s = cls(fluids=['fluid'], solids=solids, dim=cfg['dim'], **kw)
    else:
        s = cls(fluids=['fluid'], dim=cfg['dim'], **kw)
    return s


def make_particles(cfg, n1=None):
    """A completely filled lattice (made periodic in stage 2, so that no
    free surface exists and every scheme sees a uniform density); the
    bottom two layers along the last axis form the solid array, two layers
    along x the inviscid wall when asked for."""
    import numpy as np
    from pysph.base.utils import get_particle_array
    dim = cfg['dim']
    dx = 0.1
    n = n1 or {1: 12, 2: 8, 3: 8}[dim]
    idx = np.indices((n,) * dim).reshape(dim, -1)
    co = [(idx[a] + 0.5) * dx for a in range(dim)]
    N = idx.shape[1]
    which = np.zeros(N, dtype=int)
    if cfg['solids']:
        which[idx[dim - 1] < 2] = 1
    if cfg['options'].get('inviscid_solids') == 'SOLIDS':
        which[(idx[0] >= n - 2) & (which == 0)] = 2
    out = []
    for k, nm in ((0, 'fluid'), (1, 'solid'), (2, 'wall')):
        sel = which == k
        if k > 0 and not sel.any():
            continue
        M = int(sel.sum())
        x = co[0][sel]
        y = co[1][sel] if dim > 1 else np.zeros(M)
        z = co[2][sel] if dim > 2 else np.zeros(M)
        pa = get_particle_array(name=nm, x=x, y=y, z=z,
                                h=np.ones(M) * 1.3 * dx,
                                m=np.ones(M) * dx ** dim, rho=np.ones(M))
        if k == 0:
            pa.u[:] = 0.01 * np.sin(2 * np.pi * x / (n * dx))
            if dim > 1:
                pa.v[:] = 0.01 * np.cos(2 * np.pi * y / (n * dx))
        out.append(pa)
    return out


def make_domain(cfg, n1=None):
    # periodic ghosts of *solid* arrays are not supported by several schemes
    # (their ghost update equations only treat fluids): problems with solids
    # run as a free block standing on its wall instead
    if cfg['solids'] or cfg['options'].get('inviscid_solids') == 'SOLIDS':
        return None
    from pysph.base.nnps import DomainManager
    dim = cfg['dim']
    n = n1 or {1: 12, 2: 8, 3: 8}[dim]
    L = n * 0.1
    kw = dict(xmin=0.0, xmax=L, periodic_in_x=True)
    if dim > 1:
        kw.update(ymin=0.0, ymax=L, periodic_in_y=True)
    if dim > 2:
        kw.update(zmin=0.0, zmax=L, periodic_in_z=True)
    return DomainManager(**kw)


def flatten(eqs):
    from pysph.sph.equation import Group, MultiStageEquations
    out = []
    if isinstance(eqs, MultiStageEquations):
        for g in eqs.groups:
            out += flatten(g)
        return out
    for e in eqs:
        if isinstance(e, Group):
            out += flatten(e.equations)
        else:
            out.append(e)
    return out


DEST_ONLY = {'WI': ('h',), 'DWI': ('h',), 'GHI': ('h',), 'WDASHI': ('h',)}
SRC_ONLY = {'WJ': ('h',), 'DWJ': ('h',), 'GHJ': ('h',), 'WDASHJ': ('h',)}


def symbol_needs(symbols):
    """documented formulas -> (dest props, source props)"""
    from vlib.refeval import closure
    d, s = set(), set()
    for sym in closure(symbols):
        if sym in ('HIJ',):
            d.add('h'); s.add('h')
        elif sym == 'XIJ':
            d.update('xyz'); s.update('xyz')
        elif sym == 'VIJ':
            d.update('uvw'); s.update('uvw')
        elif sym == 'RHOIJ':
            d.add('rho'); s.add('rho')
        elif sym in DEST_ONLY:
            d.add('h')
        elif sym in SRC_ONLY:
            s.add('h')
    return d, s


def scan_requirements(equations, steppers, arrays):
    """-> list of (who, array, missing names)"""
    from vlib.refeval import DEPENDS
    have = dict((a.name, set(a.properties) | set(a.constants))
                for a in arrays)
    miss = []
    for eq in equations:
        d, s = set(), set()
        for h in ('initialize', 'initialize_pair', 'loop_all', 'loop',
                  'post_loop'):
            m = getattr(eq, h, None)
            if m is None:
                continue
            args = [a for a in inspect.signature(m).parameters]
            for a in args:
                if a.startswith('d_') and a != 'd_idx':
                    d.add(a[2:])
                elif a.startswith('s_') and a != 's_idx':
                    s.add(a[2:])
            if h == 'loop' and eq.sources:
                sd, ss = symbol_needs([a for a in args if a in DEPENDS])
                d |= sd
                s |= ss
        if eq.dest not in have:
            miss.append((type(eq).__name__, eq.dest, ['<no such array>']))
            continue
        md = d - have[eq.dest]
        if md:
            miss.append((type(eq).__name__, eq.dest, sorted(md)))
        for src in (eq.sources or []):
            if src not in have:
                miss.append((type(eq).__name__, src, ['<no such array>']))
                continue
            ms = s - have[src]
            if ms:
                miss.append((type(eq).__name__, src, sorted(ms)))
    for nm, st_ in steppers.items():
        if nm not in have:
            miss.append((type(st_).__name__, nm, ['<no such array>']))
            continue
        need = set()
        for mname in dir(st_):
            if mname == 'initialize' or (mname.startswith('stage') and
                                         mname[5:].isdigit()):
                for a in inspect.signature(getattr(st_, mname)).parameters:
                    if a.startswith('d_') and a != 'd_idx':
                        need.add(a[2:])
        m_ = need - have[nm]
        if m_:
            miss.append((type(st_).__name__, nm, sorted(m_)))
    return miss


def is_default(cfg):
    import importlib
    mod, base, opts, dims, takes = SCHEMES[cfg['scheme']]
    cls = getattr(importlib.import_module(mod), cfg['scheme'])
    sig = inspect.signature(cls.__init__).parameters
    for k, v in cfg['options'].items():
        if k in base:
            if base[k] != v:
                return False
        elif k in sig and sig[k].default is not inspect.Parameter.empty:
            if sig[k].default != v and not (v == 'SOLIDS'):
                return False
            if v == 'SOLIDS':
                return False
    return True


def stage1(cfg, with_code):
    """-> (failures, labels, objects)"""
    labels = ['stage1']
    kl = dict(scheme=cfg['scheme'])
    fails = []
    labels.append('with_solids' if cfg['solids'] else 'without_solids')
    if not cfg['clean']:
        labels.append('clean_false')
    nd = not is_default(cfg)
    if nd:
        labels.append('non_default')
    try:
        s = make_scheme(cfg)
    except (ValueError, RuntimeError) as ex:
        # documented rejection of an unsupported combination
        return [], labels + ['rejected_by_constructor'], None
    try:
        s.configure_solver(dt=1e-4, tf=3e-4, pfreq=1000)
        particles = make_particles(cfg)
        s.setup_properties(particles, clean=cfg['clean'])
        eqs = s.get_equations()
        solver = s.get_solver()
    except (ValueError,) as ex:
        msg = str(ex)
        if 'not supported' in msg or 'Dim' in msg:
            return [], labels + ['rejected_dim'], None
        return [Failure(cfg['scheme'], 'setup_exception', repr(ex), kl)], \
            labels, None
    except Exception as ex:
        return [Failure(cfg['scheme'], 'setup_exception', repr(ex), kl)], \
            labels, None
    flat = flatten(eqs)
    miss = scan_requirements(flat, solver.integrator.steppers, particles)
    if miss:
        who, arr, names = miss[0]
        fails.append(Failure(
            cfg['scheme'], 'missing_property',
            '%s needs %s on array %r which setup_properties did not '
            'provide (options %r, dim %d, solids %s); %d such gaps' % (
                who, names, arr, cfg['options'], cfg['dim'], cfg['solids'],
                len(miss)),
            dict(scheme=cfg['scheme'], who=who, names=','.join(names))))
        return fails, labels, None
    from pysph.sph.acceleration_eval import make_acceleration_evals
    from pysph.sph.sph_compiler import SPHCompiler
    try:
        evals = make_acceleration_evals(particles, eqs, solver.kernel)
        comp = SPHCompiler(evals, solver.integrator)
    except Exception as ex:
        fails.append(Failure(cfg['scheme'], 'evaluator_construction',
                             repr(ex)[:400], kl))
        return fails, labels, None
    if with_code:
        labels.append('stage1b')
        try:
            comp._get_code()
            for h in comp.acceleration_eval_helpers[1:]:
                h.get_code()
        except Exception as ex:
            fails.append(Failure(cfg['scheme'], 'code_generation',
                                 repr(ex)[:400], kl))
    return fails, labels, (s, particles, eqs, solver)


def stage2(cfg):
    import numpy as np
    from pysph.base.nnps import LinkedListNNPS
    labels = ['stage2']
    if 'has_ghosts' in cfg['options'] and make_domain(cfg) is not None \
            and not cfg['options']['has_ghosts']:
        # the stage-2 state is a periodic box: schemes with a has_ghosts
        # option document that it must be on when ghosts exist
        cfg = dict(cfg, options=dict(cfg['options'], has_ghosts=True))
    kl = dict(scheme=cfg['scheme'])
    try:
        s = make_scheme(cfg)
    except (ValueError, RuntimeError):
        return [], labels, False
    try:
        s.configure_solver(dt=1e-3, tf=3e-3, pfreq=100000)
        particles = make_particles(cfg)
        s.setup_properties(particles, clean=cfg['clean'])
        eqs = s.get_equations()
        solver = s.get_solver()
    except Exception:
        return [], labels + ['stage2_setup_failed'], False
    # a sensible positive initial state for whatever the scheme added
    for pa in particles:
        for nm in ('e', 'p', 'cs', 'V', 'rho0', 'h0', 'wij', 'number_density',
                   'vol'):
            if nm in pa.properties and pa.stride.get(nm, 1) == 1 and \
                    pa.get_carray(nm).get_c_type() == 'double':
                pa.get_carray(nm).get_npy_array()[:] = 1.0
        if 'V' in pa.properties:
            pa.get_carray('V').get_npy_array()[:] = 1.0 / 0.1 ** cfg['dim']
        if 'h0' in pa.properties:
            pa.get_carray('h0').get_npy_array()[:] = pa.h[0] if len(
                pa.h) else 0.13
    try:
        nnps = LinkedListNNPS(dim=cfg['dim'], particles=particles,
                              radius_scale=solver.kernel.radius_scale,
                              domain=make_domain(cfg))
        solver.set_parallel_manager(None)
        solver.setup(particles, eqs, nnps, solver.kernel)
    except SystemExit:
        return [Failure(cfg['scheme'], 'compile_failed',
                        'generated code does not compile for %r' % (cfg,),
                        kl)], labels, False
    except Exception as ex:
        return [Failure(cfg['scheme'], 'solver_setup', repr(ex)[:400],
                        kl)], labels, False
    solver.set_disable_output(True)
    try:
        solver.solve(show_progress=False)
    except Exception as ex:
        return [Failure(cfg['scheme'], 'run_exception', repr(ex)[:400],
                        kl)], labels, False
    for pa in particles:
        for nm in pa.properties:
            a = pa.get_carray(nm).get_npy_array()
            if a.dtype.kind == 'f' and not np.all(np.isfinite(a)):
                return [Failure(
                    cfg['scheme'], 'non_finite',
                    'property %s of %s not finite after 3 steps (%r)' % (
                        nm, pa.name, cfg), dict(scheme=cfg['scheme'],
                                                prop=nm))], labels, True
    return [], labels, True


# ------------------------------------------------------------ entry points
@st.composite
def cfg_strategy(draw, name):
    mod, base, opts, dims, solids = SCHEMES[name]
    return dict(scheme=name, dim=draw(st.sampled_from(dims)),
                solids=draw(st.booleans()) if solids else False,
                clean=draw(st.booleans()),
                options=dict((k, draw(st.sampled_from(v)))
                             for k, v in sorted(opts.items())))


def plan(ctx):
    names = sorted(SCHEMES)
    shards = []
    for i, nm in enumerate(names):
        shards.append(dict(name='stage1-' + nm, kind='stage1', scheme=nm,
                           drawn=30 if ctx['tier'] == 'quick' else 0,
                           full=ctx['tier'] != 'quick'))
    if ctx['tier'] == 'quick':
        # stage 2: one sampled configuration per scheme, rotating with seed
        for i, nm in enumerate(names):
            shards.append(dict(name='stage2-' + nm, kind='stage2', scheme=nm,
                               n=2))
    else:
        for i, nm in enumerate(names):
            shards.append(dict(name='stage2-' + nm, kind='stage2', scheme=nm,
                               n=24))
    return shards


def run_shard(spec, ctx):
    stats = Stats()
    name = spec['scheme']
    if spec['kind'] == 'stage1':
        cfgs = all_configs(name) if spec['full'] else pairwise_configs(name)
        stats.extra['enumerated_' + name] = len(cfgs)
        seen = set()
        for i, cfg in enumerate(cfgs):
            ctx.journal(cfg)
            with_code = spec['full'] or (i % 4 == 0)
            fails, labels, _ = stage1(cfg, with_code)
            out = Outcome(fails, labels, 'non_default' in labels)
            stats.record(cfg, out)
            for f in fails:
                if f.sig() not in seen:
                    seen.add(f.sig())
                    stats.failures.append(f.as_dict(cfg))
        if spec['drawn']:
            def execute(cfg):
                ctx.journal(cfg)
                fails, labels, _ = stage1(cfg, True)
                fails = [f for f in fails if f.sig() not in seen]
                return Outcome(fails, labels, 'non_default' in labels)
            search(cfg_strategy(name), execute,
                   derive_seed(ctx.seed, 'C12', name), spec['drawn'], stats,
                   shrink=True)
        return stats.result()
    # stage 2
    stats.extra['jit_compiles'] = 0

    def execute2(cfg):
        ctx.journal(cfg)
        fails, labels, ran = stage2(cfg)
        if ran:
            stats.extra['jit_compiles'] += 1
        return Outcome(fails, labels, ran and not is_default(cfg))
    search(cfg_strategy(name), execute2,
           derive_seed(ctx.seed, 'C12s2', name), spec['n'] + 1, stats,
           shrink=False)
    return stats.result()


def run_case(case, component, ctx):
    fails, labels, _ = stage1(case, True)
    out = [f.as_dict(case) for f in fails]
    if not out and case.get('stage2'):
        f2, _, _ = stage2(case)
        out = [f.as_dict(case) for f in f2]
    return out
