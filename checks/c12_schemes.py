"""C12 - every shipped scheme yields a complete, generatable simulation.

Stage 1a (cheap, many): configure_solver + setup_properties on plain
particle arrays + get_equations, then an INDEPENDENT requirement scan (hook
signatures + documented pair-symbol formulas) over every equation and every
stepper, a scan of the hook bodies for names that resolve nowhere, and
construction of AccelerationEval / SPHCompiler.
Stage 1b: code generation (get_code) must succeed.
Stage 2 (sampled): JIT compile and run 3 steps on a small lattice; all
properties finite afterwards.  Two kinds of stage-2 shards: `stage2c-*`
compile a fixed, seed-independent set of configurations per scheme chosen
so that every equation / stepper class the scheme can emit is compiled at
least once (cached in the JIT home while the sources do not change), and
`stage2-*` a sample that rotates with the seed.

A configuration is more than the option values: the number of fluid and
solid arrays, the integrator / kernel handed to configure_solver, the route
by which the options reach the scheme (constructor, configure(), the
command line through add_user_options/consume_user_options), a
SchemeChooser wrapped around the scheme, and for EDAC the inlet/outlet
manager are generated too.
"""
import inspect
import itertools
import math

from hypothesis import strategies as st

from vlib.hyp import (Failure, Outcome, Stats, search, derive_seed, canon,
                      case_hash)

RULE = ('configuration = scheme class (the 16 of pysph.sph + '
        'tools.ParticlePacking) x values of its boolean/enumerated '
        'options x dim x with/without solid arrays x clean in {T,F} x '
        '{1,2} fluid arrays x {1,2} solid arrays x array names x '
        'integrator_cls x kernel '
        'x option route {ctor, configure, cli} x SchemeChooser {none, '
        'default, chosen on the command line} (EDAC: x inlet/outlet '
        'manager); stage 1 enumerates a pairwise-covering + Hypothesis-drawn '
        'sample in quick and the full option product (extras rotating) in '
        'thorough; stage 2 compiles and runs a class-covering fixed set and '
        'a rotating sample. Non-trivial = configuration differing from the '
        'scheme defaults in >= 1 option; distinct by configuration hash.')
ASSUMPTIONS = [
    'plain particle arrays = pysph.base.utils.get_particle_array(name, x, '
    'y, z, h, m, rho) (its documented default property set)',
    'requirements derived independently: d_*/s_* hook arguments and the '
    'documented pair-symbol formulas; constants satisfy a requirement',
    'stage 2 initial state: regular lattice, positive finite fields, small '
    'fixed dt; non-finite values after 3 steps are violations',
    'ElasticSolidsScheme has no setup_properties and is outside C12',
    'an integrator_cls other than the scheme default is only *run* (stage '
    '2) where the scheme documents or selects steppers for it; stage 1 '
    '(properties, code generation) covers every integrator',
    'inlet/outlet managers are exercised in stage 1 only (running them '
    'needs the inlet/outlet update objects of an Application)',
    'array names: fluid/fluid2/solid/solid2 or water/oil/boundary/lid; '
    'ISPH and SISPH only with the first set (known finding, counted)',
    'static stage-1 oracles beyond the property scan: a hook body may only '
    'use names that resolve (arguments, locals, module globals, builtins, '
    'C math, transpiler names, numeric attributes / methods of self) and '
    'one equation object may sit in one group only; both are necessary for '
    'the generated module to compile',
    'the process-wide Group name counter is restarted per case so that the '
    'generated source (the JIT cache key) does not depend on history',
    'open finding excluded by construction and counted (label '
    'known_crksph_two_fluids_excluded): a CRKSPH *run* with two fluid '
    'arrays; ParticlePacking is stage 1 only',
]
ESSENTIAL_LABELS = {'all': ['stage1', 'stage1b', 'with_solids',
                            'without_solids', 'clean_false', 'non_default',
                            'two_fluids', 'two_solids',
                            'integrator_override', 'kernel_override',
                            'route_cli', 'route_configure', 'chooser',
                            'chooser_cli', 'io_manager', 'wcsph_tvdrk3',
                            'other_names',
                            'gtvf_dim1', 'stage2', 'stage2_cover']}
SHARD_TIMEOUT = {'quick': 1700, 'thorough': 10 * 3600}

# scheme -> (module, ctor kwargs (without fluids/solids/dim), option space,
#            dims, takes_solids)
B = [False, True]
IOMS = [None, 'donothing', 'mirror', 'hybrid', 'mod_donothing',
        'characteristic']
SCHEMES = {
    'WCSPHScheme': ('pysph.sph.scheme', dict(rho0=1.0, c0=10.0, h0=0.13,
                                            hdx=1.3),
                    dict(tensile_correction=B, hg_correction=B, update_h=B,
                         delta_sph=B, summation_density=B, nu=[0.0, 0.01],
                         alpha=[0.0, 0.1]), [1, 2, 3], True),
    'TVFScheme': ('pysph.sph.scheme', dict(rho0=1.0, c0=10.0, nu=0.01,
                                          p0=100.0, pb=100.0, h0=0.13),
                  dict(alpha=[0.0, 0.1], nu=[0.0, 0.01],
                       tdamp=[0.0, 0.5]), [1, 2, 3], True),
    'AdamiHuAdamsScheme': ('pysph.sph.scheme', dict(rho0=1.0, c0=10.0,
                                                   nu=0.01, h0=0.13),
                           dict(alpha=[0.0, 0.1], nu=[0.0, 0.01],
                                tdamp=[0.0, 0.5]),
                           [1, 2, 3], True),
    'GasDScheme': ('pysph.sph.scheme', dict(gamma=1.4, kernel_factor=1.2),
                   dict(adaptive_h_scheme=['mpm', 'gsph'], update_alpha1=B,
                        update_alpha2=B, has_ghosts=B), [1, 2, 3], True),
    'GSPHScheme': ('pysph.sph.scheme', dict(gamma=1.4, kernel_factor=1.2),
                   dict(rsolver=list(range(11)), interpolation=[0, 1, 2, 3],
                        monotonicity=[0, 1, 2], interface_zero=B, hybrid=B,
                        has_ghosts=B, g1=[0.0, 0.2], g2=[0.0, 0.1]),
                   [1, 2, 3], True),
    'ADKEScheme': ('pysph.sph.scheme', dict(gamma=1.4),
                   dict(has_ghosts=B, eps=[0.0, 0.5], g1=[0.0, 0.5],
                        g2=[0.0, 0.5]), [1, 2, 3], True),
    'IISPHScheme': ('pysph.sph.iisph', dict(rho0=1.0),
                    dict(has_ghosts=B, nu=[0.0, 0.01], debug=B),
                    [1, 2, 3], True),
    'GTVFScheme': ('pysph.sph.wc.gtvf', dict(rho0=1.0, c0=10.0, nu=0.01,
                                            h0=0.13, pref=100.0),
                   dict(alpha=[0.0, 0.1], nu=[0.0, 0.01]), [1, 2, 3], True),
    'EDACScheme': ('pysph.sph.wc.edac', dict(c0=10.0, nu=0.01, rho0=1.0,
                                            h=0.13),
                   dict(pb=[0.0, 100.0], clamp_p=B, bql=B,
                        alpha=[0.0, 0.1], eps=[0.0, 0.5],
                        inviscid_solids=[None, 'SOLIDS'],
                        nu=[0.0, 0.01], h=[0.13, 0.0], tdamp=[0.0, 0.5],
                        iom=IOMS), [1, 2, 3], True),
    'CRKSPHScheme': ('pysph.sph.wc.crksph', dict(rho0=1.0, c0=10.0, nu=0.01,
                                                h0=0.13, p0=100.0),
                     dict(has_ghosts=B, nu=[0.01, 0.0]), [1, 2, 3], False),
    'PCISPHScheme': ('pysph.sph.wc.pcisph', dict(rho0=1.0, nu=0.01),
                     dict(show_itercount=B, nu=[0.0, 0.01], debug=B),
                     [1, 2, 3], False),
    'ISPHScheme': ('pysph.sph.isph.isph', dict(nu=0.01, rho0=1.0, c0=10.0,
                                              alpha=0.1),
                   dict(symmetric=B), [1, 2, 3], True),
    'SISPHScheme': ('pysph.sph.isph.sisph', dict(nu=0.01, rho0=1.0, c0=10.0,
                                                pref=100.0),
                    dict(hg_correction=B, has_ghosts=B, gtvf=B, symmetric=B,
                         internal_flow=B, use_pref=B, alpha=[0.0, 0.1],
                         nu=[0.01, 0.0]), [1, 2, 3], True),
    'MAGMA2Scheme': ('pysph.sph.gas_dynamics.magma2', dict(gamma=1.4),
                     dict(adaptive_h_scheme=['magma2', 'mpm'],
                          reconstruction_order=[0, 1, 2],
                          formulation=['mi1', 'mi2', 'stdgrad'],
                          recycle_accelerations=B, has_ghosts=B),
                     [1, 2, 3], True),
    'TSPHScheme': ('pysph.sph.gas_dynamics.tsph', dict(gamma=1.4,
                                                      hfact=1.2),
                   dict(has_ghosts=B), [1, 2, 3], True),
    'PSPHScheme': ('pysph.sph.gas_dynamics.psph', dict(gamma=1.4,
                                                      hfact=1.2),
                   dict(has_ghosts=B), [1, 2, 3], True),
    # the packing scheme of pysph.tools is a Scheme subclass with
    # setup_properties too (solids is a dict boundary -> boundary nodes,
    # plus frozen arrays; dims 2 and 3 only): stage 1 only
    'ParticlePacking': ('pysph.tools.particle_packing',
                        dict(pb=1.0, k=0.005, nu=0.5, hdx=1.2, dx=0.1),
                        dict(filter_layers=B, hardpoints=[None, 'HP'],
                             nu=[0.5, 0.0], use_prediction=B,
                             reduce_dfreq=B), [2, 3], True),
}
STAGE1_ONLY = ('ParticlePacking',)

# ---- what is generated besides the option values (first value = default)
INTEGRATORS = [None, 'EulerIntegrator', 'PECIntegrator', 'EPECIntegrator',
               'TVDRK3Integrator', 'LeapFrogIntegrator', 'PEFRLIntegrator']
KERNELS = [None, 'CubicSpline', 'QuinticSpline', 'Gaussian', 'SuperGaussian',
           'WendlandQuintic', 'WendlandQuinticC4', 'WendlandQuinticC6']
KERNEL_1D = {'WendlandQuintic': 'WendlandQuinticC2_1D',
             'WendlandQuinticC4': 'WendlandQuinticC4_1D',
             'WendlandQuinticC6': 'WendlandQuinticC6_1D'}
ROUTES = ['ctor', 'configure', 'cli']
CHOOSERS = [None, 'default', 'cli']
NAMES = {'std': (['fluid', 'fluid2'], ['solid', 'solid2']),
         'alt': (['water', 'oil'], ['boundary', 'lid'])}
EXTRAS = dict(nfluids=[1, 2], nsolids=[1, 2], integrator=INTEGRATORS,
              kernel=KERNELS, route=ROUTES, chooser=CHOOSERS,
              names=['std', 'alt'])
EXTRA_KEYS = sorted(EXTRAS)
EXTRA_DEFAULT = dict((k, v[0]) for k, v in EXTRAS.items())

# integrators under which a stage-2 *run* is meaningful: the scheme picks
# matching steppers (WCSPH) or its steppers implement the stages used
S2_INTEGRATORS = {
    'WCSPHScheme': [None, 'EPECIntegrator', 'TVDRK3Integrator',
                    'EulerIntegrator'],
    'AdamiHuAdamsScheme': [None, 'EPECIntegrator'],
    'EDACScheme': [None, 'EPECIntegrator'],
    'GasDScheme': [None, 'EPECIntegrator'],
    'ADKEScheme': [None, 'EPECIntegrator'],
}
S2_KERNELS = [None, 'CubicSpline', 'QuinticSpline', 'WendlandQuintic']


def extras_of(cfg):
    return dict((k, cfg.get(k, EXTRA_DEFAULT[k])) for k in EXTRA_KEYS)


def option_names(name):
    return sorted(SCHEMES[name][2])


def _factors(name):
    """[(key, values)] of everything that is generated for one scheme."""
    mod, base, opts, dims, solids = SCHEMES[name]
    f = [('dim', list(dims)), ('solids', [False, True] if solids
                              else [False]), ('clean', [True, False])]
    f += [('o:' + k, list(opts[k])) for k in sorted(opts)]
    for k in EXTRA_KEYS:
        if k == 'nsolids' and not solids:
            continue
        f.append((k, list(EXTRAS[k])))
    return f


def _decode(name, factors, index):
    cfg = dict(scheme=name, options={})
    for k, vals in factors:
        index, r = divmod(index, len(vals))
        if k.startswith('o:'):
            cfg['options'][k[2:]] = vals[r]
        else:
            cfg[k] = vals[r]
    return normalise(cfg)


def normalise(cfg):
    """Canonical form: generated values that cannot matter are reset, the
    few combinations that are outside the documented domain are mapped to
    their nearest documented neighbour (by construction, not rejection)."""
    cfg = dict(cfg)
    cfg['options'] = dict(cfg['options'])
    for k in EXTRA_KEYS:
        cfg.setdefault(k, EXTRA_DEFAULT[k])
    if not cfg.get('solids'):
        cfg['solids'] = False
        cfg['nsolids'] = 1
    ex = [x for x in cfg.get('_excluded', [])]
    if ex:
        cfg['_excluded'] = sorted(set(ex))
    return cfg


def _coprime_stride(total):
    for p in (1000003, 999983, 1299709, 15485863, 7919, 104729):
        if math.gcd(p, total) == 1:
            return p
    return 1


def all_configs(name):
    """The full product of options x dim x solids x clean; the extras rotate
    through their own product along the enumeration (thorough tier)."""
    mod, base, opts, dims, solids = SCHEMES[name]
    keys = sorted(opts)
    ef = [(k, EXTRAS[k]) for k in EXTRA_KEYS
          if not (k == 'nsolids' and not solids)]
    etotal = 1
    for k, v in ef:
        etotal *= len(v)
    stride = _coprime_stride(etotal)
    out = []
    i = 0
    for dim in dims:
        for ws in ([False, True] if solids else [False]):
            for clean in (True, False):
                for vals in itertools.product(*[opts[k] for k in keys]):
                    cfg = dict(scheme=name, dim=dim, solids=ws, clean=clean,
                               options=dict(zip(keys, vals)))
                    j = (i * stride) % etotal
                    for k, v in ef:
                        j, r = divmod(j, len(v))
                        cfg[k] = v[r]
                    out.append(normalise(cfg))
                    i += 1
    return out


def _feats(c):
    f = [('dim', c['dim']), ('solids', c['solids']), ('clean', c['clean'])]
    f += sorted(('o:' + k, repr(v)) for k, v in c['options'].items())
    f += [(k, repr(c[k])) for k in EXTRA_KEYS]
    return frozenset(itertools.combinations(f, 2))


def pairwise_configs(name, seed=0, cap=90, pool_size=1200):
    """A covering sample: every pair of generated values (options, dim,
    solids, clean AND the extras) occurs together in at least one chosen
    configuration.  Greedy set cover over a lattice-strided pool of the
    full product (no RNG); the seed only shifts the lattice."""
    factors = _factors(name)
    total = 1
    for k, v in factors:
        total *= len(v)
    stride = _coprime_stride(total)
    off = derive_seed(seed, 'C12pool', name) % total
    seen, pool = set(), []
    for k in range(min(pool_size, total)):
        c = _decode(name, factors, (off + k * stride) % total)
        h = canon(c)
        if h not in seen:
            seen.add(h)
            pool.append((c, _feats(c)))
    need = set()
    for c, f in pool:
        need |= f
    chosen = []
    while need and len(chosen) < cap:
        best = max(pool, key=lambda cf: len(cf[1] & need))
        gain = best[1] & need
        if not gain:
            break
        chosen.append(best[0])
        need -= gain
    return chosen


# --------------------------------------------------------------- building
def fluid_names(cfg):
    return NAMES[cfg.get('names', 'std')][0][:cfg.get('nfluids', 1)]


def solid_names(cfg):
    if not cfg.get('solids'):
        return []
    return NAMES[cfg.get('names', 'std')][1][:cfg.get('nsolids', 1)]


def make_kernel(cfg):
    nm = cfg.get('kernel')
    if nm is None:
        return None
    import pysph.base.kernels as K
    if cfg['dim'] == 1:
        nm = KERNEL_1D.get(nm, nm)
    return getattr(K, nm)(dim=cfg['dim'])


def make_integrator_cls(cfg):
    nm = cfg.get('integrator')
    if nm is None:
        return None
    import pysph.sph.integrator as I
    return getattr(I, nm)


def lattice_n(cfg):
    return {1: 12, 2: 8, 3: 8}[cfg['dim']]


def make_iom(kind, fluids, cfg):
    """The inlet/outlet manager exactly as the shipped example
    (examples/flow_past_cylinder_2d.py) sets each kind up."""
    import importlib
    from pysph.sph.bc.inlet_outlet_manager import InletInfo, OutletInfo
    pk = 'pysph.sph.bc.' + kind
    Inlet = importlib.import_module(pk + '.inlet').Inlet
    Outlet = importlib.import_module(pk + '.outlet').Outlet
    Manager = importlib.import_module(
        pk + '.simple_inlet_outlet').SimpleInletOutlet
    o_ghost = kind == 'mirror'
    L = lattice_n(cfg) * 0.1
    props = ['x0', 'y0', 'z0', 'uhat', 'vhat', 'what', 'x', 'y', 'z', 'u',
             'v', 'w', 'm', 'h', 'rho', 'p', 'ioid']
    if kind == 'hybrid':
        props += ['uta', 'pta', 'u0', 'v0', 'w0', 'p0']
    ii = InletInfo(pa_name='inlet', normal=[-1.0, 0.0, 0.0],
                   refpoint=[0.0, 0.0, 0.0], has_ghost=True,
                   update_cls=Inlet, umax=1.0)
    oi = OutletInfo(pa_name='outlet', normal=[1.0, 0.0, 0.0],
                    refpoint=[L, 0.0, 0.0], has_ghost=o_ghost,
                    update_cls=Outlet, equations=None, props_to_copy=props)
    iom = Manager(fluid_arrays=list(fluids), inletinfo=[ii],
                  outletinfo=[oi])
    iom.update_dx(0.1)
    return iom


def _cli_args(actions, scheme, opts):
    """command-line words that set `opts` (those that the scheme offers on
    its command line and whose value the command line can express)."""
    import argparse
    args, used = [], set()
    for k in sorted(opts):
        v = opts[k]
        acts = [a for a in actions if a.dest == k and a.option_strings]
        if not acts:
            continue
        if isinstance(v, bool):
            want = argparse._StoreTrueAction if v else \
                argparse._StoreFalseAction
            acts = [a for a in acts if isinstance(a, want)]
            if acts:
                args.append(acts[0].option_strings[0])
                used.add(k)
            continue
        acts = [a for a in acts if isinstance(a, argparse._StoreAction)]
        if not acts or v is None or isinstance(v, (list, dict)):
            continue
        a = acts[0]
        word = None
        if a.choices is not None:
            if v in a.choices:
                word = str(v)
            else:
                table = getattr(scheme, k + '_choices', None)
                if isinstance(table, dict):
                    names = sorted(n for n, val in table.items() if val == v)
                    if names and names[0] in a.choices:
                        word = names[0]
        else:
            word = repr(v) if isinstance(v, float) else str(v)
        if word is not None:
            args += [a.option_strings[0], word]
            used.add(k)
    return args, used


def make_scheme(cfg):
    """-> (object the application talks to, the configured scheme, iom).

    Follows the order of pysph.solver.application.Application: construct,
    add_user_options + consume_user_options (when a command line is
    involved), configure(); configure_solver is the caller's next step."""
    import importlib
    mod, base, opts, dims, takes_solids = SCHEMES[cfg['scheme']]
    cls = getattr(importlib.import_module(mod), cfg['scheme'])
    kw = dict(base)
    o = dict(cfg['options'])
    fluids = fluid_names(cfg)
    solids = solid_names(cfg)
    if o.get('inviscid_solids') == 'SOLIDS':
        # a separate boundary array treated as an inviscid (slip) wall
        o['inviscid_solids'] = ['wall']
    if o.get('hardpoints') == 'HP':
        o['hardpoints'] = {0: [1.0, 0.0, 0.0]}
    iom = None
    if 'iom' in o:
        kind = o.pop('iom')
        if kind is not None:
            iom = make_iom(kind, fluids, cfg)
            o['inlet_outlet_manager'] = iom
    if cfg['scheme'] == 'MAGMA2Scheme':
        if o.get('adaptive_h_scheme') == 'magma2':
            kw['ndes'] = {1: 10, 2: 30, 3: 60}[cfg['dim']]
        else:
            kw['hfact'] = 1.2
        if cfg.get('route', 'ctor') != 'ctor':
            # whichever adaptive-h scheme is selected later has its
            # parameter
            kw['ndes'] = {1: 10, 2: 30, 3: 60}[cfg['dim']]
            kw['hfact'] = 1.2
    route = cfg.get('route', 'ctor')
    chooser = cfg.get('chooser')

    def construct(extra):
        k2 = dict(kw)
        k2.update(extra)
        if cfg['scheme'] == 'ParticlePacking':
            return cls(fluids=list(fluids),
                       solids=dict((n, n + '_nodes') for n in solids),
                       frozen=['frozen'], dim=cfg['dim'], **k2)
        if takes_solids:
            return cls(fluids=list(fluids), solids=list(solids),
                       dim=cfg['dim'], **k2)
        return cls(fluids=list(fluids), dim=cfg['dim'], **k2)

    later, argv = {}, []
    if route == 'ctor':
        s = construct(o)
    elif route == 'configure':
        s = construct({})
        # None is the constructors' "not given" marker, not a value
        later = dict((k, v) for k, v in o.items() if v is not None)
    else:
        import argparse
        probe = construct({})
        p0 = argparse.ArgumentParser()
        g0 = p0.add_argument_group('scheme', '', conflict_handler='resolve')
        probe.add_user_options(g0)
        argv, used = _cli_args(g0._group_actions, probe, o)
        s = construct(dict((k, v) for k, v in o.items() if k not in used))
    top = s
    if chooser is not None:
        from pysph.sph.scheme import SchemeChooser, WCSPHScheme, TVFScheme
        if cfg['scheme'] == 'WCSPHScheme':
            alt = TVFScheme(list(fluids), list(solids), cfg['dim'], rho0=1.0,
                            c0=10.0, nu=0.01, p0=100.0, pb=100.0, h0=0.13)
        else:
            alt = WCSPHScheme(list(fluids), list(solids), cfg['dim'],
                              rho0=1.0, c0=10.0, h0=0.13, hdx=1.3)
        if chooser == 'default':
            top = SchemeChooser(default='main', main=s, other=alt)
        else:
            top = SchemeChooser(default='other', other=alt, main=s)
            argv = ['--scheme', 'main'] + argv
    if chooser is not None or route == 'cli':
        import argparse
        parser = argparse.ArgumentParser()
        grp = parser.add_argument_group('scheme', '',
                                        conflict_handler='resolve')
        top.add_user_options(grp)
        ns = parser.parse_args(argv)
        top.consume_user_options(ns)
    if later:
        top.configure(**later)
    return top, s, iom


def make_particles(cfg, n1=None, iom=None):
    """A completely filled lattice (made periodic in stage 2, so that no
    free surface exists and every scheme sees a uniform density); the
    bottom two layers along the last axis form the solid array (the top two
    a second one), two layers along x the inviscid wall when asked for; the
    fluid is split at mid x into two arrays when two fluids are asked for.
    With an inlet/outlet manager two layers left/right of the block are
    the inlet/outlet and the manager creates their ghosts."""
    import numpy as np
    from pysph.base.utils import get_particle_array
    dim = cfg['dim']
    dx = 0.1
    n = n1 or lattice_n(cfg)
    idx = np.indices((n,) * dim).reshape(dim, -1)
    co = [(idx[a] + 0.5) * dx for a in range(dim)]
    N = idx.shape[1]
    which = np.zeros(N, dtype=int)
    ns = len(solid_names(cfg))
    if ns:
        which[idx[dim - 1] < 2] = 2
        if ns > 1:
            which[idx[dim - 1] >= n - 2] = 3
    if cfg['options'].get('inviscid_solids') == 'SOLIDS':
        hi = n - 2
        if dim == 1 and ns > 1:
            hi = n - 4
        which[(idx[0] >= hi) & (idx[0] < hi + 2) & (which == 0)] = 4
    if cfg.get('nfluids', 1) > 1:
        which[(idx[0] >= n // 2) & (which == 0)] = 1
    out = []
    fn, sn = NAMES[cfg.get('names', 'std')]
    for k, nm in ((0, fn[0]), (1, fn[1]), (2, sn[0]), (3, sn[1]),
                  (4, 'wall')):
        sel = which == k
        if k > 0 and not sel.any():
            continue
        M = int(sel.sum())
        x = co[0][sel]
        y = co[1][sel] if dim > 1 else np.zeros(M)
        z = co[2][sel] if dim > 2 else np.zeros(M)
        pa = get_particle_array(name=nm, x=x, y=y, z=z,
                                h=np.ones(M) * 1.3 * dx,
                                m=np.ones(M) * dx ** dim, rho=np.ones(M))
        if k < 2:
            pa.u[:] = 0.01 * np.sin(2 * np.pi * x / (n * dx))
            if dim > 1:
                pa.v[:] = 0.01 * np.cos(2 * np.pi * y / (n * dx))
        out.append(pa)
        if cfg['scheme'] == 'ParticlePacking' and k in (2, 3):
            out.append(get_particle_array(
                name=nm + '_nodes', x=x, y=y, z=z, h=np.ones(M) * 1.3 * dx,
                m=np.ones(M) * dx ** dim, rho=np.ones(M)))
    if cfg['scheme'] == 'ParticlePacking':
        pa = out[0]
        out.append(get_particle_array(
            name='frozen', x=pa.x - 2.0, y=pa.y.copy(), z=pa.z.copy(),
            h=pa.h.copy(), m=pa.m.copy(), rho=pa.rho.copy()))
    if iom is not None:
        tidx = np.indices((2,) + (n,) * (dim - 1)).reshape(dim, -1)
        M = tidx.shape[1]
        yy = (tidx[1] + 0.5) * dx if dim > 1 else np.zeros(M)
        zz = (tidx[2] + 0.5) * dx if dim > 2 else np.zeros(M)
        ios = []
        for nm, xx in (('inlet', -(tidx[0] + 0.5) * dx),
                       ('outlet', n * dx + (tidx[0] + 0.5) * dx)):
            ios.append(get_particle_array(
                name=nm, x=xx, y=yy, z=zz, h=np.ones(M) * 1.3 * dx,
                m=np.ones(M) * dx ** dim, rho=np.ones(M)))
        out += ios
        for pa, inl in zip(ios, (True, False)):
            g = iom.create_ghost(pa, inlet=inl)
            if g is not None:
                out.append(g)
    return out


def has_walls(cfg):
    return bool(cfg.get('solids')) or \
        cfg['options'].get('inviscid_solids') == 'SOLIDS' or \
        cfg['options'].get('iom') is not None


def make_domain(cfg, n1=None):
    # periodic ghosts of *solid* arrays are not supported by several schemes
    # (their ghost update equations only treat fluids): problems with solids
    # run as a free block standing on its wall instead
    if has_walls(cfg):
        return None
    from pysph.base.nnps import DomainManager
    dim = cfg['dim']
    n = n1 or lattice_n(cfg)
    L = n * 0.1
    kw = dict(xmin=0.0, xmax=L, periodic_in_x=True)
    if dim > 1:
        kw.update(ymin=0.0, ymax=L, periodic_in_y=True)
    if dim > 2:
        kw.update(zmin=0.0, zmax=L, periodic_in_z=True)
    return DomainManager(**kw)


def flatten(eqs):
    from pysph.sph.equation import Group, MultiStageEquations
    out = []
    if isinstance(eqs, MultiStageEquations):
        for g in eqs.groups:
            out += flatten(g)
        return out
    for e in eqs:
        if isinstance(e, Group):
            out += flatten(e.equations)
        else:
            out.append(e)
    return out


DEST_ONLY = {'WI': ('h',), 'DWI': ('h',), 'GHI': ('h',), 'WDASHI': ('h',)}
SRC_ONLY = {'WJ': ('h',), 'DWJ': ('h',), 'GHJ': ('h',), 'WDASHJ': ('h',)}
HOOKS = ('initialize', 'initialize_pair', 'loop_all', 'loop', 'post_loop')


def symbol_needs(symbols):
    """documented formulas -> (dest props, source props)"""
    from vlib.refeval import closure
    d, s = set(), set()
    for sym in closure(symbols):
        if sym in ('HIJ',):
            d.add('h'); s.add('h')
        elif sym == 'XIJ':
            d.update('xyz'); s.update('xyz')
        elif sym == 'VIJ':
            d.update('uvw'); s.update('uvw')
        elif sym == 'RHOIJ':
            d.add('rho'); s.add('rho')
        elif sym in DEST_ONLY:
            d.add('h')
        elif sym in SRC_ONLY:
            s.add('h')
    return d, s


def stepper_methods(st_):
    return [m for m in dir(st_)
            if m == 'initialize' or (m.startswith('stage') and
                                     m[5:].isdigit())]


def scan_requirements(equations, steppers, arrays):
    """-> list of (who, array, missing names)"""
    from vlib.refeval import DEPENDS
    have = dict((a.name, set(a.properties) | set(a.constants))
                for a in arrays)
    miss = []
    for eq in equations:
        d, s = set(), set()
        for h in HOOKS:
            m = getattr(eq, h, None)
            if m is None:
                continue
            args = [a for a in inspect.signature(m).parameters]
            for a in args:
                if a.startswith('d_') and a != 'd_idx':
                    d.add(a[2:])
                elif a.startswith('s_') and a != 's_idx':
                    s.add(a[2:])
            if h == 'loop' and eq.sources:
                sd, ss = symbol_needs([a for a in args if a in DEPENDS])
                d |= sd
                s |= ss
        if eq.dest not in have:
            miss.append((type(eq).__name__, eq.dest, ['<no such array>']))
            continue
        md = d - have[eq.dest]
        if md:
            miss.append((type(eq).__name__, eq.dest, sorted(md)))
        for src in (eq.sources or []):
            if src not in have:
                miss.append((type(eq).__name__, src, ['<no such array>']))
                continue
            ms = s - have[src]
            if ms:
                miss.append((type(eq).__name__, src, sorted(ms)))
    for nm, st_ in steppers.items():
        if nm not in have:
            miss.append((type(st_).__name__, nm, ['<no such array>']))
            continue
        need = set()
        for mname in stepper_methods(st_):
            for a in inspect.signature(getattr(st_, mname)).parameters:
                if a.startswith('d_') and a != 'd_idx':
                    need.add(a[2:])
        m_ = need - have[nm]
        if m_:
            miss.append((type(st_).__name__, nm, sorted(m_)))
    return miss


# names the transpiler itself provides to hook bodies
TRANSPILER_NAMES = frozenset(['declare', 'M_PI', 'M_PI_2', 'M_1_PI',
                              'M_2_PI', 'INFINITY', 'NAN', 'printf', 'cast',
                              'address', 'atomic_inc', 'atomic_dec', 'NULL',
                              'LID_0', 'LDIM_0', 'GID_0', 'GDIM_0',
                              'local_barrier', 'annotate'])


def _c_value(v):
    """can the transpiler hold this attribute value in the C struct?"""
    import numbers
    if isinstance(v, (bool, numbers.Number)):
        return True
    if isinstance(v, (list, tuple)):
        return all(isinstance(x, numbers.Number) for x in v)
    try:
        import numpy as np
        if isinstance(v, np.ndarray):
            return v.dtype.kind in 'fiub'
    except ImportError:
        pass
    return False


def unresolved_names(objs):
    """Names a hook body cannot resolve.  (a) a name loaded as a global that
    exists neither in the method's module, nor in builtins, nor in the
    transpiler / C math library: executing the Python method raises
    NameError and the generated C refers to an undeclared identifier;
    (b) `self.<attr>` where the object has no such attribute, or the
    attribute is neither a method nor a number / numeric sequence: the hook
    becomes a nogil C function over a C struct of the object's numeric
    attributes, anything else cannot be used there.
    -> list of (class, method, name)"""
    import builtins
    import dis
    out, done = [], set()
    for o in objs:
        cls = type(o)
        names = [h for h in HOOKS if getattr(o, h, None) is not None]
        if not names:
            names = stepper_methods(o)
        for mname in names:
            f = getattr(getattr(o, mname), '__func__', None)
            if f is None or not hasattr(f, '__code__'):
                continue
            prev = None
            for ins in dis.get_instructions(f):
                if ins.opname == 'LOAD_GLOBAL' and (cls, mname) not in done:
                    nm = ins.argval
                    if not (nm in f.__globals__ or hasattr(builtins, nm) or
                            nm in TRANSPILER_NAMES or hasattr(math, nm)):
                        # (the C math library is known to the transpiler)
                        out.append((cls.__name__, mname, nm))
                elif ins.opname in ('LOAD_ATTR', 'LOAD_METHOD') and \
                        prev is not None and prev.opname == 'LOAD_FAST' and \
                        prev.argval == 'self':
                    nm = ins.argval
                    if not hasattr(o, nm):
                        out.append((cls.__name__, mname, 'self.' + nm))
                    else:
                        v = getattr(o, nm)
                        if not callable(v) and not _c_value(v):
                            out.append((cls.__name__, mname,
                                        'self.%s=%r' % (nm, v)))
                prev = ins
            done.add((cls, mname))
    return out


def is_default(cfg):
    import importlib
    mod, base, opts, dims, takes = SCHEMES[cfg['scheme']]
    cls = getattr(importlib.import_module(mod), cfg['scheme'])
    sig = inspect.signature(cls.__init__).parameters
    for k, v in cfg['options'].items():
        if k == 'iom':
            if v is not None:
                return False
        elif k in base:
            if base[k] != v:
                return False
        elif k in sig and sig[k].default is not inspect.Parameter.empty:
            if sig[k].default != v and not (v == 'SOLIDS'):
                return False
            if v == 'SOLIDS':
                return False
    return True


def extra_labels(cfg):
    labels = []
    if cfg.get('nfluids', 1) > 1:
        labels.append('two_fluids')
    if cfg.get('solids') and cfg.get('nsolids', 1) > 1:
        labels.append('two_solids')
    if cfg.get('integrator') is not None:
        labels.append('integrator_override')
        if cfg['scheme'] == 'WCSPHScheme' and \
                cfg['integrator'] == 'TVDRK3Integrator':
            labels.append('wcsph_tvdrk3')
    if cfg.get('kernel') is not None:
        labels.append('kernel_override')
        if cfg['scheme'] == 'GTVFScheme' and cfg['dim'] == 1:
            labels.append('gtvf_dim1')
    r = cfg.get('route', 'ctor')
    if r != 'ctor':
        labels.append('route_' + r)
    if cfg.get('chooser') is not None:
        labels.append('chooser')
        if cfg['chooser'] == 'cli':
            labels.append('chooser_cli')
    if cfg['options'].get('iom') is not None:
        labels.append('io_manager')
    if cfg.get('names', 'std') != 'std':
        labels.append('other_names')
    labels += list(cfg.get('_excluded', []))
    return labels


def fresh_names():
    """Group names ('Group_<n>', a process-wide counter) end up in the
    generated source, so the source of one and the same problem would
    depend on what the process generated before and the JIT cache (keyed by
    source) would never hit for helper evaluators such as SISPH's wall
    normals.  Restart the numbering for every case: names stay unique
    within a case, which is all the generated code needs."""
    try:
        import pysph.sph.equation as E
        E.group_counter = E._counter()
    except Exception:
        pass


def solver_kw(cfg, dt, tf):
    if cfg['scheme'] == 'ParticlePacking':
        # this scheme fixes tf and pfreq itself
        return dict(dt=dt)
    return dict(dt=dt, tf=tf, pfreq=100000)


def setup(cfg, dt, tf):
    """scheme construction up to get_solver -> dict or a rejection label.
    Exceptions propagate."""
    fresh_names()
    top, s, iom = make_scheme(cfg)
    top.configure_solver(kernel=make_kernel(cfg),
                         integrator_cls=make_integrator_cls(cfg),
                         **solver_kw(cfg, dt, tf))
    particles = make_particles(cfg, iom=iom)
    top.setup_properties(particles, clean=cfg['clean'])
    eqs = top.get_equations()
    solver = top.get_solver()
    return dict(top=top, scheme=s, iom=iom, particles=particles, eqs=eqs,
                solver=solver)


def stage1(cfg, with_code):
    """-> (failures, labels, objects)"""
    cfg = normalise(cfg)
    labels = ['stage1']
    kl = dict(scheme=cfg['scheme'])
    fails = []
    labels.append('with_solids' if cfg['solids'] else 'without_solids')
    if not cfg['clean']:
        labels.append('clean_false')
    nd = not is_default(cfg)
    if nd:
        labels.append('non_default')
    labels += extra_labels(cfg)
    try:
        st_ = setup(cfg, 1e-4, 3e-4)
    except (ValueError,) as ex:
        msg = str(ex)
        if 'not supported' in msg or 'Dim' in msg:
            # documented rejection of an unsupported dimension
            return [], labels + ['rejected_dim'], None
        return [Failure(cfg['scheme'], 'setup_exception', repr(ex), kl)], \
            labels, None
    except SystemExit as ex:
        return [Failure(cfg['scheme'], 'setup_exception',
                        'SystemExit(%r) (command line %r rejected or a '
                        'helper evaluator failed to build)' % (
                            ex.code, cfg.get('route')), kl)], labels, None
    except Exception as ex:
        return [Failure(cfg['scheme'], 'setup_exception', repr(ex)[:400],
                        kl)], labels, None
    particles, eqs, solver = st_['particles'], st_['eqs'], st_['solver']
    if solver is None or getattr(solver, 'integrator', None) is None:
        return [Failure(cfg['scheme'], 'setup_exception',
                        'get_solver() returned %r after configure_solver' %
                        (solver,), kl)], labels, None
    flat = flatten(eqs)
    miss = scan_requirements(flat, solver.integrator.steppers, particles)
    if miss:
        who, arr, names = miss[0]
        fails.append(Failure(
            cfg['scheme'], 'missing_property',
            '%s needs %s on array %r which setup_properties did not '
            'provide (options %r, dim %d, solids %s, extras %r); %d such '
            'gaps' % (who, names, arr, cfg['options'], cfg['dim'],
                      cfg['solids'], extras_of(cfg), len(miss)),
            dict(scheme=cfg['scheme'], who=who, names=','.join(names))))
        return fails, labels, None
    ids = {}
    for e in flat:
        ids[id(e)] = ids.get(id(e), 0) + 1
    dup = sorted(set(type(e).__name__ for e in flat if ids[id(e)] > 1))
    if dup:
        fails.append(Failure(
            cfg['scheme'], 'equation_in_two_groups',
            'the same %s instance occurs %d times in the groups returned by '
            'get_equations: the generated module declares it twice and '
            'cannot compile' % (dup[0], max(ids.values())),
            dict(scheme=cfg['scheme'], who=dup[0])))
        return fails, labels, None
    bad = unresolved_names(flat + list(solver.integrator.steppers.values()))
    if bad:
        c_, m_, n_ = bad[0]
        fails.append(Failure(
            cfg['scheme'], 'unresolved_name',
            '%s.%s uses %r which is neither an argument, a local, a module '
            'global, a numeric attribute/method of the object nor provided '
            'by the transpiler: code for it cannot be generated (%d such '
            'names)' % (c_, m_, n_, len(bad)),
            dict(scheme=cfg['scheme'], who=c_, name=n_)))
        return fails, labels, None
    from pysph.sph.acceleration_eval import make_acceleration_evals
    from pysph.sph.sph_compiler import SPHCompiler
    try:
        evals = make_acceleration_evals(particles, eqs, solver.kernel)
        comp = SPHCompiler(evals, solver.integrator)
    except Exception as ex:
        fails.append(Failure(cfg['scheme'], 'evaluator_construction',
                             repr(ex)[:400], kl))
        return fails, labels, None
    if with_code:
        labels.append('stage1b')
        try:
            comp._get_code()
            for h in comp.acceleration_eval_helpers[1:]:
                h.get_code()
        except Exception as ex:
            fails.append(Failure(cfg['scheme'], 'code_generation',
                                 repr(ex)[:400], kl))
    return fails, labels, st_


def stage2_cfg(cfg):
    """The configuration stage 2 actually runs: the stage-2 state is a
    periodic box when there are no walls, and schemes with a has_ghosts
    option document that it must be on when ghosts exist; the inlet/outlet
    managers, integrators and kernels outside the stage-2 lists are reset
    (those are stage-1 matters, see ASSUMPTIONS)."""
    cfg = normalise(cfg)
    o = dict(cfg['options'])
    if 'iom' in o:
        o['iom'] = None
    cfg = dict(cfg, options=o)
    if 'has_ghosts' in o and make_domain(cfg) is not None \
            and not o['has_ghosts']:
        o['has_ghosts'] = True
    if cfg['scheme'] == 'CRKSPHScheme' and cfg['nfluids'] > 1 and \
            not cfg.get('_no_exclude'):
        # CRKSPHPreStep (loop_all) builds the moments from one source array
        # at a time and keeps those of the last one: with two fluid arrays
        # the corrections are wrong and the run blows up within 3 steps.
        # Open finding C12-crksph-two-fluids (known_findings.json; replay
        # replays/C12/crksph_two_fluids.json carries _no_exclude).
        cfg['nfluids'] = 1
        cfg['_excluded'] = sorted(set(list(cfg.get('_excluded', [])) + [
            'known_crksph_two_fluids_excluded']))
    if cfg['integrator'] not in S2_INTEGRATORS.get(cfg['scheme'], [None]):
        cfg['integrator'] = None
    if cfg['kernel'] not in S2_KERNELS:
        cfg['kernel'] = None
    return normalise(cfg)


def stage2(cfg):
    import numpy as np
    from pysph.base.nnps import LinkedListNNPS
    labels = ['stage2']
    cfg = stage2_cfg(cfg)
    labels += ['s2_' + l for l in extra_labels(cfg)]
    kl = dict(scheme=cfg['scheme'])
    if cfg.get('nfluids', 1) > 1:
        kl['fluids'] = 'two'
    try:
        st_ = setup(cfg, 1e-3, 3e-3)
    except (SystemExit, Exception):
        # stage 1 reports these
        return [], labels + ['stage2_setup_failed'], False
    particles, eqs, solver = st_['particles'], st_['eqs'], st_['solver']
    # a sensible positive initial state for whatever the scheme added
    for pa in particles:
        for nm in ('e', 'p', 'cs', 'V', 'rho0', 'h0', 'wij', 'number_density',
                   'vol'):
            if nm in pa.properties and pa.stride.get(nm, 1) == 1 and \
                    pa.get_carray(nm).get_c_type() == 'double':
                pa.get_carray(nm).get_npy_array()[:] = 1.0
        if 'V' in pa.properties:
            pa.get_carray('V').get_npy_array()[:] = 1.0 / 0.1 ** cfg['dim']
        if 'h0' in pa.properties:
            pa.get_carray('h0').get_npy_array()[:] = pa.h[0] if len(
                pa.h) else 0.13
    try:
        nnps = LinkedListNNPS(dim=cfg['dim'], particles=particles,
                              radius_scale=solver.kernel.radius_scale,
                              domain=make_domain(cfg))
        solver.set_parallel_manager(None)
        solver.setup(particles, eqs, nnps, solver.kernel)
    except SystemExit:
        return [Failure(cfg['scheme'], 'compile_failed',
                        'generated code does not compile for %r' % (cfg,),
                        kl)], labels, False
    except Exception as ex:
        return [Failure(cfg['scheme'], 'solver_setup', repr(ex)[:400],
                        kl)], labels, False
    solver.set_disable_output(True)
    try:
        solver.solve(show_progress=False)
    except Exception as ex:
        return [Failure(cfg['scheme'], 'run_exception', repr(ex)[:400],
                        kl)], labels, False
    for pa in particles:
        for nm in pa.properties:
            a = pa.get_carray(nm).get_npy_array()
            if a.dtype.kind == 'f' and not np.all(np.isfinite(a)):
                return [Failure(
                    cfg['scheme'], 'non_finite',
                    'property %s of %s not finite after 3 steps (%r)' % (
                        nm, pa.name, cfg), dict(kl, prop=nm))], labels, True
    return [], labels, True


def emitted_classes(cfg):
    """Names of the equation / stepper / integrator classes a configuration
    makes the code generator emit (no particles needed)."""
    try:
        top, s, iom = make_scheme(cfg)
        top.configure_solver(kernel=make_kernel(cfg),
                             integrator_cls=make_integrator_cls(cfg),
                             **solver_kw(cfg, 1e-3, 3e-3))
        eqs = top.get_equations()
        solver = top.get_solver()
    except (SystemExit, Exception):
        return None
    out = set('eq:' + type(e).__name__ for e in flatten(eqs))
    out |= set('st:' + type(x).__name__
               for x in solver.integrator.steppers.values())
    out.add('in:' + type(solver.integrator).__name__)
    return out


def class_cover(name, cap=6):
    """A fixed (seed-independent) small set of stage-2 configurations of a
    scheme that together emit every equation, stepper and integrator class
    the scheme can emit in stage 2.  dim 2 (the emitted classes do not
    depend on dim), options by lattice stride, integrators from the stage-2
    list."""
    mod, base, opts, dims, solids = SCHEMES[name]
    factors = [('dim', [2]), ('solids', [True, False] if solids
                              else [False]), ('clean', [True])]
    factors += [('o:' + k, list(opts[k])) for k in sorted(opts)
                if k != 'iom']
    factors += [('nfluids', [1, 2])]
    if solids:
        factors.append(('nsolids', [1, 2]))
    factors.append(('integrator', S2_INTEGRATORS.get(name, [None])))
    total = 1
    for k, v in factors:
        total *= len(v)
    stride = _coprime_stride(total)
    pool, seen = [], set()
    for k in range(min(160, total)):
        c = stage2_cfg(_decode(name, factors, (k * stride) % total))
        h = canon(c)
        if h in seen:
            continue
        seen.add(h)
        cl = emitted_classes(c)
        if cl:
            pool.append((c, cl))
    need = set()
    for c, cl in pool:
        need |= cl
    chosen = []
    while need and len(chosen) < cap:
        best = max(pool, key=lambda x: len(x[1] & need))
        gain = best[1] & need
        if not gain:
            break
        chosen.append(best[0])
        need -= gain
    return chosen, sorted(need)


# ------------------------------------------------------------ entry points
@st.composite
def cfg_strategy(draw, name, stage2_only=False):
    mod, base, opts, dims, solids = SCHEMES[name]
    cfg = dict(scheme=name, dim=draw(st.sampled_from(dims)),
               solids=draw(st.booleans()) if solids else False,
               clean=draw(st.booleans()),
               options=dict((k, draw(st.sampled_from(v)))
                            for k, v in sorted(opts.items())))
    for k in EXTRA_KEYS:
        vals = EXTRAS[k]
        if stage2_only and k == 'integrator':
            vals = S2_INTEGRATORS.get(name, [None])
        if stage2_only and k == 'kernel':
            vals = S2_KERNELS
        cfg[k] = draw(st.sampled_from(vals))
    if stage2_only and 'iom' in cfg['options']:
        cfg['options']['iom'] = None
    return normalise(cfg)


def plan(ctx):
    names = sorted(SCHEMES)
    shards = []
    quick = ctx['tier'] == 'quick'
    for i, nm in enumerate(names):
        if quick:
            shards.append(dict(name='stage1-' + nm, kind='stage1',
                               scheme=nm, drawn=40, full=False))
        else:
            # the full option product, one shard per dimension
            for d in SCHEMES[nm][3]:
                shards.append(dict(name='stage1-%s-d%d' % (nm, d),
                                   kind='stage1', scheme=nm, drawn=200,
                                   full=True, dim=d))
    names = [nm for nm in names if nm not in STAGE1_ONLY]
    for i, nm in enumerate(names):
        shards.append(dict(name='stage2c-' + nm, kind='stage2c', scheme=nm))
    for i, nm in enumerate(names):
        # a sample that rotates with the seed
        shards.append(dict(name='stage2-' + nm, kind='stage2', scheme=nm,
                           n=2 if quick else 24))
    return shards


def run_shard(spec, ctx):
    stats = Stats()
    name = spec['scheme']
    if spec['kind'] == 'stage1':
        cfgs = pairwise_configs(name, ctx.seed)
        stats.extra['covering_' + name] = len(cfgs)
        if spec['full']:
            cfgs = [c for c in cfgs + all_configs(name)
                    if c['dim'] == spec.get('dim', c['dim'])]
        stats.extra['enumerated_' + name] = len(cfgs)
        seen = set()
        for i, cfg in enumerate(cfgs):
            ctx.journal(cfg)
            with_code = spec['full'] or (i % 2 == 0)
            fails, labels, _ = stage1(cfg, with_code)
            out = Outcome(fails, labels, 'non_default' in labels)
            stats.record(cfg, out)
            for f in fails:
                if f.sig() not in seen:
                    seen.add(f.sig())
                    stats.failures.append(f.as_dict(cfg))
        if spec['drawn']:
            def execute(cfg):
                ctx.journal(cfg)
                fails, labels, _ = stage1(cfg, True)
                fails = [f for f in fails if f.sig() not in seen]
                return Outcome(fails, labels, 'non_default' in labels)
            search(cfg_strategy(name), execute,
                   derive_seed(ctx.seed, 'C12', spec['name']),
                   stats.evaluations + spec['drawn'], stats, shrink=True)
        return stats.result()
    stats.extra['jit_compiles'] = 0
    if spec['kind'] == 'stage2c':
        cfgs, left = class_cover(name)
        stats.extra['cover_' + name] = len(cfgs)
        if left:
            stats.extra['cover_left_' + name] = left
        for cfg in cfgs:
            cfg = dict(cfg, stage2=True)
            ctx.journal(cfg)
            fails, labels, ran = stage2(cfg)
            if ran:
                stats.extra['jit_compiles'] += 1
            stats.record(cfg, Outcome(fails, labels + ['stage2_cover'],
                                      ran and not is_default(cfg)))
            for f in fails:
                stats.failures.append(f.as_dict(cfg))
        return stats.result()

    # stage 2, rotating
    def execute2(cfg):
        cfg = dict(cfg, stage2=True)
        ctx.journal(cfg)
        fails, labels, ran = stage2(cfg)
        if ran:
            stats.extra['jit_compiles'] += 1
        return Outcome(fails, labels, ran and not is_default(cfg))
    search(cfg_strategy(name, True), execute2,
           derive_seed(ctx.seed, 'C12s2', name), spec['n'] + 1, stats,
           shrink=False)
    return stats.result()


def run_case(case, component, ctx):
    fails, labels, _ = stage1(case, True)
    out = [f.as_dict(case) for f in fails]
    if not out and case.get('stage2'):
        f2, _, _ = stage2(case)
        out = [f.as_dict(case) for f in f2]
    return out
