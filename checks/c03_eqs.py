"""Tracer equations for C03/C04: every hook performs an order-sensitive exact
integer update of the `long` property `tr`, so that the order of hooks,
equations, sources, groups, iterations and the destination index range are
all visible in the final values.  Arithmetic is on non-negative integers
below 2**40 only, so Python and C agree exactly.
"""
from pysph.sph.equation import Equation
from pysph.base.reduce_array import serial_reduce_array
from compyle.api import declare

# Python-level event logs keyed by the `tag` attribute of an equation.
LOGS = {}


def log_event(tag, *ev):
    LOGS.setdefault(tag, []).append(ev)


class TBase(Equation):
    def __init__(self, dest, sources, k=1, tag=0):
        self.k = k
        self.tag = tag
        super(TBase, self).__init__(dest, sources)


class TI(TBase):
    def initialize(self, d_idx, d_tr):
        d_tr[d_idx] = (d_tr[d_idx]*31 + self.k*7 + 1) % 1000003


class TL(TBase):
    def loop(self, d_idx, s_idx, d_tr, s_w0):
        d_tr[d_idx] = (d_tr[d_idx]*31 + s_idx*5 + s_w0[s_idx] +
                       self.k*7 + 4) % 1000003


class TIL(TBase):
    def initialize(self, d_idx, d_tr):
        d_tr[d_idx] = (d_tr[d_idx]*31 + self.k*7 + 1) % 1000003

    def loop(self, d_idx, s_idx, d_tr, s_w0):
        d_tr[d_idx] = (d_tr[d_idx]*31 + s_idx*5 + s_w0[s_idx] +
                       self.k*7 + 4) % 1000003


class TILP(TBase):
    def initialize(self, d_idx, d_tr):
        d_tr[d_idx] = (d_tr[d_idx]*31 + self.k*7 + 1) % 1000003

    def loop(self, d_idx, s_idx, d_tr, s_w0):
        d_tr[d_idx] = (d_tr[d_idx]*31 + s_idx*5 + s_w0[s_idx] +
                       self.k*7 + 4) % 1000003

    def post_loop(self, d_idx, d_tr):
        d_tr[d_idx] = (d_tr[d_idx]*31 + self.k*7 + 5) % 1000003


class TA(TBase):
    def loop_all(self, d_idx, d_tr, s_w0, NBRS, N_NBRS):
        i = declare('int')
        acc = declare('long')
        sidx = declare('long')
        acc = 0
        for i in range(N_NBRS):
            sidx = NBRS[i]
            acc = (acc*3 + sidx + s_w0[sidx]) % 1000003
        d_tr[d_idx] = (d_tr[d_idx]*31 + acc + N_NBRS*11 +
                       self.k*7 + 3) % 1000003


class TPA(TBase):
    def initialize_pair(self, d_idx, d_tr, s_w0):
        d_tr[d_idx] = (d_tr[d_idx]*31 + s_w0[0] + self.k*7 + 2) % 1000003

    def loop_all(self, d_idx, d_tr, s_w0, NBRS, N_NBRS):
        i = declare('int')
        acc = declare('long')
        sidx = declare('long')
        acc = 0
        for i in range(N_NBRS):
            sidx = NBRS[i]
            acc = (acc*3 + sidx + s_w0[sidx]) % 1000003
        d_tr[d_idx] = (d_tr[d_idx]*31 + acc + N_NBRS*11 +
                       self.k*7 + 3) % 1000003

    def loop(self, d_idx, s_idx, d_tr, s_w0):
        d_tr[d_idx] = (d_tr[d_idx]*31 + s_idx*5 + s_w0[s_idx] +
                       self.k*7 + 4) % 1000003


class TP(TBase):
    def post_loop(self, d_idx, d_tr):
        d_tr[d_idx] = (d_tr[d_idx]*31 + self.k*7 + 5) % 1000003


class TR(TBase):
    """reduce + converged: convergence is data dependent."""
    def __init__(self, dest, sources, k=1, tag=0):
        self.rsum = 0.0
        self.ncalls = 0.0
        self.nreduce = 0.0
        super(TR, self).__init__(dest, sources, k, tag)

    def initialize(self, d_idx, d_tr):
        d_tr[d_idx] = (d_tr[d_idx]*31 + self.k*7 + 1) % 1000003

    def reduce(self, dst, t, dt):
        s = serial_reduce_array(dst.tr, 'sum')
        self.rsum = s % 997.0
        self.nreduce += 1.0

    def converged(self):
        self.ncalls += 1.0
        if (self.rsum + self.k) % 3.0 < 1.0:
            return 1.0
        else:
            return -1.0


class TLR(TBase):
    def __init__(self, dest, sources, k=1, tag=0):
        self.rsum = 0.0
        self.ncalls = 0.0
        self.nreduce = 0.0
        super(TLR, self).__init__(dest, sources, k, tag)

    def loop(self, d_idx, s_idx, d_tr, s_w0):
        d_tr[d_idx] = (d_tr[d_idx]*31 + s_idx*5 + s_w0[s_idx] +
                       self.k*7 + 4) % 1000003

    def post_loop(self, d_idx, d_tr):
        d_tr[d_idx] = (d_tr[d_idx]*31 + self.k*7 + 5) % 1000003

    def reduce(self, dst, t, dt):
        s = serial_reduce_array(dst.tr, 'max')
        self.rsum = s % 997.0
        self.nreduce += 1.0

    def converged(self):
        self.ncalls += 1.0
        if (self.rsum + self.k) % 2.0 < 1.0:
            return 1.0
        else:
            return -1.0


class TPY(TBase):
    def py_initialize(self, dst, t, dt):
        log_event(self.tag, 'py_initialize', dst.name, float(t), float(dt),
                  int(dst.get_number_of_particles()))
        tr = dst.get_carray('tr').get_npy_array()
        if len(tr) > 0:
            tr[0] = (tr[0]*31 + self.k*7 + 6) % 1000003

    def initialize(self, d_idx, d_tr):
        d_tr[d_idx] = (d_tr[d_idx]*31 + self.k*7 + 1) % 1000003


class TT(TBase):
    """uses t and dt; arithmetic-only update of the double property q."""
    def initialize(self, d_idx, d_tr, d_q, t, dt):
        d_q[d_idx] = d_q[d_idx]*0.5 + t + 3.0*dt + self.k
        d_tr[d_idx] = (d_tr[d_idx]*31 + self.k*7 + 1) % 1000003


class TNudge(TBase):
    """Moves particles (only used in groups that refresh neighbours)."""
    def post_loop(self, d_idx, d_tr, d_x, d_y, d_h):
        d_x[d_idx] = d_x[d_idx] + 0.11*d_h[d_idx]*((d_tr[d_idx] % 7) - 3.0)
        d_y[d_idx] = d_y[d_idx] - 0.07*d_h[d_idx]*((d_tr[d_idx] % 5) - 2.0)
