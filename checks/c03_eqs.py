"""Tracer equations for C03/C04: every hook performs an order-sensitive exact
integer update of the `long` property `tr`, so that the order of hooks,
equations, sources, groups, iterations and the destination index range are
all visible in the final values.  Arithmetic is on non-negative integers
below 2**40 only, so Python and C agree exactly.
"""
from pysph.sph.equation import Equation
from pysph.base.reduce_array import serial_reduce_array
from compyle.api import declare

# Python-level event logs keyed by the `tag` attribute of an equation.
LOGS = {}


def log_event(tag, *ev):
    LOGS.setdefault(tag, []).append(ev)


class TBase(Equation):
    def __init__(self, dest, sources, k=1, tag=0):
        self.k = k
        self.tag = tag
        super(TBase, self).__init__(dest, sources)


class TI(TBase):
    def initialize(self, d_idx, d_tr):
        d_tr[d_idx] = (d_tr[d_idx]*31 + self.k*7 + 1) % 1000003


class TL(TBase):
    def loop(self, d_idx, s_idx, d_tr, s_w0):
        d_tr[d_idx] = (d_tr[d_idx]*31 + s_idx*5 + s_w0[s_idx] +
                       self.k*7 + 4) % 1000003


class TIL(TBase):
    def initialize(self, d_idx, d_tr):
        d_tr[d_idx] = (d_tr[d_idx]*31 + self.k*7 + 1) % 1000003

    def loop(self, d_idx, s_idx, d_tr, s_w0):
        d_tr[d_idx] = (d_tr[d_idx]*31 + s_idx*5 + s_w0[s_idx] +
                       self.k*7 + 4) % 1000003


class TILP(TBase):
    def initialize(self, d_idx, d_tr):
        d_tr[d_idx] = (d_tr[d_idx]*31 + self.k*7 + 1) % 1000003

    def loop(self, d_idx, s_idx, d_tr, s_w0):
        d_tr[d_idx] = (d_tr[d_idx]*31 + s_idx*5 + s_w0[s_idx] +
                       self.k*7 + 4) % 1000003

    def post_loop(self, d_idx, d_tr):
        d_tr[d_idx] = (d_tr[d_idx]*31 + self.k*7 + 5) % 1000003


class TA(TBase):
    def loop_all(self, d_idx, d_tr, s_w0, NBRS, N_NBRS):
        i = declare('int')
        acc = declare('long')
        sidx = declare('long')
        acc = 0
        for i in range(N_NBRS):
            sidx = NBRS[i]
            acc = (acc*3 + sidx + s_w0[sidx]) % 1000003
        d_tr[d_idx] = (d_tr[d_idx]*31 + acc + N_NBRS*11 +
                       self.k*7 + 3) % 1000003


class TPA(TBase):
    def initialize_pair(self, d_idx, d_tr, s_w0):
        d_tr[d_idx] = (d_tr[d_idx]*31 + s_w0[0] + self.k*7 + 2) % 1000003

    def loop_all(self, d_idx, d_tr, s_w0, NBRS, N_NBRS):
        i = declare('int')
        acc = declare('long')
        sidx = declare('long')
        acc = 0
        for i in range(N_NBRS):
            sidx = NBRS[i]
            acc = (acc*3 + sidx + s_w0[sidx]) % 1000003
        d_tr[d_idx] = (d_tr[d_idx]*31 + acc + N_NBRS*11 +
                       self.k*7 + 3) % 1000003

    def loop(self, d_idx, s_idx, d_tr, s_w0):
        d_tr[d_idx] = (d_tr[d_idx]*31 + s_idx*5 + s_w0[s_idx] +
                       self.k*7 + 4) % 1000003


class TP(TBase):
    def post_loop(self, d_idx, d_tr):
        d_tr[d_idx] = (d_tr[d_idx]*31 + self.k*7 + 5) % 1000003


class TR(TBase):
    """reduce + converged: convergence is data dependent."""
    def __init__(self, dest, sources, k=1, tag=0):
        self.rsum = 0.0
        self.ncalls = 0.0
        self.nreduce = 0.0
        super(TR, self).__init__(dest, sources, k, tag)

    def initialize(self, d_idx, d_tr):
        d_tr[d_idx] = (d_tr[d_idx]*31 + self.k*7 + 1) % 1000003

    def reduce(self, dst, t, dt):
        s = serial_reduce_array(dst.tr, 'sum')
        self.rsum = s % 997.0
        self.nreduce += 1.0

    def converged(self):
        self.ncalls += 1.0
        if (self.rsum + self.k) % 3.0 < 1.0:
            return 1.0
        else:
            return -1.0


class TLR(TBase):
    def __init__(self, dest, sources, k=1, tag=0):
        self.rsum = 0.0
        self.ncalls = 0.0
        self.nreduce = 0.0
        super(TLR, self).__init__(dest, sources, k, tag)

    def loop(self, d_idx, s_idx, d_tr, s_w0):
        d_tr[d_idx] = (d_tr[d_idx]*31 + s_idx*5 + s_w0[s_idx] +
                       self.k*7 + 4) % 1000003

    def post_loop(self, d_idx, d_tr):
        d_tr[d_idx] = (d_tr[d_idx]*31 + self.k*7 + 5) % 1000003

    def reduce(self, dst, t, dt):
        s = serial_reduce_array(dst.tr, 'max')
        self.rsum = s % 997.0
        self.nreduce += 1.0

    def converged(self):
        self.ncalls += 1.0
        if (self.rsum + self.k) % 2.0 < 1.0:
            return 1.0
        else:
            return -1.0


class TPY(TBase):
    def py_initialize(self, dst, t, dt):
        log_event(self.tag, 'py_initialize', dst.name, float(t), float(dt),
                  int(dst.get_number_of_particles()))
        tr = dst.get_carray('tr').get_npy_array()
        if len(tr) > 0:
            tr[0] = (tr[0]*31 + self.k*7 + 6) % 1000003

    def initialize(self, d_idx, d_tr):
        d_tr[d_idx] = (d_tr[d_idx]*31 + self.k*7 + 1) % 1000003


class TT(TBase):
    """uses t and dt; arithmetic-only update of the double property q."""
    def initialize(self, d_idx, d_tr, d_q, t, dt):
        d_q[d_idx] = d_q[d_idx]*0.5 + t + 3.0*dt + self.k
        d_tr[d_idx] = (d_tr[d_idx]*31 + self.k*7 + 1) % 1000003


class TLN(TBase):
    """`loop` of an equation without sources (documented with TaitEOS: the
    loop is applied to every destination particle, no neighbours involved);
    uses t and dt."""
    def loop(self, d_idx, d_tr, d_q, t, dt):
        d_q[d_idx] = d_q[d_idx]*0.5 + 2.0*t + dt + self.k
        d_tr[d_idx] = (d_tr[d_idx]*31 + self.k*7 + 8) % 1000003


class TRO(TBase):
    """Only reduce + converged (no per-particle hook); reduce uses t, dt."""
    def __init__(self, dest, sources, k=1, tag=0):
        self.rsum = 0.0
        self.ncalls = 0.0
        self.nreduce = 0.0
        super(TRO, self).__init__(dest, sources, k, tag)

    def reduce(self, dst, t, dt):
        s = serial_reduce_array(dst.tr, 'sum')
        self.rsum = (s + t*64.0 + dt*4096.0) % 997.0
        self.nreduce += 1.0

    def converged(self):
        self.ncalls += 1.0
        if (self.rsum + self.k) % 3.0 < 1.0:
            return 1.0
        else:
            return -1.0


class TPYO(TBase):
    """Only py_initialize."""
    def py_initialize(self, dst, t, dt):
        log_event(self.tag, 'py_initialize', dst.name, float(t), float(dt),
                  int(dst.get_number_of_particles()))
        tr = dst.get_carray('tr').get_npy_array()
        if len(tr) > 0:
            tr[-1] = (tr[-1]*31 + self.k*7 + 9) % 1000003


class TPO(TBase):
    """Only initialize_pair (a source block without any neighbour loop)."""
    def initialize_pair(self, d_idx, d_tr, s_nstop):
        d_tr[d_idx] = (d_tr[d_idx]*31 + s_nstop[0]*3 + self.k*7 +
                       10) % 1000003


class TN(TBase):
    """No hook at all."""


class TC(TBase):
    """Only converged(): convergence after a number of *calls*, so that a
    short-circuited or repeated call is visible in the iteration count."""
    def __init__(self, dest, sources, k=1, tag=0):
        self.ncalls = 0.0
        super(TC, self).__init__(dest, sources, k, tag)

    def converged(self):
        self.ncalls += 1.0
        if self.ncalls >= self.k % 4:
            return 1.0
        else:
            return -1.0


class TNudge(TBase):
    """Moves particles (only used in groups that refresh neighbours)."""
    def post_loop(self, d_idx, d_tr, d_x, d_y, d_h):
        d_x[d_idx] = d_x[d_idx] + 0.11*d_h[d_idx]*((d_tr[d_idx] % 7) - 3.0)
        d_y[d_idx] = d_y[d_idx] - 0.07*d_h[d_idx]*((d_tr[d_idx] % 5) - 2.0)


class TNudgeX(TBase):
    """TNudge for one-dimensional programs: moves along x only."""
    def post_loop(self, d_idx, d_tr, d_x, d_h):
        d_x[d_idx] = d_x[d_idx] + 0.11*d_h[d_idx]*((d_tr[d_idx] % 7) - 3.0)


class TNudgeBig(TBase):
    """Moves particles by more than a neighbour cell (or not at all), so
    that a stale binning is visibly stale: with moves below a cell width the
    stale and the fresh binning mostly give the same neighbour sets."""
    def post_loop(self, d_idx, d_tr, d_x, d_h):
        d_x[d_idx] = d_x[d_idx] + 3.5*d_h[d_idx]*((d_tr[d_idx] % 3) - 1.0)
