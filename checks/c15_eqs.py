"""Equation used by checks/c15_riemann.py to run the *transpiled* form of the
Riemann solvers (pysph/sph/gas_dynamics/riemann_solver.py).

One particle is one Riemann problem.  The solver is reached the way the
shipped GSPH equation reaches it (gsph.GSPHAcceleration.loop): through
`riemann_solve(method, ...)` with the module's HELPERS list as the helpers of
the equation and a local `matrix(2)` result buffer.  The buffer is pre-filled
with garbage, as a buffer re-used between pairs would be.  The method, the
iteration limit and the tolerance are per-particle values, so a single JIT
compile serves every generated case.

This has to be a real .py file: compyle obtains the source of the equation
and of the helpers with inspect.getsource.
"""
from compyle.api import declare
from pysph.sph.equation import Equation
from pysph.sph.gas_dynamics.riemann_solver import HELPERS, riemann_solve

DPROPS = ['rhol', 'rhor', 'pl', 'pr', 'ul', 'ur', 'gam', 'rtol', 'rc', 'ps',
          'us']
IPROPS = ['method', 'niter']
GARBAGE = (7.25, -3.5)


class RiemannProbe(Equation):
    def _get_helpers_(self):
        return HELPERS

    def initialize(self, d_idx, d_rhol, d_rhor, d_pl, d_pr, d_ul, d_ur,
                   d_gam, d_rtol, d_method, d_niter, d_rc, d_ps, d_us):
        res = declare('matrix(2)')
        res[0] = 7.25
        res[1] = -3.5
        d_rc[d_idx] = riemann_solve(
            d_method[d_idx], d_rhol[d_idx], d_rhor[d_idx], d_pl[d_idx],
            d_pr[d_idx], d_ul[d_idx], d_ur[d_idx], d_gam[d_idx],
            d_niter[d_idx], d_rtol[d_idx], res
        )
        d_ps[d_idx] = res[0]
        d_us[d_idx] = res[1]
