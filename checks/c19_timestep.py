"""C19 - the adaptive time step is the documented minimum over all particles.

Integrator.compute_time_step / Solver._compute_timestep are driven on the
path real callers use (arrays registered with an NNPS whose update refreshes
the cached smoothing-length minimum) and compared with a numpy evaluation of
the documented formula.
"""
import math

from hypothesis import strategies as st

from vlib.hyp import Failure, Outcome, Stats, search, derive_seed

RULE = ('cases = 1-3 particle arrays (0-12 particles, ghosts at the tail, '
        'some arrays empty, some lacking dt_cfl/dt_force/dt_visc/dt_adapt), '
        'criterion values >= 0 incl. all zero, h log-uniform in [1e-3,1e3] '
        '(incl. all h > 1), cfl in (0,1], fixed_h on/off, 1-3 rounds of '
        'changing values (and, without fixed_h, arrays that are empty in '
        'some rounds and filled in others) then update then compute on the '
        'same Integrator. Non-trivial = >= 2 '
        'criteria positive and min h != 1; distinct by case hash.')
ASSUMPTIONS = [
    'hmin may be the minimum over all particles or over real particles '
    '(the statement does not say which); both are accepted',
    'relative tolerance 1e-12',
]
ESSENTIAL_LABELS = {'all': ['empty_array', 'all_h_gt_1', 'dt_adapt',
                            'no_criterion', 'ghosts', 'fixed_h',
                            'missing_props', 'solver_path',
                            'solver_damped', 'array_appears',
                            'dt_adapt_appears']}

CRIT = ('dt_cfl', 'dt_force', 'dt_visc')


@st.composite
def case_strategy(draw):
    narr = draw(st.integers(1, 3))
    hk = draw(st.sampled_from(['gt1', 'lt1', 'mixed', 'mixed']))
    arrays = []
    use_adapt = draw(st.integers(0, 3)) == 0
    for a in range(narr):
        n = draw(st.sampled_from([0, 1, 2, 3, 5, 8, 12]))
        nghost = draw(st.integers(0, n)) if draw(st.booleans()) else 0
        props = [c for c in CRIT if draw(st.integers(0, 3)) > 0]
        if use_adapt and draw(st.booleans()):
            props.append('dt_adapt')
        rounds = []
        for r in range(3):
            vals = {}
            if hk == 'gt1':
                hs = [10.0 ** draw(st.floats(0.01, 3)) for _ in range(n)]
            elif hk == 'lt1':
                hs = [10.0 ** draw(st.floats(-3, -0.01)) for _ in range(n)]
            else:
                hs = [10.0 ** draw(st.floats(-3, 3)) for _ in range(n)]
            vals['h'] = hs
            for pr in props:
                zk = draw(st.sampled_from(['zero', 'pos', 'pos', 'mixed']))
                if zk == 'zero':
                    v = [0.0] * n
                elif zk == 'pos':
                    v = [10.0 ** draw(st.floats(-3, 3)) for _ in range(n)]
                else:
                    v = [draw(st.sampled_from([0.0, 1.0])) *
                         10.0 ** draw(st.floats(-3, 3)) for _ in range(n)]
                vals[pr] = v
            rounds.append(vals)
        # the array may be empty in some rounds and hold its particles in
        # others (an inlet-fed fluid, an outlet that drains): the same
        # integrator sees both
        present = [draw(st.sampled_from([True, True, True, False]))
                   for _ in range(3)]
        arrays.append(dict(n=n, nghost=nghost, props=props, rounds=rounds,
                           present=present))
    fixed_h = draw(st.booleans())
    if fixed_h:
        for a in arrays:
            a['present'] = [True, True, True]
    return dict(arrays=arrays, cfl=draw(st.floats(0.01, 1.0)),
                fixed_h=fixed_h,
                nrounds=draw(st.integers(1, 3)),
                dt=10.0 ** draw(st.floats(-4, 1)),
                via_solver=draw(st.booleans()),
                n_damp=draw(st.sampled_from([0, 0, 3, 8])),
                warm=draw(st.integers(0, 6)))


class AEval(object):
    def __init__(self, pas):
        self.particle_arrays = pas


def present(a, r):
    return a.get('present', [True, True, True])[r]


def expected(case, r):
    """Documented value for round r (r=0 values when fixed_h for h)."""
    import numpy as np
    arrs = [dict(a, n=a['n'] if present(a, r) else 0,
                 nghost=a['nghost'] if present(a, r) else 0)
            for a in case['arrays']]
    adapt_vals = []
    has_adapt = False
    for a in arrs:
        if 'dt_adapt' in a['props']:
            has_adapt = True
            nreal = a['n'] - a['nghost']
            adapt_vals += a['rounds'][r]['dt_adapt'][:nreal]
    if has_adapt and adapt_vals and min(adapt_vals) > 0:
        return [min(adapt_vals)], 'dt_adapt'
    hr = 0 if case['fixed_h'] else r
    h_all = []
    h_real = []
    for a in arrs:
        hs = a['rounds'][hr]['h'][:a['n']]
        h_all += hs
        h_real += hs[:a['n'] - a['nghost']]
    fac = {}
    for c in CRIT:
        m = None
        for a in arrs:
            if c in a['props']:
                nreal = a['n'] - a['nghost']
                v = a['rounds'][r][c][:nreal]
                if v:
                    m = max(v) if m is None else max(m, max(v))
        if m is not None and m > 0:
            fac[c] = m
    if not fac or not h_all:
        return [None], 'none'
    outs = []
    for hs in (h_all, h_real):
        if not hs:
            continue
        hmin = min(hs)
        terms = []
        if 'dt_cfl' in fac:
            terms.append(hmin / fac['dt_cfl'])
        if 'dt_force' in fac:
            terms.append(math.sqrt(hmin / math.sqrt(fac['dt_force'])))
        if 'dt_visc' in fac:
            terms.append(hmin / fac['dt_visc'])
        outs.append(case['cfl'] * min(terms))
    return outs, 'criteria'


def check(case):
    import numpy as np
    from pysph.base.utils import get_particle_array
    from pysph.base.nnps import LinkedListNNPS
    from pysph.sph.integrator import Integrator
    from pysph.solver.solver import Solver
    labels = []
    fails = []
    pas = []
    # keep the search grid small whatever h is: spacing relative to the
    # smallest per-round maximum of h
    hm = [max([h for a in case['arrays'] for h in a['rounds'][r]['h']] or
              [1.0]) for r in range(3)]
    sp = 0.05 * min(hm)
    def coords(i, n):
        x = (np.arange(n, dtype=float) * 0.37 + i * 0.11) * sp
        return x, x * 0.5, x * 0.25

    def tags(a):
        tag = np.zeros(a['n'], dtype=np.int32)
        if a['nghost']:
            tag[a['n'] - a['nghost']:] = 2
        return tag

    for i, a in enumerate(case['arrays']):
        n = a['n'] if present(a, 0) else 0
        x, y, z = coords(i, n)
        pa = get_particle_array(name='a%d' % i, x=x, y=y, z=z,
                                h=np.array(a['rounds'][0]['h'][:n],
                                           dtype=float))
        for pr in a['props']:
            pa.add_property(pr)
        if n and a['nghost']:
            labels.append('ghosts')
        if n:
            pa.tag[:] = tags(a)
        pa.align_particles()
        pas.append(pa)
        if n == 0:
            labels.append('empty_array')
        if len(a['props']) < 3:
            labels.append('missing_props')
        pr_ = a.get('present', [True] * 3)[:case['nrounds']]
        if a['n'] and any(pr_[k] and not all(pr_[:k])
                          for k in range(1, len(pr_))):
            labels.append('array_appears')
            if 'dt_adapt' in a['props']:
                labels.append('dt_adapt_appears')
    total = sum(a['n'] if present(a, 0) else 0 for a in case['arrays'])
    nnps = None
    if total > 0:
        nnps = LinkedListNNPS(dim=3, particles=pas, radius_scale=2.0)
    integ = Integrator()
    integ.set_acceleration_evals(AEval(pas))

    def setvals(r):
        for i, (pa, a) in enumerate(zip(pas, case['arrays'])):
            cur = pa.get_number_of_particles()
            if present(a, r) and cur == 0 and a['n']:
                x, y, z = coords(i, a['n'])
                pa.add_particles(x=x, y=y, z=z, tag=tags(a),
                                 h=np.array(a['rounds'][r]['h'],
                                            dtype=float))
                pa.align_particles()
                if a['nghost']:
                    labels.append('ghosts')
            elif not present(a, r) and cur:
                pa.remove_particles(np.arange(cur))
            if not present(a, r) or not a['n']:
                continue
            vals = a['rounds'][r]
            for k, v in vals.items():
                if k == 'h' and case['fixed_h'] and r > 0:
                    continue
                getattr(pa, k)  # must exist
                pa.get_carray(k).get_npy_array()[:] = np.array(v,
                                                               dtype=float)
        if nnps is not None:
            nnps.update_domain()
            nnps.update()
        else:
            for pa in pas:
                pa.update_min_max()

    setvals(0)
    if case['fixed_h']:
        labels.append('fixed_h')
    integ.set_fixed_h(case['fixed_h'])
    solver = None
    if case['via_solver']:
        solver = Solver(integrator=integ, dt=case['dt'], tf=1e9,
                        adaptive_timestep=True, cfl=case['cfl'],
                        n_damp=case.get('n_damp', 0))
        solver.particles = pas
        labels.append('solver_path')
        if case.get('n_damp', 0):
            labels.append('solver_damped')
    nontrivial = False
    nominal = [case['dt']]
    for r in range(case['nrounds']):
        if r > 0:
            setvals(r)
        exp, how = expected(case, r)
        try:
            got = integ.compute_time_step(case['dt'], case['cfl'])
            if solver is not None and r == 0:
                # the solver's own loop: damped steps for a few iterations;
                # the proposal (undamped) must stay the documented value
                for _ in range(case.get('warm', 0)):
                    solver.dt = solver._get_timestep()
                    solver.count += 1
            sgot = solver._compute_timestep() if solver is not None else None
        except Exception as ex:
            fails.append(Failure('compute_time_step', 'exception', repr(ex),
                                 dict(how=how)))
            break
        if how == 'dt_adapt':
            labels.append('dt_adapt')
        if how == 'none':
            labels.append('no_criterion')
        hr = 0 if case['fixed_h'] else r
        hs = [h for a in case['arrays'] if present(a, r)
              for h in a['rounds'][hr]['h']]
        all_gt1 = bool(hs) and min(hs) > 1.0
        if all_gt1:
            labels.append('all_h_gt_1')
        kl = dict(how=how, any_empty=any(a['n'] == 0 or not present(a, r)
                                          for a in case['arrays']),
                  all_h_gt_1=all_gt1)

        def ok(g):
            for e in exp:
                if e is None and g is None:
                    return True
                if e is not None and g is not None and math.isfinite(g) \
                        and abs(g - e) <= 1e-12 * abs(e):
                    return True
            return False
        if not ok(got):
            fails.append(Failure(
                'Integrator.compute_time_step', 'wrong_value',
                'round %d: returned %r, documented value %r (%s)' % (
                    r, got, exp, how), kl, expected=repr(exp),
                observed=repr(got)))
            break
        if solver is not None:
            if r == 0:
                # the solver's nominal step after the warm-up iterations is
                # the last proposal (the fixed step when none applied)
                if case.get('warm', 0) and exp[0] is not None:
                    nominal = list(exp)
                else:
                    nominal = [case['dt']]
            sexp = []
            for e in exp:
                sexp += nominal if e is None else [e]
            if not any(sgot is not None and math.isfinite(sgot) and
                       abs(sgot - e) <= 1e-12 * abs(e) for e in sexp):
                fails.append(Failure(
                    'Solver._compute_timestep', 'wrong_value',
                    'round %d: returned %r, documented %r' % (r, sgot, sexp),
                    kl))
                break
        if how == 'criteria':
            npos = 0
            for c in CRIT:
                for a in case['arrays']:
                    if c in a['props'] and present(a, r) and any(
                            v > 0 for v in a['rounds'][r][c][:a['n'] -
                                                             a['nghost']]):
                        npos += 1
                        break
            if npos >= 2 and hs and min(hs) != 1.0:
                nontrivial = True
    return fails, labels, nontrivial


def execute(case):
    fails, labels, nt = check(case)
    return Outcome(fails, sorted(set(labels)), nt)


def plan(ctx):
    n = 5000 if ctx['tier'] == 'quick' else 500000
    k = 16
    return [dict(name='dt-%02d' % i, max_examples=n // k) for i in range(k)]


def run_shard(spec, ctx):
    stats = Stats()
    search(case_strategy(), execute,
           derive_seed(ctx.seed, 'C19', spec['name']),
           spec['max_examples'], stats, shrink=True, journal=ctx.journal)
    return stats.result()


def run_case(case, component, ctx):
    fails, _, _ = check(case)
    return [f.as_dict(case) for f in fails]
