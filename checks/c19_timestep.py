"""C19 - the adaptive time step is the documented minimum over all particles.

Integrator.compute_time_step / Solver._compute_timestep are driven on the
path real callers use (arrays registered with an NNPS whose update refreshes
the cached smoothing-length minimum) and compared with a numpy evaluation of
the documented formula.
"""
import math

from hypothesis import strategies as st

from vlib.hyp import Failure, Outcome, Stats, search, derive_seed

RULE = ('cases = 1-5 particle arrays (0-12 particles, ghosts at the tail, '
        'some arrays empty, some lacking dt_cfl/dt_force/dt_visc/dt_adapt), '
        'criterion values >= 0 incl. all zero, h log-uniform in [1e-3,1e3] '
        '(incl. all h > 1), cfl in (0,3], fixed_h on/off, 1-3 rounds of '
        'changing values (and, without fixed_h, arrays that are empty in '
        'some rounds and filled in others) then update then compute on the '
        'same Integrator; one of three further histories on that object: '
        'set_fixed_h switched on / off / on again between the rounds, '
        'arrays entering and leaving the evaluator (list edited in place or '
        'set_acceleration_evals called again), criterion properties added '
        'to / removed from an array; evaluators given as one object, a list '
        'or a tuple of several; cfl changing per round; the solver with '
        'adaptivity switched off for a round. Non-trivial = >= 2 '
        'criteria positive and min h != 1; distinct by case hash.')
ASSUMPTIONS = [
    'hmin may be the minimum over all particles or over real particles '
    '(the statement does not say which); both are accepted',
    'relative tolerance 1e-12',
    'while fixed_h is set the smoothing lengths and the set of arrays stay '
    'as they were when it was set (that is what the flag promises)',
    'KNOWN (audit audC10, /var/tmp/audC10/dt_adapt_cache.py): whether '
    'dt_adapt is used is decided once per Integrator; a first array with '
    'dt_adapt entering the evaluator after the first call is ignored.  '
    'Such histories are not generated (counted as excluded:...)',
]
ESSENTIAL_LABELS = {'all': ['empty_array', 'all_h_gt_1', 'dt_adapt',
                            'no_criterion', 'ghosts', 'fixed_h',
                            'missing_props', 'solver_path',
                            'solver_damped', 'array_appears',
                            'dt_adapt_appears',
                            # audit extensions
                            'fix:unfix', 'fix:refix', 'fix:late',
                            'members:enter', 'members:leave',
                            'members:reset', 'members:mutate',
                            'members:dt_adapt_moves', 'props:added',
                            'props:removed', 'aevals:many', 'aevals:tuple',
                            'aevals:list', 'cfl_varies',
                            'solver_fixed_step', 'solver+dt_adapt',
                            'solver_parallel',
                            'dt_adapt_not_positive']}

CRIT = ('dt_cfl', 'dt_force', 'dt_visc')


@st.composite
def case_strategy(draw, audit=False):
    narr = draw(st.integers(1, 5 if audit else 3))
    hk = draw(st.sampled_from(['gt1', 'lt1', 'mixed', 'mixed']))
    arrays = []
    use_adapt = draw(st.integers(0, 3)) == 0
    for a in range(narr):
        n = draw(st.sampled_from([0, 1, 2, 3, 5, 8, 12]))
        nghost = draw(st.integers(0, n)) if draw(st.booleans()) else 0
        props = [c for c in CRIT if draw(st.integers(0, 3)) > 0]
        if use_adapt and draw(st.booleans()):
            props.append('dt_adapt')
        rounds = []
        for r in range(3):
            vals = {}
            if hk == 'gt1':
                hs = [10.0 ** draw(st.floats(0.01, 3)) for _ in range(n)]
            elif hk == 'lt1':
                hs = [10.0 ** draw(st.floats(-3, -0.01)) for _ in range(n)]
            else:
                hs = [10.0 ** draw(st.floats(-3, 3)) for _ in range(n)]
            vals['h'] = hs
            for pr in props:
                zk = draw(st.sampled_from(['zero', 'pos', 'pos', 'mixed']))
                if zk == 'zero':
                    v = [0.0] * n
                elif zk == 'pos':
                    v = [10.0 ** draw(st.floats(-3, 3)) for _ in range(n)]
                else:
                    v = [draw(st.sampled_from([0.0, 1.0])) *
                         10.0 ** draw(st.floats(-3, 3)) for _ in range(n)]
                vals[pr] = v
            rounds.append(vals)
        # the array may be empty in some rounds and hold its particles in
        # others (an inlet-fed fluid, an outlet that drains): the same
        # integrator sees both
        present = [draw(st.sampled_from([True, True, True, False]))
                   for _ in range(3)]
        arrays.append(dict(n=n, nghost=nghost, props=props, rounds=rounds,
                           present=present))
    fixed_h = draw(st.booleans())
    hist = draw(st.sampled_from(['present', 'fix', 'fix', 'members',
                                 'members', 'props'])) if audit \
        else 'present'
    case = dict(arrays=arrays, cfl=draw(st.floats(0.01, 1.0)),
                fixed_h=fixed_h,
                nrounds=draw(st.integers(1, 3)),
                dt=10.0 ** draw(st.floats(-4, 1)),
                via_solver=draw(st.booleans()),
                n_damp=draw(st.sampled_from([0, 0, 3, 8])),
                warm=draw(st.integers(0, 6)))
    if not audit:
        if fixed_h:
            for a in arrays:
                a['present'] = [True, True, True]
        return case
    case['nrounds'] = draw(st.sampled_from([2, 3, 3]))
    if hist == 'fix':
        # set_fixed_h called again between the rounds
        case['nrounds'] = 3
        ops = draw(st.sampled_from([
            [True, False, True], [True, False, None], [False, True, None],
            [False, True, False], [True, None, False], [False, None, True],
            [True, True, False], None]))
        if ops is None:
            ops = [fixed_h] + [draw(st.sampled_from([None, True, False]))
                               for _ in range(2)]
        case['fixed_h'] = fixed_h = ops[0]
        case['fix_ops'] = ops
    elif hist == 'members':
        case['fixed_h'] = fixed_h = False
        mem = [[draw(st.sampled_from([True, True, False]))
                for _ in range(narr)]]
        for r in (1, 2):
            # at least one array enters or leaves in every round
            row = list(mem[-1])
            for i in draw(st.lists(st.integers(0, narr - 1), min_size=1,
                                   max_size=narr, unique=True)):
                row[i] = not row[i]
            mem.append(row)
        for r in range(3):
            if not any(mem[r]):
                mem[r][draw(st.integers(0, narr - 1))] = True
        case['member_how'] = draw(st.sampled_from(['mutate', 'reset']))
        ad = [i for i, a in enumerate(arrays) if 'dt_adapt' in a['props']]
        if ad and not any(mem[0][i] for i in ad) and any(
                mem[r][i] for r in (1, 2) for i in ad):
            if case['member_how'] == 'mutate':
                # not generated: the first dt_adapt array would enter by an
                # in-place edit of the evaluator's array list, which no
                # setter sees (see ASSUMPTIONS)
                mem[0][ad[0]] = True
                case['xadapt'] = 1
            else:
                # make the late entry count: the array holds particles with
                # positive dt_adapt when it enters and every round is run
                case['adapt_enters_later'] = 1
                case['nrounds'] = 3
                for i in ad:
                    a = arrays[i]
                    if a['n'] - a['nghost'] > 0:
                        a['present'] = [True, True, True]
                        for r in range(3):
                            a['rounds'][r]['dt_adapt'] = [
                                abs(v) + 10.0 ** -3
                                for v in a['rounds'][r]['dt_adapt']]
        case['members'] = mem
    elif hist == 'props':
        for a in arrays:
            a['has'] = [{c: draw(st.sampled_from([True, True, False]))
                         for c in a['props'] if c != 'dt_adapt'}
                        for _ in range(3)]
    if fixed_h or hist == 'fix':
        for a in arrays:
            a['present'] = [True, True, True]
    case['aevals'] = draw(st.sampled_from(['single', 'single', 'list1',
                                           'list2', 'tuple2', 'list3']))
    if draw(st.booleans()):
        case['cfls'] = [draw(st.floats(0.01, 3.0)) for _ in range(3)]
    if case['via_solver'] and draw(st.booleans()):
        case['sadapt'] = [True] + [draw(st.booleans()) for _ in range(2)]
    if case['via_solver'] and draw(st.integers(0, 3)) == 0:
        case['spar'] = case['dt'] * 10.0 ** draw(st.floats(-2, 2))
    return case


class AEval(object):
    def __init__(self, pas):
        self.particle_arrays = pas


class TwoRankPM(object):
    """ParallelManager.update_time_steps (a MIN reduction) where the other
    rank always proposes `other`."""

    def __init__(self, other):
        self.other = other

    def update_time_steps(self, dt):
        return min([dt, self.other])


def present(a, r):
    return a.get('present', [True, True, True])[r]


def member(case, i, r):
    m = case.get('members')
    return True if m is None else m[r][i]


def has_prop(a, c, r):
    h = a.get('has')
    return c in a['props'] and (h is None or h[r].get(c, True))


def fix_state(case):
    """Per round: (op applied after the values are set, fixed afterwards,
    round whose h values the arrays hold)."""
    ops = case.get('fix_ops') or [case['fixed_h'], None, None]
    out = []
    fixed = False
    hcur = 0
    for r in range(3):
        if r == 0 or not fixed:
            hcur = r
        if ops[r] is not None:
            fixed = bool(ops[r])
        out.append((ops[r], fixed, hcur))
    return out


def cfl_of(case, r):
    c = case.get('cfls')
    return case['cfl'] if c is None else c[r]


def expected(case, r):
    """Documented value for round r (h as it was when fixed_h was set)."""
    import numpy as np
    arrs = [dict(a, n=a['n'] if present(a, r) else 0,
                 nghost=a['nghost'] if present(a, r) else 0,
                 props=[c for c in a['props'] if has_prop(a, c, r)])
            for i, a in enumerate(case['arrays']) if member(case, i, r)]
    adapt_vals = []
    has_adapt = False
    for a in arrs:
        if 'dt_adapt' in a['props']:
            has_adapt = True
            nreal = a['n'] - a['nghost']
            adapt_vals += a['rounds'][r]['dt_adapt'][:nreal]
    if has_adapt and adapt_vals and min(adapt_vals) > 0:
        return [min(adapt_vals)], 'dt_adapt'
    hr = fix_state(case)[r][2]
    h_all = []
    h_real = []
    for a in arrs:
        hs = a['rounds'][hr]['h'][:a['n']]
        h_all += hs
        h_real += hs[:a['n'] - a['nghost']]
    fac = {}
    for c in CRIT:
        m = None
        for a in arrs:
            if c in a['props']:
                nreal = a['n'] - a['nghost']
                v = a['rounds'][r][c][:nreal]
                if v:
                    m = max(v) if m is None else max(m, max(v))
        if m is not None and m > 0:
            fac[c] = m
    if not fac or not h_all:
        return [None], 'none'
    outs = []
    for hs in (h_all, h_real):
        if not hs:
            continue
        hmin = min(hs)
        terms = []
        if 'dt_cfl' in fac:
            terms.append(hmin / fac['dt_cfl'])
        if 'dt_force' in fac:
            terms.append(math.sqrt(hmin / math.sqrt(fac['dt_force'])))
        if 'dt_visc' in fac:
            terms.append(hmin / fac['dt_visc'])
        outs.append(cfl_of(case, r) * min(terms))
    return outs, 'criteria'


def check(case):
    import numpy as np
    from pysph.base.utils import get_particle_array
    from pysph.base.nnps import LinkedListNNPS
    from pysph.sph.integrator import Integrator
    from pysph.solver.solver import Solver
    labels = []
    fails = []
    pas = []
    # keep the search grid small whatever h is: spacing relative to the
    # smallest per-round maximum of h
    # (the cell size follows the largest h among the arrays that hold
    # particles in that round; with fixed_h the values of round 0 stay)
    hm = []
    for r in range(3):
        for rr in (r, 0):
            hs = [h for a in case['arrays'] if present(a, r)
                  for h in a['rounds'][rr]['h']]
            if hs:
                hm.append(max(hs))
    sp = 0.05 * min(hm or [1.0])
    def coords(i, n):
        x = (np.arange(n, dtype=float) * 0.37 + i * 0.11) * sp
        return x, x * 0.5, x * 0.25

    def tags(a):
        tag = np.zeros(a['n'], dtype=np.int32)
        if a['nghost']:
            tag[a['n'] - a['nghost']:] = 2
        return tag

    for i, a in enumerate(case['arrays']):
        n = a['n'] if present(a, 0) else 0
        x, y, z = coords(i, n)
        pa = get_particle_array(name='a%d' % i, x=x, y=y, z=z,
                                h=np.array(a['rounds'][0]['h'][:n],
                                           dtype=float))
        for pr in a['props']:
            if has_prop(a, pr, 0):
                pa.add_property(pr)
        if n and a['nghost']:
            labels.append('ghosts')
        if n:
            pa.tag[:] = tags(a)
        pa.align_particles()
        pas.append(pa)
        if n == 0:
            labels.append('empty_array')
        if len(a['props']) < 3:
            labels.append('missing_props')
        pr_ = a.get('present', [True] * 3)[:case['nrounds']]
        if a['n'] and any(pr_[k] and not all(pr_[:k])
                          for k in range(1, len(pr_))):
            labels.append('array_appears')
            if 'dt_adapt' in a['props']:
                labels.append('dt_adapt_appears')
    total = sum(a['n'] if present(a, 0) else 0 for a in case['arrays'])
    nnps = None
    if total > 0:
        nnps = LinkedListNNPS(dim=3, particles=pas, radius_scale=2.0)
    integ = Integrator()
    fs = fix_state(case)
    form = case.get('aevals', 'single')
    evals = []

    def wire(r, fresh):
        lst = [pa for i, pa in enumerate(pas) if member(case, i, r)]
        if not fresh:
            for ev in evals:
                ev.particle_arrays[:] = lst
            return
        nev = dict(single=1, list1=1, list2=2, tuple2=2, list3=3)[form]
        evals[:] = [AEval(list(lst)) for _ in range(nev)]
        if form == 'single':
            integ.set_acceleration_evals(evals[0])
        elif form == 'tuple2':
            integ.set_acceleration_evals(tuple(evals))
        else:
            integ.set_acceleration_evals(list(evals))
    wire(0, True)
    if form in ('list2', 'tuple2', 'list3'):
        labels.append('aevals:many')
    if form == 'tuple2':
        labels.append('aevals:tuple')
    if form.startswith('list'):
        labels.append('aevals:list')

    def setvals(r):
        for i, (pa, a) in enumerate(zip(pas, case['arrays'])):
            cur = pa.get_number_of_particles()
            if present(a, r) and cur == 0 and a['n']:
                x, y, z = coords(i, a['n'])
                pa.add_particles(x=x, y=y, z=z, tag=tags(a),
                                 h=np.array(a['rounds'][r]['h'],
                                            dtype=float))
                pa.align_particles()
                if a['nghost']:
                    labels.append('ghosts')
            elif not present(a, r) and cur:
                pa.remove_particles(np.arange(cur))
            for c in a['props']:
                if has_prop(a, c, r) and c not in pa.properties:
                    pa.add_property(c)
                    labels.append('props:added')
                elif not has_prop(a, c, r) and c in pa.properties:
                    pa.remove_property(c)
                    labels.append('props:removed')
            if not present(a, r) or not a['n']:
                continue
            vals = a['rounds'][r]
            for k, v in vals.items():
                if k == 'h' and fs[r][2] != r:
                    continue
                if k != 'h' and not has_prop(a, k, r):
                    continue
                getattr(pa, k)  # must exist
                pa.get_carray(k).get_npy_array()[:] = np.array(v,
                                                               dtype=float)
        if nnps is not None:
            nnps.update_domain()
            nnps.update()
        else:
            for pa in pas:
                pa.update_min_max()

    setvals(0)
    if case['fixed_h']:
        labels.append('fixed_h')
    integ.set_fixed_h(case['fixed_h'])
    if case.get('xadapt'):
        labels.append('excluded:dt_adapt_enters_by_list_edit')
    if case.get('adapt_enters_later'):
        labels.append('dt_adapt_enters_later')
    solver = None
    spar = bool(case.get('spar'))
    if spar and case['via_solver'] and case.get('warm', 0) and \
            expected(case, 0)[0][0] is None:
        # KNOWN (audit audC10, /var/tmp/audC10/parallel_no_criterion.py):
        # in parallel "no criterion" becomes a step of 1e20; not driven
        spar = False
        labels.append('excluded:parallel_no_criterion')
    if case['via_solver']:
        solver = Solver(integrator=integ, dt=case['dt'], tf=1e9,
                        adaptive_timestep=True, cfl=cfl_of(case, 0),
                        n_damp=case.get('n_damp', 0), in_parallel=spar)
        if spar:
            solver.set_parallel_manager(TwoRankPM(case['spar']))
            labels.append('solver_parallel')
        solver.particles = pas
        labels.append('solver_path')
        if case.get('n_damp', 0):
            labels.append('solver_damped')
    nontrivial = False
    nominal = [case['dt']]
    for r in range(case['nrounds']):
        sad = True
        if r > 0:
            setvals(r)
            m = case.get('members')
            if m is not None and m[r] != m[r - 1]:
                wire(r, case.get('member_how') == 'reset')
                labels.append('members:' + case.get('member_how', 'mutate'))
                for i, a in enumerate(case['arrays']):
                    if m[r][i] != m[r - 1][i]:
                        labels.append('members:enter' if m[r][i]
                                      else 'members:leave')
                        if 'dt_adapt' in a['props']:
                            labels.append('members:dt_adapt_moves')
            if fs[r][0] is not None:
                integ.set_fixed_h(fs[r][0])
                if fs[r][0] and not fs[r - 1][1]:
                    labels.append('fix:refix' if any(
                        f[1] for f in fs[:r]) else 'fix:late')
                if not fs[r][0] and fs[r - 1][1]:
                    labels.append('fix:unfix')
            if case.get('cfls') and cfl_of(case, r) != cfl_of(case, r - 1):
                labels.append('cfl_varies')
            if solver is not None:
                solver.set_cfl(cfl_of(case, r))
                sad = (case.get('sadapt') or [True] * 3)[r]
                solver.set_adaptive_timestep(sad)
                if not sad:
                    labels.append('solver_fixed_step')
        exp, how = expected(case, r)
        # what the solver proposes: the global minimum in parallel
        pexp = [e if (e is None or not spar) else min(e, case['spar'])
                for e in exp]
        try:
            got = integ.compute_time_step(case['dt'], cfl_of(case, r))
            if solver is not None and r == 0:
                # the solver's own loop: damped steps for a few iterations;
                # the proposal (undamped) must stay the documented value
                for _ in range(case.get('warm', 0)):
                    solver.dt = solver._get_timestep()
                    solver.count += 1
            sgot = solver._compute_timestep() if solver is not None else None
        except Exception as ex:
            fails.append(Failure('compute_time_step', 'exception', repr(ex),
                                 dict(how=how)))
            break
        if how == 'dt_adapt':
            labels.append('dt_adapt')
            if solver is not None and sad:
                labels.append('solver+dt_adapt')
        elif any('dt_adapt' in a['props'] and member(case, i, r)
                 for i, a in enumerate(case['arrays'])):
            labels.append('dt_adapt_not_positive')
        if how == 'none':
            labels.append('no_criterion')
        hr = fs[r][2]
        hs = [h for i, a in enumerate(case['arrays'])
              if present(a, r) and member(case, i, r)
              for h in a['rounds'][hr]['h']]
        all_gt1 = bool(hs) and min(hs) > 1.0
        if all_gt1:
            labels.append('all_h_gt_1')
        kl = dict(how=how, any_empty=any(
            (a['n'] == 0 or not present(a, r)) and member(case, i, r)
            for i, a in enumerate(case['arrays'])),
                  all_h_gt_1=all_gt1)

        def ok(g):
            for e in exp:
                if e is None and g is None:
                    return True
                if e is not None and g is not None and math.isfinite(g) \
                        and abs(g - e) <= 1e-12 * abs(e):
                    return True
            return False
        if not ok(got):
            fails.append(Failure(
                'Integrator.compute_time_step', 'wrong_value',
                'round %d: returned %r, documented value %r (%s)' % (
                    r, got, exp, how), kl, expected=repr(exp),
                observed=repr(got)))
            break
        if solver is not None and spar and sad and exp[0] is None:
            labels.append('excluded:parallel_no_criterion')
        elif solver is not None:
            if r == 0:
                # the solver's nominal step after the warm-up iterations is
                # the last proposal (the fixed step when none applied)
                if case.get('warm', 0) and exp[0] is not None:
                    nominal = list(pexp)
                else:
                    nominal = [case['dt']]
            sexp = []
            for e in pexp:
                sexp += nominal if (e is None or not sad) else [e]
            if not any(sgot is not None and math.isfinite(sgot) and
                       abs(sgot - e) <= 1e-12 * abs(e) for e in sexp):
                fails.append(Failure(
                    'Solver._compute_timestep', 'wrong_value',
                    'round %d: returned %r, documented %r' % (r, sgot, sexp),
                    kl))
                break
        if how == 'criteria':
            npos = 0
            for c in CRIT:
                for i, a in enumerate(case['arrays']):
                    if has_prop(a, c, r) and member(case, i, r) and \
                            present(a, r) and any(
                            v > 0 for v in a['rounds'][r][c][:a['n'] -
                                                             a['nghost']]):
                        npos += 1
                        break
            if npos >= 2 and hs and min(hs) != 1.0:
                nontrivial = True
    return fails, labels, nontrivial


def execute(case):
    fails, labels, nt = check(case)
    return Outcome(fails, sorted(set(labels)), nt)


def plan(ctx):
    n = 8000 if ctx['tier'] == 'quick' else 500000
    k = 16
    return [dict(name='dt-%02d' % i, max_examples=n // k, audit=i >= 8)
            for i in range(k)]


def run_shard(spec, ctx):
    stats = Stats()
    search(case_strategy(spec.get('audit', False)), execute,
           derive_seed(ctx.seed, 'C19', spec['name']),
           spec['max_examples'], stats, shrink=True, journal=ctx.journal)
    return stats.result()


def run_case(case, component, ctx):
    fails, _, _ = check(case)
    return [f.as_dict(case) for f in fails]
