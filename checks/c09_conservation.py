"""C09 - pair-symmetric momentum equations conserve linear/angular momentum.

Closed systems of 1-2 mutually interacting particle arrays (every array is a
destination with all arrays as sources) are evaluated with the compiled
shipped equations; the oracle is the conservation law itself:
|sum m a| <= 1e-12 * sum m|a|, and for central-force terms the same for
sum m x cross a.  One JIT compile per (kernel, number of arrays, dim);
the equation under test is selected per evaluation through group conditions,
the neighbour algorithm through set_nnps (no recompile).
"""
from hypothesis import strategies as st

from vlib.hyp import (Failure, Outcome, Stats, search, derive_seed, canon,
                      case_hash)

RULE = ('system = 1-2 mutually interacting arrays (6-30 particles each, '
        'random positions incl. a few coincident pairs, masses, densities, '
        'pressures, sound speeds, velocities, per-particle h within a factor '
        '2), dim 1-3, kernel, neighbour algorithm, one equation of the '
        'pair-symmetric list active. Non-trivial = sum m|a| > 0 and >= 1 '
        'interacting pair with different h; distinct by (equation, kernel, '
        'dim, nnps, data) hash.')
ASSUMPTIONS = [
    'the list of pair-symmetric equations is fixed below with the reason '
    'each qualifies; body forces off; equal equation constants on all '
    'arrays',
    'tolerance 1e-12 relative to sum m|a| (measured <= 7e-17 on the '
    'unchanged tree)',
    'neighbour algorithms restricted to those C01 shows exact on generic '
    'clouds; thread interleavings not controlled (serial evaluator)',
]
ESSENTIAL_LABELS = {'all': ['two_arrays', 'one_array', 'angular_checked',
                            'density_checked', 'variable_h',
                            'mixed_sign_pressure']}
SHARD_TIMEOUT = {'quick': 1700, 'thorough': 8 * 3600}

# (module, class, kwargs, central?, acceleration props) -- why symmetric
EQUATIONS = [
    # p_a/rho_a^2 + p_b/rho_b^2 + Pi_ab(HIJ, RHOIJ, c_ab) (+ tensile R_a+R_b
    # f_ab^n) times grad W(HIJ): invariant under a<->b, along r_ab
    ('pysph.sph.wc.basic', 'MomentumEquation',
     dict(c0=10.0, alpha=0.5, beta=0.5, tensile_correction=True), True,
     ('au', 'av', 'aw')),
    ('pysph.sph.wc.basic', 'MomentumEquation',
     dict(c0=10.0, alpha=0.0, beta=0.0, tensile_correction=False), True,
     ('au', 'av', 'aw')),
    # -(p_a V_a^2 + p_b V_b^2)/m_a grad W(HIJ)
    ('pysph.sph.wc.basic', 'PressureGradientUsingNumberDensity', {}, True,
     ('au', 'av', 'aw')),
    # -m_b Pi_ab grad W(HIJ), Pi_ab from RHOIJ, c_ab average, HIJ
    ('pysph.sph.basic_equations', 'MonaghanArtificialViscosity',
     dict(alpha=1.0, beta=1.0), True, ('au', 'av', 'aw')),
    # (V_a^2+V_b^2)/m_a * p_ab(density weighted) grad W(HIJ); pb term -> auhat
    ('pysph.sph.wc.transport_velocity', 'MomentumEquationPressureGradient',
     dict(pb=2.0), True, ('au', 'av', 'aw')),
    # (V_a^2+V_b^2)/m_a * 2 eta_a eta_b/(eta_a+eta_b) F_ab v_ab : symmetric,
    # not central
    ('pysph.sph.wc.transport_velocity', 'MomentumEquationViscosity',
     dict(nu=0.1), False, ('au', 'av', 'aw')),
    # -m_b Pi_ab grad W with HIJ, RHOIJ
    ('pysph.sph.wc.transport_velocity', 'MomentumEquationArtificialViscosity',
     dict(c0=10.0, alpha=0.3), True, ('au', 'av', 'aw')),
    ('pysph.sph.wc.viscosity', 'LaminarViscosity', dict(nu=0.1), False,
     ('au', 'av', 'aw')),
    ('pysph.sph.gas_dynamics.basic', 'Monaghan92Accelerations',
     dict(alpha=1.0, beta=2.0), True, ('au', 'av', 'aw')),
    # number-density form -(V_a^2+V_b^2)/m_a pbar_ab grad W(HIJ)
    # (wc.edac.MomentumEquationPressureGradient is NOT pair symmetric: it
    # subtracts the destination's own average pressure d_pavg[d_idx])
    ('pysph.sph.wc.edac', 'MomentumEquation', dict(c0=10.0), True,
     ('au', 'av', 'aw')),
    ('pysph.sph.wc.basic', 'MomentumEquationDeltaSPH',
     dict(rho0=1.0, c0=10.0, alpha=0.5), True, ('au', 'av', 'aw')),
    ('pysph.sph.wc.viscosity', 'MonaghanSignalViscosityFluids',
     dict(alpha=0.5, h=0.4), True, ('au', 'av', 'aw')),
    ('pysph.sph.wc.viscosity', 'ClearyArtificialViscosity',
     dict(alpha=0.5), False, ('au', 'av', 'aw')),
    ('pysph.sph.gas_dynamics.basic', 'ADKEAccelerations',
     dict(alpha=1.0, beta=1.0, g1=0.2, g2=0.4, k=1.0, eps=0.5), True,
     ('au', 'av', 'aw')),
    ('pysph.sph.gas_dynamics.basic', 'MPMAccelerations', dict(beta=2.0),
     True, ('au', 'av', 'aw')),
    ('pysph.sph.wc.transport_velocity', 'MomentumEquationArtificialStress',
     {}, False, ('au', 'av', 'aw')),
    ('pysph.sph.solid_mech.basic', 'MomentumEquationWithStress', {}, False,
     ('au', 'av', 'aw')),
]
# DictBoxSortNNPS has no compiled query (it serves the parallel manager
# only) and StratifiedSFCNNPS has an open C01 finding for several arrays
NNPS = ['LinkedListNNPS', 'BoxSortNNPS', 'SpatialHashNNPS',
        'ExtendedSpatialHashNNPS', 'StratifiedHashNNPS', 'ZOrderNNPS',
        'ExtendedZOrderNNPS', 'CellIndexingNNPS', 'OctreeNNPS',
        'CompressedOctreeNNPS']
KERNELS = ['CubicSpline', 'QuinticSpline', 'WendlandQuintic', 'Gaussian',
           'WendlandQuinticC4', 'WendlandQuinticC6', 'SuperGaussian']
DENSITY = [('pysph.sph.basic_equations', 'SummationDensity'),
           ('pysph.sph.wc.transport_velocity', 'SummationDensity'),
           ('pysph.sph.gas_dynamics.basic', 'SummationDensity')]
ACTIVE = [0]


def select(variant):
    """Two classes with the same name cannot live in one evaluator (the
    generated wrappers are keyed by class name), so same-named classes are
    distributed over shard variants."""
    eqs, seen = [], {}
    for e in EQUATIONS:
        seen.setdefault(e[1] + repr(sorted(e[2].items())), None)
    names = {}
    for e in EQUATIONS:
        mods = names.setdefault(e[1], [])
        if e[0] not in mods:
            mods.append(e[0])
    for e in EQUATIONS:
        mods = names[e[1]]
        if e[0] == mods[variant % len(mods)]:
            eqs.append(e)
    dens = [DENSITY[variant % len(DENSITY)]]
    return eqs, dens


def eq_class(mod, name):
    import importlib
    return getattr(importlib.import_module(mod), name)


def layout_union(dim, kernel, EQUATIONS, DENSITY):
    from checks.c02_equations import infer_layout
    lay = {}
    for mod, name, kw, central, acc in EQUATIONS:
        l, why = infer_layout(eq_class(mod, name), dim, kernel)
        if l is None:
            raise RuntimeError('layout of %s: %s' % (name, why))
        for k, v in l.items():
            if k not in lay or v[1] > lay[k][1]:
                lay[k] = v
    for mod, name in DENSITY:
        l, why = infer_layout(eq_class(mod, name), dim, kernel)
        if l:
            for k, v in l.items():
                if k not in lay or v[1] > lay[k][1]:
                    lay[k] = v
    for k in ('au', 'av', 'aw', 'auhat', 'avhat', 'awhat', 'V', 'p', 'cs'):
        lay.setdefault(k, ('prop', 1))
    # names in a hook signature that the dry run did not touch
    from vlib import eqcatalog as C
    for mod, name in [(e[0], e[1]) for e in EQUATIONS] + DENSITY:
        obj, _ = C.instantiate(eq_class(mod, name), 'dd', ['dd'], dim)
        if obj is not None:
            d, sr = C.array_names(obj)
            for k in d | sr:
                lay.setdefault(k, ('prop', 1))
    return lay


@st.composite
def data_strategy(draw, narr, dim):
    arrays = []
    L = draw(st.sampled_from([1.0, 1.5, 2.0]))
    h0 = draw(st.sampled_from([0.3, 0.4, 0.55]))
    for i in range(narr):
        n = draw(st.integers(6, 24))
        coords = []
        for a in range(3):
            if a < dim:
                c = [draw(st.integers(0, 256)) / 256.0 * L for _ in range(n)]
            else:
                c = [0.0] * n
            coords.append(c)
        # a few coincident pairs
        if n > 4 and draw(st.booleans()):
            for a in range(3):
                coords[a][1] = coords[a][0]
        hs = [h0 * draw(st.sampled_from([0.7, 1.0, 1.0, 1.4]))
              for _ in range(n)]
        pos = lambda: [draw(st.integers(8, 32)) / 16.0 for _ in range(n)]  # noqa
        gen = lambda: [draw(st.integers(-16, 16)) / 16.0 for _ in range(n)]  # noqa
        # pressures of both signs occur in weakly compressible flows
        # (tensile regions): half of the systems have mixed-sign pressures
        pk = draw(st.sampled_from(['positive', 'mixed']))
        arrays.append(dict(n=n, x=coords[0], y=coords[1], z=coords[2], h=hs,
                           m=pos(), rho=pos(),
                           p=pos() if pk == 'positive' else
                           [2.0 * v for v in gen()], cs=pos(), V=pos(),
                           u=gen(), v=gen(), w=gen(),
                           tab=[draw(st.integers(8, 32)) / 16.0
                                for _ in range(8)]))
    return dict(arrays=arrays, nnps=draw(st.sampled_from(NNPS)),
                eq=draw(st.integers(0, len(EQUATIONS) + len(DENSITY) - 1)))


def specs_from(data, lay, names, dim):
    from vlib import eqcatalog as C
    out = []
    for nm, a in zip(names, data['arrays']):
        n = a['n']
        props = {}
        for k in ('x', 'y', 'z', 'h', 'm', 'rho', 'p', 'cs', 'V', 'u', 'v',
                  'w'):
            props[k] = dict(data=a[k])
        consts = {}
        for k, (kind, size) in sorted(lay.items()):
            if k in props or k in ('tag', 'gid', 'pid'):
                continue
            tp = C.INT_PROPS.get(k, 'double')
            cnt = n * size if kind == 'prop' else size
            if tp != 'double':
                vals = [0] * cnt
            else:
                vals = [a['tab'][(j * 3 + len(k)) % 8] for j in range(cnt)]
            if kind == 'prop':
                props[k] = dict(type=tp, stride=size, data=vals)
            else:
                # constants must be equal on all arrays (closed system)
                consts[k] = dict(data=[1.0 + 0.25 * j for j in range(size)])
        out.append(dict(name=nm, n=n, nghost=0, props=props,
                        constants=consts))
    return out


class Sys(object):
    pass


def setup(kernel_name, dim, narr, first, variant=0):
    EQUATIONS, DENSITY = select(variant)
    from pysph.base import kernels
    from pysph.sph.equation import Group
    from vlib import jit
    from vlib import eqcatalog as C
    s = Sys()
    s.names = ['a%d' % i for i in range(narr)]
    s.lay = layout_union(dim, kernel_name, EQUATIONS, DENSITY)
    s.EQUATIONS, s.DENSITY = EQUATIONS, DENSITY
    s.arrays = jit.make_arrays(specs_from(first, s.lay, s.names, dim))
    groups = []
    s.eqs = []
    for k, (mod, name, kw, central, acc) in enumerate(EQUATIONS):
        cls = eq_class(mod, name)
        es = []
        for d in s.names:
            import inspect
            sig = inspect.signature(cls.__init__).parameters
            kk = dict(kw)
            if 'dim' in sig:
                kk['dim'] = dim
            es.append(cls(dest=d, sources=list(s.names), **kk))
        groups.append(Group(equations=es,
                            condition=lambda t, dt, k=k: ACTIVE[0] == k))
    for j, (mod, name) in enumerate(DENSITY):
        cls = eq_class(mod, name)
        import inspect
        sig = inspect.signature(cls.__init__).parameters
        kk = {}
        if 'dim' in sig:
            kk['dim'] = dim
        es = [cls(dest=d, sources=list(s.names), **kk) for d in s.names]
        k = len(EQUATIONS) + j
        groups.append(Group(equations=es,
                            condition=lambda t, dt, k=k: ACTIVE[0] == k))
    s.kernel = getattr(kernels, kernel_name)(dim=dim)
    s.dim = dim
    s.ev = jit.compiled_evaluator(s.arrays, groups, s.kernel, dim)
    s.nnps_cache = {}
    return s


def get_nnps(s, name):
    from pysph.base import nnps as N
    cls = getattr(N, name)
    kw = dict(dim=s.dim, particles=s.arrays,
              radius_scale=s.kernel.radius_scale, cache=False)
    nn = cls(**kw)
    return nn


def run(s, data, kernel_name):
    EQUATIONS, DENSITY = s.EQUATIONS, s.DENSITY
    import numpy as np
    from vlib import jit
    labels = []
    fails = []
    narr = len(s.names)
    labels.append('two_arrays' if narr >= 2 else 'one_array')
    specs = specs_from(data, s.lay, s.names, s.dim)
    jit.load_data(s.arrays, specs)
    nn = get_nnps(s, data['nnps'])
    s.ev.nnps = nn
    s.ev.func_eval.set_nnps(nn)
    nn.update()
    k = data['eq'] % (len(EQUATIONS) + len(DENSITY))
    ACTIVE[0] = k
    for pa in s.arrays:
        for p in ('au', 'av', 'aw', 'auhat', 'avhat', 'awhat'):
            pa.get_carray(p).get_npy_array()[:] = 0.0
    try:
        s.ev.evaluate(0.0, 0.01)
    except Exception as ex:
        return [Failure('evaluate', 'exception', repr(ex))], labels, False
    hs = np.concatenate([pa.h for pa in s.arrays])
    varh = len(set(hs.tolist())) > 1
    if varh:
        labels.append('variable_h')
    if any(min(a['p']) < 0 < max(a['p']) for a in data['arrays']):
        labels.append('mixed_sign_pressure')
    if k >= len(EQUATIONS):
        mod, name = DENSITY[k - len(EQUATIONS)]
        labels.append('density_checked')
        for pa in s.arrays:
            rho = pa.rho
            if not (np.all(np.isfinite(rho)) and np.all(rho > 0)):
                fails.append(Failure(
                    name, 'density_not_positive',
                    '%s.%s: rho=%r on array %s' % (mod, name, rho.min(),
                                                   pa.name),
                    dict(kernel=kernel_name)))
                break
        return fails, labels, True
    mod, name, kw, central, acc = EQUATIONS[k]
    kl = dict(eq=name, kernel=kernel_name)
    P = np.zeros(3)
    S = 0.0
    Lm = np.zeros(3)
    SL = 0.0
    for pa in s.arrays:
        m = pa.m
        a = np.stack([pa.get(acc[0]), pa.get(acc[1]), pa.get(acc[2])],
                     axis=1)
        if name == 'MomentumEquationPressureGradient':
            a = a + np.stack([pa.auhat, pa.avhat, pa.awhat], axis=1)
        if not np.all(np.isfinite(a)):
            # coincident particles may give 0/0 in some formulations: the
            # statement is about rounding, count and leave
            return fails, labels + ['nonfinite'], False
        x = np.stack([pa.x, pa.y, pa.z], axis=1)
        P += (m[:, None] * a).sum(axis=0)
        an = np.sqrt((a * a).sum(axis=1))
        S += float((m * an).sum())
        Lm += (m[:, None] * np.cross(x, a)).sum(axis=0)
        SL += float((m * np.sqrt((x * x).sum(axis=1)) * an).sum())
    if S > 0 and np.abs(P).max() > 1e-12 * S:
        fails.append(Failure(
            name, 'linear_momentum',
            '%s with %s/%s dim %d: |sum m a| = %.3g, sum m|a| = %.3g' % (
                name, kernel_name, data['nnps'], s.dim, np.abs(P).max(), S),
            kl))
    if central and s.dim >= 2 and SL > 0:
        labels.append('angular_checked')
        if np.abs(Lm).max() > 1e-12 * SL:
            fails.append(Failure(
                name, 'angular_momentum',
                '%s with %s/%s dim %d: |sum m x cross a| = %.3g, scale %.3g'
                % (name, kernel_name, data['nnps'], s.dim,
                   np.abs(Lm).max(), SL), kl))
    nt = S > 0 and varh
    return fails, labels, nt


def plan(ctx):
    seedv = ctx['seed']
    shards = []
    if ctx['tier'] == 'quick':
        combos = []
        for i in range(8):
            kern = KERNELS[(i + seedv) % len(KERNELS)]
            dim = [2, 3, 1, 2][(i + seedv) % 4]
            if kern.startswith('Wendland') and dim == 1:
                dim = 2
            combos.append((kern, dim, 1 + (i % 2)))
        n = 60
    else:
        combos = [(k, d, na) for k in KERNELS for d in (1, 2, 3)
                  for na in (1, 2)
                  if not (k.startswith('Wendland') and d == 1)]
        n = 1500
    for i, (kern, dim, na) in enumerate(combos):
        shards.append(dict(name='sys-%02d-%s-%dd-%da' % (i, kern, dim, na),
                           kernel=kern, dim=dim, narr=na, n=n,
                           variant=(i + seedv) % 3))
    return shards


def run_shard(spec, ctx):
    stats = Stats()
    holder = {}
    stats.extra['jit_compiles'] = 0

    def execute(data):
        ctx.journal(dict(kernel=spec['kernel'], dim=spec['dim'],
                         narr=spec['narr'], variant=spec['variant'],
                         data=data))
        if 's' not in holder:
            holder['s'] = setup(spec['kernel'], spec['dim'], spec['narr'],
                                data, spec['variant'])
            stats.extra['jit_compiles'] += 1
        fails, labels, nt = run(holder['s'], data, spec['kernel'])
        return Outcome(fails, sorted(set(labels)), nt)
    search(data_strategy(spec['narr'], spec['dim']), execute,
           derive_seed(ctx.seed, 'C09', spec['name']), spec['n'], stats,
           shrink=True)
    for f in stats.failures:
        f['case'] = dict(kernel=spec['kernel'], dim=spec['dim'],
                         narr=spec['narr'], variant=spec['variant'],
                         data=f['case'])
    stats.nontrivial = set(case_hash([spec['name'], h])
                           for h in stats.nontrivial)
    stats.samples = [dict(kernel=spec['kernel'], dim=spec['dim'], data=s)
                     for s in stats.samples[:1]]
    return stats.result()


def run_case(case, component, ctx):
    s = setup(case['kernel'], case['dim'], case['narr'], case['data'],
              case.get('variant', 0))
    fails, _, _ = run(s, case['data'], case['kernel'])
    return [f.as_dict(case) for f in fails]
