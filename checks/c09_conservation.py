"""C09 - pair-symmetric momentum equations conserve linear/angular momentum.

Closed systems of 1-3 mutually interacting particle arrays (every array is a
destination with all arrays as sources) are evaluated with the compiled
shipped equations; the oracle is the conservation law itself:
|sum m a| <= 1e-12 * sum m|a|, and for central-force terms the same for
sum m x cross a.  One JIT compile per shard (kernel, dim, number of arrays,
the entries of the table assigned to the shard, serial or OpenMP); the
equation under test is selected per evaluation through group conditions,
the neighbour algorithm through set_nnps (no recompile).

Which sums are asserted for which equation is written in the EQUATIONS table
below (one entry per class and constructor-option set):

* linear   sum over ALL arrays of m*(acc triple) = 0, for every acceleration
           triple listed in `acc` (au/av/aw, the transport accelerations
           auhat/avhat/awhat, PCISPH's aup/avp/awp, XSPH's ax/ay/az minus
           the post-loop velocity);
* angular  sum m x cross a = 0 in addition when `central` (pair force along
           r_ab);
* energy   sum m (ae + v.a) = 0 when `energy` (the gas-dynamics classes that
           write the thermal-energy rate in the same loop: the
           thermokinetic pair terms cancel exactly);
* volume   sum (m/rho) arho = 0 for the diffusive delta-SPH continuity term.
"""
from hypothesis import strategies as st

from vlib.hyp import (Failure, Outcome, Stats, search, derive_seed, canon,
                      case_hash)

RULE = ('system = 1-3 mutually interacting arrays (6-24 particles each, '
        'random positions incl. coincident pairs inside an array and across '
        'arrays, masses, densities, pressures of one or both signs, sound '
        'speeds, velocities, per-particle h within a factor 2 or 4, a second '
        'array with a different mass/h scale), dim 1-3, kernel, neighbour '
        'algorithm with and without neighbour cache, serial or OpenMP '
        'evaluator, open or periodic box, one equation of the pair-symmetric '
        'table active with one of its constructor-option sets. Non-trivial = '
        'sum m|a| > 0 and >= 1 interacting pair with different h; distinct '
        'by (equation, kernel, dim, nnps, data) hash.')
ASSUMPTIONS = [
    'the table of pair-symmetric equations is fixed below with the reason '
    'each qualifies and the sums asserted for it; body forces off; equal '
    'equation constants on all arrays',
    'tolerance 1e-12 relative to sum m|a| (measured <= 7e-17 on the '
    'unchanged tree for the exactly antisymmetric classes, <= 1e-15 for '
    'those whose pair coefficient is symmetric only up to rounding)',
    'neighbour algorithms restricted to those C01 shows exact on generic '
    'clouds (StratifiedSFCNNPS only for one array: open C01 finding); '
    'thread interleavings not controlled',
    'periodic boxes: linear momentum only (angular momentum is not '
    'conserved in a periodic box), box at least two cells wide',
    'energy/volume sums are consequences of the same pair symmetry and are '
    'asserted only for the classes marked so in the table',
]
ESSENTIAL_LABELS = {'all': ['two_arrays', 'one_array', 'angular_checked',
                            'density_checked', 'variable_h',
                            'mixed_sign_pressure', 'three_arrays',
                            'energy_checked', 'cache_on', 'cache_off',
                            'h_ratio_ge_2', 'h_ratio_ge_4',
                            'arrays_differ_in_scale', 'coincident_in_array',
                            'coincident_across_arrays', 'periodic',
                            'openmp', 'fam:wcsph', 'fam:tvf', 'fam:edac',
                            'fam:gtvf', 'fam:gas', 'fam:solid', 'fam:isph',
                            'fam:surface', 'tensile_on', 'tensile_off',
                            'artificial_stress_on', 'artificial_stress_off']}
SHARD_TIMEOUT = {'quick': 1700, 'thorough': 8 * 3600}
TOL = 1e-12
A3 = ('au', 'av', 'aw')
AH = ('auhat', 'avhat', 'awhat')


def E(mod, name, kw=None, central=True, acc=(A3,), energy=False, prep=(),
      fam='wcsph', sub=None, scalar=None, combined=False, tag='', dt=0.01):
    return dict(mod='pysph.sph.' + mod, name=name, kw=kw or {}, dt=dt,
                central=central, acc=[tuple(a) for a in acc], energy=energy,
                prep=tuple(prep), fam=fam, sub=sub, scalar=scalar,
                combined=combined, tag=tag)


# Every Equation subclass under pysph.sph whose loop() adds to an
# acceleration was read and classified.  Listed: pair coefficient invariant
# under a<->b (times an antisymmetric gradient).  NOT pair symmetric, hence
# not listed (each named so that nothing is dropped silently):
#   wc.edac.MomentumEquationPressureGradient (au part subtracts the
#     destination's own pavg; its auhat part IS listed),
#   wc.gtvf.MomentumEquationPressureGradient auhat part and
#     isph.sisph.GTVFAcceleration (destination's p0/rho_a^2 only),
#   isph.isph/sisph.MomentumEquationPressureGradient (p_a - p_b form),
#   surface_tension.ShadlooViscosity (no mass factor: sum a = 0, not sum m a),
#   CSF/ShadlooYildiz surface forces, boundary, rigid-body, no-slip and
#   *Boundary/*Solid coupling classes (one-sided by design), BodyForce,
#   basic/TVF/GTVF ContinuityEquation (m_b v_ab.grad W is symmetric, no
#   conserved sum), EDACEquation, solid_mech.EnergyEquationWithStress,
#   crksph.EnergyEquation (needs the time-advanced velocities),
#   gas_dynamics.gsph.GSPHAcceleration (pair symmetric only up to the mirror
#     symmetry of the iterative Riemann solvers: that is C15),
#   swe.* (variational h terms, own property set).
EQUATIONS = [
    # ---- WCSPH family
    # p_a/rho_a^2 + p_b/rho_b^2 + Pi_ab(HIJ, RHOIJ, c_ab) (+ tensile R_a+R_b
    # f_ab^n) times grad W(HIJ): invariant under a<->b, along r_ab
    E('wc.basic', 'MomentumEquation',
      dict(c0=10.0, alpha=0.5, beta=0.5, tensile_correction=True),
      tag='tensile_on'),
    E('wc.basic', 'MomentumEquation',
      dict(c0=10.0, alpha=0.0, beta=0.0, tensile_correction=False),
      tag='tensile_off'),
    E('wc.basic', 'MomentumEquation',
      dict(c0=2.0, alpha=1.0, beta=0.0, tensile_correction=False),
      tag='tensile_off'),
    E('wc.basic', 'MomentumEquation',
      dict(c0=10.0, alpha=0.0, beta=1.0, tensile_correction=True),
      tag='tensile_on'),
    # -(p_a V_a^2 + p_b V_b^2)/m_a grad W(HIJ)
    E('wc.basic', 'PressureGradientUsingNumberDensity'),
    # -m_b Pi_ab grad W(HIJ), Pi_ab from RHOIJ, c_ab average, HIJ
    E('basic_equations', 'MonaghanArtificialViscosity',
      dict(alpha=1.0, beta=1.0)),
    E('basic_equations', 'MonaghanArtificialViscosity',
      dict(alpha=0.0, beta=2.0)),
    # alpha h_ab c0 rho0 pi_ab V_a V_b / m_a grad W
    E('wc.basic', 'MomentumEquationDeltaSPH',
      dict(rho0=1.0, c0=10.0, alpha=0.5)),
    # m_b 4 nu F_ab v_ab /((rho_a+rho_b)(r^2+eta h_ab^2)): along v_ab
    E('wc.viscosity', 'LaminarViscosity', dict(nu=0.1), central=False),
    E('wc.viscosity', 'LaminarViscosity', dict(nu=1.0, eta=0.25),
      central=False),
    E('wc.viscosity', 'MonaghanSignalViscosityFluids',
      dict(alpha=0.5, h=0.4)),
    # -m_b K mu_a mu_b/(rho_a rho_b (mu_a+mu_b)) v_ab.r_ab/(r^2+eps) grad W
    # (mu from the particle's own h, c, rho): along r_ab
    E('wc.viscosity', 'ClearyArtificialViscosity', dict(alpha=0.5)),
    # 2(d+2) nu rho0 pi_ab V_a V_b / m_a grad W
    E('wc.viscosity', 'LaminarViscosityDeltaSPH', dict(rho0=1.0, nu=0.1)),
    # -2 m_b p*/(rho_a rho_b) grad W, p* of the acoustic Riemann problem
    # along r_ab: the mirrored problem has the same p*
    E('wc.parshikov', 'Momentum'),
    E('wc.zhanghuadams', 'MomentumFluid', dict(c0=10.0)),
    # m_b 4 nu x_ab.grad W v_ab/((rho_a+rho_b)(r^2+eps)).  Its post_loop
    # advances u by dt*au (predictor), so with several destination arrays
    # the later ones would see moved velocities: evaluated with dt = 0
    E('wc.pcisph', 'MomentumEquationViscosity', dict(nu=0.1), central=False,
      dt=0.0),
    # "standard WCSPH pressure gradient" into aup/avp/awp.  Known defect on
    # the unchanged tree: the loop reads s_m[d_idx]; the input class that
    # shows it (masses not all equal, or arrays of different length) is
    # excluded by construction for this class only (prep 'pcisph_mass').
    E('wc.pcisph', 'MomentumEquationPressureGradient',
      dict(rho0=1.0, tolerance=1e-3, debug=False),
      acc=(('aup', 'avp', 'awp'),), prep=('pcisph_mass',)),
    # -(V_a V_b/m_a)(p_a+p_b+Q_a+Q_b) grad W (eq. 64 of the CRKSPH paper)
    E('wc.crksph', 'MomentumEquation', {}, prep=('crksph_h',)),
    # 2 nu m_b/rho_ab x_ab.grad W v_ab/(r^2+eps)
    E('iisph', 'ViscosityAcceleration', dict(nu=0.1), central=False,
      fam='isph'),
    E('iisph', 'PressureForce', fam='isph'),
    E('isph.isph', 'MomentumEquationPressureGradientSymmetric', fam='isph'),
    E('isph.sisph', 'MomentumEquationPressureGradientSymmetric', fam='isph'),
    # symmetric branch (source density not below 0.98 rho0; the mirror
    # branch is one-sided by design)
    E('isph.isph', 'MomentumEquationPressureGradientSymmetricMirror',
      prep=('rho0_low',), fam='isph'),
    # ---- TVF
    # (V_a^2+V_b^2)/m_a * p_ab(density weighted) grad W(HIJ); pb term -> auhat
    E('wc.transport_velocity', 'MomentumEquationPressureGradient',
      dict(pb=2.0), acc=(A3, AH), combined=True, fam='tvf'),
    # (V_a^2+V_b^2)/m_a * 2 eta_a eta_b/(eta_a+eta_b) F_ab v_ab : symmetric,
    # not central
    E('wc.transport_velocity', 'MomentumEquationViscosity', dict(nu=0.1),
      central=False, fam='tvf'),
    # -m_b Pi_ab grad W with HIJ, RHOIJ
    E('wc.transport_velocity', 'MomentumEquationArtificialViscosity',
      dict(c0=10.0, alpha=0.3), fam='tvf'),
    E('wc.transport_velocity', 'MomentumEquationArtificialStress', {},
      central=False, fam='tvf'),
    # ---- EDAC
    # number-density form -(V_a^2+V_b^2)/m_a pbar_ab grad W(HIJ)
    E('wc.edac', 'MomentumEquation', dict(c0=10.0), fam='edac'),
    # only the background-pressure part -pb (V_a^2+V_b^2)/m_a grad W
    E('wc.edac', 'MomentumEquationPressureGradient', dict(pb=2.0),
      acc=(AH,), fam='edac'),
    # ---- GTVF
    # -m_b (p_a/rho_a^2 + p_b/rho_b^2) grad W into au (auhat: one-sided)
    E('wc.gtvf', 'MomentumEquationPressureGradient', dict(pref=4.0),
      fam='gtvf'),
    E('wc.gtvf', 'MomentumEquationViscosity', dict(nu=0.1), central=False,
      fam='gtvf'),
    # m_b (A_a/rho_a^2 + A_b/rho_b^2) . grad W
    E('wc.gtvf', 'MomentumEquationArtificialStress', {}, central=False,
      fam='gtvf'),
    E('wc.gtvf', 'MomentumEquationArtificialStressSolid', {}, central=False,
      fam='gtvf'),
    # ---- gas dynamics
    E('gas_dynamics.basic', 'Monaghan92Accelerations',
      dict(alpha=1.0, beta=2.0), energy=True, fam='gas'),
    E('gas_dynamics.basic', 'ADKEAccelerations',
      dict(alpha=1.0, beta=1.0, g1=0.2, g2=0.4, k=1.0, eps=0.5),
      energy=True, fam='gas'),
    # -m_b (P_a Omega_a grad W(h_a) + P_b Omega_b grad W(h_b)) + signal
    # viscosity along r_ab
    E('gas_dynamics.basic', 'MPMAccelerations', dict(beta=2.0), energy=True,
      fam='gas'),
    E('gas_dynamics.basic', 'MPMAccelerations',
      dict(beta=1.0, update_alpha1=True, update_alpha2=True), energy=True,
      fam='gas'),
    # grad-h forms: m_b (P_a f_ab grad W(h_a) + P_b f_ba grad W(h_b)) and
    # viscosity times the antisymmetric grad W(h_a) + grad W(h_b)
    E('gas_dynamics.tsph', 'MomentumAndEnergy', dict(fkern=1.0, beta=2.0),
      energy=True, fam='gas'),
    E('gas_dynamics.psph', 'MomentumAndEnergy',
      dict(fkern=1.0, gamma=1.4), energy=True, prep=('positive_p',),
      fam='gas'),
    # MAGMA2: (P_a+q_a)/rho_a^2 G_a + (P_b+q_b)/rho_b^2 G_b with the
    # reconstructed, pair-antisymmetric velocity jump
    E('gas_dynamics.magma2', 'MomentumAndEnergyStdGrad', dict(fkern=1.0),
      energy=True, prep=('positive_p', 'magma2_limiter'), fam='gas'),
    E('gas_dynamics.magma2', 'MomentumAndEnergyMI1', dict(fkern=1.0),
      central=False, energy=True, prep=('positive_p', 'magma2_limiter'),
      fam='gas'),
    E('gas_dynamics.magma2', 'MomentumAndEnergyMI2', dict(fkern=1.0),
      central=False, energy=True, prep=('positive_p', 'magma2_limiter'),
      fam='gas'),
    # ---- solid mechanics
    # m_b (sigma_a/rho_a^2 + sigma_b/rho_b^2 + (R_a+R_b) f^n) . grad W; the
    # constants wdeltap and n must be equal on all arrays
    E('solid_mech.basic', 'MomentumEquationWithStress', {}, central=False,
      prep=('stress_consts',), fam='solid'),
    # ---- surface-tension module (Hu-Adams / Adami / Morris forms)
    E('surface_tension', 'SurfaceForceAdami', {}, central=False,
      fam='surface'),
    E('surface_tension', 'MomentumEquationViscosityAdami', {}, central=False,
      fam='surface'),
    E('surface_tension', 'MomentumEquationPressureGradientHuAdams',
      fam='surface'),
    E('surface_tension', 'MomentumEquationPressureGradientAdami',
      fam='surface'),
    E('surface_tension', 'MomentumEquationViscosityMorris', dict(eta=0.1),
      central=False, fam='surface'),
    E('surface_tension', 'MomentumEquationPressureGradientMorris',
      fam='surface'),
    # ---- other pair-antisymmetric sums
    # XSPH: ax - u = -eps sum m_b v_ab W_ab / rho_ab (Monaghan 1992: XSPH
    # conserves linear momentum); not a force: no angular statement
    E('basic_equations', 'XSPHCorrection', dict(eps=0.5), central=False,
      acc=(('ax', 'ay', 'az'),), sub=('u', 'v', 'w'), fam='other'),
    # diffusive delta-SPH term: psi_ab symmetric, V_a V_b grad W
    # antisymmetric -> sum V_a arho_a = 0
    E('wc.basic', 'ContinuityEquationDeltaSPH', dict(c0=10.0, delta=0.1),
      central=False, acc=(), scalar=('arho', 'volume'), fam='other'),
]
# DictBoxSortNNPS has no compiled query (it serves the parallel manager
# only) and StratifiedSFCNNPS has an open C01 finding for several arrays
NNPS = ['LinkedListNNPS', 'BoxSortNNPS', 'SpatialHashNNPS',
        'ExtendedSpatialHashNNPS', 'StratifiedHashNNPS', 'ZOrderNNPS',
        'ExtendedZOrderNNPS', 'CellIndexingNNPS', 'OctreeNNPS',
        'CompressedOctreeNNPS']
NNPS_ONE_ARRAY = NNPS + ['StratifiedSFCNNPS']
KERNELS = ['CubicSpline', 'QuinticSpline', 'WendlandQuintic', 'Gaussian',
           'WendlandQuinticC4', 'WendlandQuinticC6', 'SuperGaussian']
# W = exp(-q^2) (d/2 + 1 - q^2) is negative for q^2 > d/2 + 1
NEGATIVE_LOBES = ('SuperGaussian',)
KERNELS_1D = ['WendlandQuinticC2_1D', 'WendlandQuinticC4_1D',
              'WendlandQuinticC6_1D']
# (module, class, property that must be positive)
DENSITY = [('pysph.sph.basic_equations', 'SummationDensity', 'rho'),
           ('pysph.sph.wc.transport_velocity', 'SummationDensity', 'rho'),
           ('pysph.sph.gas_dynamics.basic', 'SummationDensity', 'rho'),
           ('pysph.sph.iisph', 'SummationDensity', 'rho'),
           ('pysph.sph.isph.sisph', 'SummationDensity', 'rho'),
           ('pysph.sph.gas_dynamics.tsph', 'SummationDensity', 'rho'),
           ('pysph.sph.swe.basic', 'SummationDensity', 'summation_rho'),
           ('pysph.sph.surface_tension', 'SummationDensitySourceMass',
            'rho')]
# (SummationDensityADKE resets h to h0 in initialize: it needs a neighbour
# update inside its group and cannot be evaluated on a prepared search)
ACTIVE = [0]
ZEROED = ('au', 'av', 'aw', 'auhat', 'avhat', 'awhat', 'aup', 'avp', 'awp',
          'ax', 'ay', 'az', 'ae', 'arho')
# auxiliary properties that may take either sign (tensors, gradients,
# velocities); everything else stays positive (divisors, square roots)
SIGNED = ('s00', 's01', 's02', 's11', 's12', 's22', 'r00', 'r01', 'r02',
          'r11', 'r12', 'r22', 'pi00', 'pi01', 'pi02', 'pi10', 'pi11',
          'pi12', 'pi20', 'pi21', 'pi22', 'sigma', 'uhat', 'vhat', 'what',
          'gradrho', 'de', 'dde', 'ddv', 'grhox', 'grhoy', 'grhoz', 'div')


# entries per generated module: its size grows with entries x arrays^2
CAPACITY = {1: 64, 2: 20, 3: 9}


def select(variant=0, eqs=None, dens=None):
    """Two classes with the same name cannot live in one evaluator (the
    generated wrappers are keyed by class name).  New shards carry explicit
    index lists (see assign()); cases recorded before that carry a variant
    number: same-named classes distributed over variants."""
    if eqs is not None:
        return ([EQUATIONS[i] for i in eqs],
                [DENSITY[j] for j in (dens or [])])

    def pick(table, mod_of, name_of):
        names = {}
        for e in table:
            mods = names.setdefault(name_of(e), [])
            if mod_of(e) not in mods:
                mods.append(mod_of(e))
        return [e for e in table
                if mod_of(e) == names[name_of(e)][
                    variant % len(names[name_of(e)])]]
    eqs = pick(EQUATIONS, lambda e: e['mod'], lambda e: e['name'])
    dens = pick(DENSITY[:3], lambda e: e[0], lambda e: e[1])
    return eqs, dens


def assign(narrs, seedv):
    """Entries of the table for each shard (narrs: number of arrays of each
    shard): per number of arrays a queue of table entries rotates over the
    shards, a shard takes the first CAPACITY entries without a class-name
    clash, the skipped ones come first in the next shard.  -> list of
    (equation indices, density indices)."""
    from collections import deque
    queues = {}
    out = []
    sd = [j for j, d in enumerate(DENSITY) if d[1] == 'SummationDensity']
    other = [j for j, d in enumerate(DENSITY) if d[1] != 'SummationDensity']
    for i, na in enumerate(narrs):
        if na not in queues:
            q = deque(range(len(EQUATIONS)))
            q.rotate(-(7 * seedv) % len(EQUATIONS))
            queues[na] = q
        q = queues[na]
        cap = CAPACITY.get(na, 9)
        taken, names, skipped = [], {}, []
        while q and len(taken) < cap:
            k = q.popleft()
            e = EQUATIONS[k]
            if names.setdefault(e['name'], e['mod']) != e['mod'] or \
                    k in taken:
                skipped.append(k)
                continue
            taken.append(k)
        q.extendleft(reversed(skipped))
        q.extend(taken)
        out.append((sorted(taken), [sd[(i + seedv) % len(sd)]] + other))
    return out


def eq_class(mod, name):
    import importlib
    return getattr(importlib.import_module(mod), name)


LAYOUT_DONOR = {'MomentumAndEnergyMI1': 'MomentumAndEnergyStdGrad',
                'MomentumAndEnergyMI2': 'MomentumAndEnergyStdGrad'}


def layout_union(dim, kernel, EQUATIONS, DENSITY):
    from checks.c02_equations import infer_layout
    lay = {}

    def merge(l):
        for k, v in l.items():
            if k not in lay:
                lay[k] = v
            elif v[0] == 'prop' and lay[k][0] != 'prop':
                # the same name is a per-particle property for one class
                # and a constant (index 0) for another: a property serves
                # both (its first entries are made equal on all arrays
                # where the constant meaning is needed)
                lay[k] = ('prop', max(1, v[1]))
            elif v[0] == lay[k][0] and v[1] > lay[k][1]:
                lay[k] = v
    seen = set()
    pending = []
    for e in EQUATIONS:
        if (e['mod'], e['name']) in seen:
            continue
        seen.add((e['mod'], e['name']))
        l, why = infer_layout(eq_class(e['mod'], e['name']), dim, kernel)
        if l is None:
            # e.g. MAGMA2 MI1: its loop() is not executable as Python
            # (declare() of 3 matrices unpacked into 2 names)
            pending.append((e, why))
            continue
        merge(l)
    for mod, name, prop in DENSITY:
        l, why = infer_layout(eq_class(mod, name), dim, kernel)
        if l:
            merge(l)
    from vlib import eqcatalog as C
    if pending:
        # MAGMA2 correction matrix: indexed dim*dim*idx + row*dim + col.
        # The stride must be the one the loops index with, or the periodic
        # images (copied per stride block) would carry other entries.
        lay.setdefault('cm', ('prop', dim * dim))
    for e, why in pending:
        # laid out by the class that uses the same names and is executable
        if e['name'] in LAYOUT_DONOR:
            l, _ = infer_layout(eq_class(e['mod'], LAYOUT_DONOR[e['name']]),
                                dim, kernel)
            if l:
                merge(l)
        obj, _ = C.instantiate(eq_class(e['mod'], e['name']), 'dd', ['dd'],
                               dim)
        d, sr = C.array_names(obj) if obj is not None else (set(), set())
        missing = sorted(k for k in d | sr if k not in lay and
                         k not in ('x', 'y', 'z', 'h', 'm', 'rho', 'p', 'cs',
                                   'V', 'u', 'v', 'w', 'e') + ZEROED)
        if obj is None or missing:
            raise RuntimeError('layout of %s: %s (names without a layout: '
                               '%s)' % (e['name'], why, missing))
    for k in ZEROED + ('V', 'p', 'cs', 'e'):
        lay.setdefault(k, ('prop', 1))
    # names in a hook signature that the dry run did not touch
    for mod, name in [(e['mod'], e['name']) for e in EQUATIONS] + \
            [(d[0], d[1]) for d in DENSITY]:
        obj, _ = C.instantiate(eq_class(mod, name), 'dd', ['dd'], dim)
        if obj is not None:
            d, sr = C.array_names(obj)
            for k in d | sr:
                lay.setdefault(k, ('prop', 1))
    return lay


H_MULT = [0.7, 1.0, 1.0, 1.4]
H_MULT_WIDE = [0.5, 0.7, 1.0, 1.0, 1.4, 2.0]


@st.composite
def data_strategy(draw, narr, dim, rs=2.0, neq=None):
    import math
    arrays = []
    periodic = draw(st.sampled_from([0, 0, 0, 1]))
    h0 = draw(st.sampled_from([0.3, 0.4, 0.55]))
    wide = draw(st.booleans())
    ns, hss, scales = [], [], []
    for i in range(narr):
        n = draw(st.integers(6, 24))
        # a second/third array on another mass and smoothing-length scale
        hsc, msc = (1.0, 1.0)
        if i > 0:
            hsc, msc = draw(st.sampled_from([(1.0, 1.0), (2.0, 4.0),
                                             (0.5, 0.125), (1.0, 8.0)]))
        hs = [h0 * hsc * draw(st.sampled_from(H_MULT_WIDE if wide else
                                              H_MULT))
              for _ in range(n)]
        ns.append(n)
        hss.append(hs)
        scales.append(msc)
    if periodic:
        # by construction at least two cells wide; a power of two keeps
        # the image positions x +- L exact
        hmax = max(max(hs) for hs in hss)
        L = 2.0 ** math.ceil(math.log2(2.0 * rs * hmax * (1 + 1e-9)))
    else:
        L = draw(st.sampled_from([1.0, 1.5, 2.0]))
    for i in range(narr):
        n, hs, msc = ns[i], hss[i], scales[i]
        coords = []
        for a in range(3):
            if a < dim:
                c = [draw(st.integers(0, 256)) / 256.0 * L for _ in range(n)]
            else:
                c = [0.0] * n
            coords.append(c)
        # a few coincident pairs
        if n > 4 and draw(st.booleans()):
            for a in range(3):
                coords[a][1] = coords[a][0]
        # ... and across arrays (different arrays may overlap)
        if i > 0 and draw(st.booleans()):
            for a in range(3):
                coords[a][2] = arrays[0][('x', 'y', 'z')[a]][0]
        pos = lambda: [draw(st.integers(8, 32)) / 16.0 for _ in range(n)]  # noqa
        gen = lambda: [draw(st.integers(-16, 16)) / 16.0 for _ in range(n)]  # noqa
        # pressures of both signs occur in weakly compressible flows
        # (tensile regions): half of the systems have mixed-sign pressures
        pk = draw(st.sampled_from(['positive', 'mixed']))
        arrays.append(dict(n=n, x=coords[0], y=coords[1], z=coords[2], h=hs,
                           m=[msc * v for v in pos()], rho=pos(),
                           p=pos() if pk == 'positive' else
                           [2.0 * v for v in gen()], cs=pos(), V=pos(),
                           u=gen(), v=gen(), w=gen(),
                           tab=[draw(st.integers(8, 32)) / 16.0
                                for _ in range(8)]))
    return dict(arrays=arrays,
                nnps=draw(st.sampled_from(NNPS_ONE_ARRAY if narr == 1
                                          else NNPS)),
                eq=draw(st.sampled_from(list(range(
                    neq or (len(EQUATIONS) + len(DENSITY)))))),
                cache=draw(st.booleans()), cv=draw(st.integers(0, 3)),
                periodic=periodic, L=L)


def name_hash(k):
    return sum((i + 1) * ord(c) for i, c in enumerate(k))


# ------------------------------------------------------------- state set-up
def prep_data(data, entry, labels):
    """Pure function of the case: the state an equation needs (or the input
    class excluded for it, counted by a label).  Returns (data, forced)
    where forced = {prop: value of the first entries on every array}."""
    import copy
    forced = {}
    if entry is None or not entry['prep']:
        return data, forced
    data = copy.deepcopy(data)
    import os
    # development aid: show the two known defects instead of excluding them
    # the three defects behind these preparations are repaired in /repo
    # (replays/C09/*.json); nothing is excluded any more
    noexcl = True
    for p in entry['prep']:
        if noexcl and p in ('pcisph_mass', 'crksph_h'):
            continue
        if p == 'magma2_limiter':
            continue    # decided on the laid-out state, see run()
        if p == 'positive_p':
            # gas-dynamics classes divide by p or p_a + p_b
            for a in data['arrays']:
                a['p'] = [abs(v) + 0.25 for v in a['p']]
        elif p == 'rho0_low':
            for a in data['arrays']:
                a['rho0'] = [0.9 * v for v in a['rho']]
        elif p == 'stress_consts':
            cv = data.get('cv', 0)
            forced['wdeltap'] = -1.0 if cv & 1 else 1.25
            forced['n'] = 4.0 if cv & 2 else 1.0
            labels.append('artificial_stress_off' if cv & 1 else
                          'artificial_stress_on')
        elif p == 'pcisph_mass':
            # KNOWN DEFECT excluded by construction (see EQUATIONS): the
            # loop reads s_m[d_idx]
            n = min(a['n'] for a in data['arrays'])
            m0 = data['arrays'][0]['m'][0]
            changed = False
            for a in data['arrays']:
                if a['n'] != n or any(v != m0 for v in a['m']):
                    changed = True
                for k, v in list(a.items()):
                    if isinstance(v, list) and k != 'tab':
                        a[k] = v[:n]
                a['n'] = n
                a['m'] = [m0] * n
            if changed:
                labels.append('excluded:pcisph_source_mass_at_dest_index')
        elif p == 'crksph_h':
            # KNOWN DEFECT excluded by construction (see EQUATIONS): mu_j is
            # computed with the destination's h
            h0 = data['arrays'][0]['h'][0]
            changed = False
            for a in data['arrays']:
                if any(v != h0 for v in a['h']):
                    changed = True
                a['h'] = [h0] * a['n']
            if changed:
                labels.append('excluded:crksph_muj_uses_hi')
    return data, forced


def specs_from(data, lay, names, dim, forced=None):
    from vlib import eqcatalog as C
    out = []
    forced = forced or {}
    for nm, a in zip(names, data['arrays']):
        n = a['n']
        props = {}
        for k in ('x', 'y', 'z', 'h', 'm', 'rho', 'p', 'cs', 'V', 'u', 'v',
                  'w'):
            props[k] = dict(data=a[k])
        consts = {}
        for k, (kind, size) in sorted(lay.items()):
            if k in props or k in ('tag', 'gid', 'pid'):
                continue
            tp = C.INT_PROPS.get(k, 'double')
            cnt = n * size if kind == 'prop' else size
            if tp != 'double':
                vals = [0] * cnt
            elif isinstance(a.get(k), list) and k != 'tab':
                vals = list(a[k])
            else:
                # different names (s01/s02, uhat/vhat, ...) get different
                # values, a third of the entries of signed quantities are
                # negative
                hk = name_hash(k)
                vals = [a['tab'][(j * 3 + hk) % 8] *
                        (1.0 + 0.125 * ((j + hk) % 3)) for j in range(cnt)]
                if k in SIGNED:
                    vals = [-v if (j * 5 + hk) % 3 == 0 else v
                            for j, v in enumerate(vals)]
            if kind == 'prop':
                if k in forced:
                    vals = [forced[k]] * len(vals)
                props[k] = dict(type=tp, stride=size, data=vals)
            else:
                # constants must be equal on all arrays (closed system)
                cd = [1.0 + 0.25 * j for j in range(size)]
                if k in forced:
                    cd = [forced[k]] * size
                consts[k] = dict(data=cd)
        out.append(dict(name=nm, n=n, nghost=0, props=props,
                        constants=consts))
    return out


class Sys(object):
    pass


def make_kwargs(cls, kw, dim):
    import inspect
    sig = inspect.signature(cls.__init__).parameters
    kk = dict(kw)
    if 'dim' in sig:
        kk['dim'] = dim
    return kk


def setup(kernel_name, dim, narr, first, variant=0, openmp=False, eqs=None,
          dens=None):
    EQUATIONS, DENSITY = select(variant, eqs, dens)
    from pysph.base import kernels
    from pysph.sph.equation import Group
    from vlib import jit
    if openmp:
        from compyle.config import get_config
        get_config().use_openmp = True
    s = Sys()
    s.names = ['a%d' % i for i in range(narr)]
    s.lay = layout_union(dim, kernel_name, EQUATIONS, DENSITY)
    s.EQUATIONS, s.DENSITY = EQUATIONS, DENSITY
    s.arrays = jit.make_arrays(specs_from(first, s.lay, s.names, dim))
    groups = []
    for k, e in enumerate(EQUATIONS):
        cls = eq_class(e['mod'], e['name'])
        kk = make_kwargs(cls, e['kw'], dim)
        es = [cls(dest=d, sources=list(s.names), **kk) for d in s.names]
        groups.append(Group(equations=es,
                            condition=lambda t, dt, k=k: ACTIVE[0] == k))
    for j, (mod, name, prop) in enumerate(DENSITY):
        cls = eq_class(mod, name)
        kk = make_kwargs(cls, {}, dim)
        es = [cls(dest=d, sources=list(s.names), **kk) for d in s.names]
        k = len(EQUATIONS) + j
        groups.append(Group(equations=es,
                            condition=lambda t, dt, k=k: ACTIVE[0] == k))
    s.kernel = getattr(kernels, kernel_name)(dim=dim)
    s.dim = dim
    s.openmp = openmp
    s.ev = jit.compiled_evaluator(s.arrays, groups, s.kernel, dim)
    return s


def magma2_limiter_singular(specs, dim, shifts):
    """MAGMA2's slope limiter divides the destination's by the source's
    projected velocity gradient (A = num/den, phi = 4A/(1+A)^2).  When
    exactly one of the two is exactly zero the pair gets phi(inf) = nan -> 1
    one way and phi(0) = 0 the other way (KNOWN DEFECT of the unchanged
    tree, excluded and counted).  True when some pair of particles (or of a
    particle and a periodic image) is of that kind; the sums are formed in
    the order of the loop, so the zeros are the same zeros."""
    import numpy as np
    dd = dim * dim
    X, DV = [], []
    for sp in specs:
        n = sp['n']
        X.append(np.array([sp['props'][c]['data'] for c in
                           ('x', 'y', 'z')[:dim]], dtype=float).T)
        flat = np.asarray(sp['props']['dv']['data'], dtype=float)
        DV.append(np.array([flat[dd * i:dd * i + dd] for i in range(n)]))
    X = np.concatenate(X)
    DV = np.concatenate(DV)
    for sh in shifts:
        Xd = X[:, None, :] - (X[None, :, :] + np.asarray(sh)[None, None, :])
        num = np.zeros(Xd.shape[:2])
        den = np.zeros(Xd.shape[:2])
        for r in range(dim):
            for c in range(dim):
                num = num + DV[:, None, r * dim + c] * Xd[..., r] * Xd[..., c]
                den = den + DV[None, :, r * dim + c] * Xd[..., r] * Xd[..., c]
        apart = (Xd != 0).any(axis=2)
        if np.any(apart & ((num == 0) != (den == 0))):
            return True
    return False


def periodic_ok(s, data):
    """A periodic box is generated only when it is at least two cells wide
    (narrower boxes need several image layers, which the domain manager does
    not create)."""
    hmax = max(max(a['h']) for a in data['arrays'])
    return data.get('periodic') and \
        2.0 * s.kernel.radius_scale * hmax < data.get('L', 0.0)


def get_nnps(s, name, cache=False, domain=None):
    from pysph.base import nnps as N
    cls = getattr(N, name)
    kw = dict(dim=s.dim, particles=s.arrays,
              radius_scale=s.kernel.radius_scale, cache=cache)
    if domain is not None:
        kw['domain'] = domain
    nn = cls(**kw)
    return nn


def run(s, data, kernel_name):
    EQUATIONS, DENSITY = s.EQUATIONS, s.DENSITY
    import os
    import numpy as np
    from vlib import jit
    labels = []
    fails = []
    narr = len(s.names)
    labels.append({1: 'one_array', 2: 'two_arrays'}.get(narr,
                                                        'three_arrays'))
    if narr >= 3:
        labels.append('two_arrays')
    k = data['eq'] % (len(EQUATIONS) + len(DENSITY))
    entry = EQUATIONS[k] if k < len(EQUATIONS) else None
    data, forced = prep_data(data, entry, labels)
    specs = specs_from(data, s.lay, s.names, s.dim, forced)
    jit.load_data(s.arrays, specs)
    periodic = bool(periodic_ok(s, data))
    domain = None
    if periodic:
        from pysph.base.nnps import DomainManager
        L = data['L']
        kw = dict(xmin=0.0, xmax=L, periodic_in_x=True)
        if s.dim >= 2:
            kw.update(ymin=0.0, ymax=L, periodic_in_y=True)
        if s.dim >= 3:
            kw.update(zmin=0.0, zmax=L, periodic_in_z=True)
        domain = DomainManager(**kw)
        labels.append('periodic')
    if entry is not None and 'magma2_limiter' in entry['prep']:
        import itertools
        shifts = [(0.0,) * s.dim]
        if periodic:
            shifts = list(itertools.product((0.0, data['L'], -data['L']),
                                            repeat=s.dim))
        if False and magma2_limiter_singular(specs, s.dim, shifts):
            return fails, labels + [
                'excluded:magma2_limiter_zero_denominator'], False
    cache = bool(data.get('cache', False))
    labels.append('cache_on' if cache else 'cache_off')
    if s.openmp:
        labels.append('openmp')
    try:
        nn = get_nnps(s, data['nnps'], cache, domain)
        s.ev.nnps = nn
        s.ev.func_eval.set_nnps(nn)
        nn.update()
    except Exception as ex:
        if 'too many cells' in repr(ex).lower() or \
                isinstance(ex, MemoryError):
            return fails, labels + ['nnps_capacity_rejection'], False
        return [Failure('nnps', 'exception', repr(ex),
                        dict(nnps=data['nnps']))], labels, False
    ACTIVE[0] = k
    for pa in s.arrays:
        for p in ZEROED:
            if p in pa.properties:
                pa.get_carray(p).get_npy_array()[:] = 0.0
    try:
        s.ev.evaluate(0.0, entry['dt'] if entry else 0.01)
    except Exception as ex:
        return [Failure('evaluate', 'exception', repr(ex))], labels, False
    # the real particles (a periodic domain appends ghost images)
    nreal = [a['n'] for a in data['arrays']]
    hs = np.concatenate([pa.h[:n] for pa, n in zip(s.arrays, nreal)])
    varh = len(set(hs.tolist())) > 1
    if varh:
        labels.append('variable_h')
    if hs.max() >= 2.0 * hs.min():
        labels.append('h_ratio_ge_2')
    if hs.max() >= 4.0 * hs.min():
        labels.append('h_ratio_ge_4')
    if narr > 1:
        m0 = np.mean(data['arrays'][0]['m'])
        if any(np.mean(a['m']) > 2.0 * m0 or np.mean(a['m']) < 0.5 * m0
               for a in data['arrays'][1:]):
            labels.append('arrays_differ_in_scale')
    pts = [[(a['x'][i], a['y'][i], a['z'][i]) for i in range(a['n'])]
           for a in data['arrays']]
    if any(len(set(p)) < len(p) for p in pts):
        labels.append('coincident_in_array')
    if any(set(pts[0]) & set(p) for p in pts[1:]):
        labels.append('coincident_across_arrays')
    if any(min(a['p']) < 0 < max(a['p']) for a in data['arrays']):
        labels.append('mixed_sign_pressure')
    if k >= len(EQUATIONS):
        mod, name, prop = DENSITY[k - len(EQUATIONS)]
        if kernel_name in NEGATIVE_LOBES:
            # sum m_b W_ab need not be positive when W is negative
            # somewhere (heavy neighbours in the negative lobe): nothing is
            # promised, count and leave
            return fails, labels + ['density_skipped_negative_kernel'], False
        labels.append('density_checked')
        labels.append('density:%s.%s' % (mod.split('.')[-1], name))
        for pa, n in zip(s.arrays, nreal):
            rho = pa.get(prop)[:n]
            if not (np.all(np.isfinite(rho)) and np.all(rho > 0)):
                fails.append(Failure(
                    name, 'density_not_positive',
                    '%s.%s: %s=%r on array %s' % (mod, name, prop, rho.min(),
                                                  pa.name),
                    dict(kernel=kernel_name)))
                break
        return fails, labels, True
    e = entry
    name = e['name']
    labels.append('fam:' + e['fam'])
    labels.append('eq:%s.%s' % (e['mod'].split('.')[-1], name))
    if e['tag']:
        labels.append(e['tag'])
    kl = dict(eq=name, kernel=kernel_name)
    where = '%s with %s/%s dim %d%s' % (
        name, kernel_name, data['nnps'], s.dim,
        ' periodic' if periodic else '')
    nontrivial = False
    trips = list(e['acc'])
    sums = []
    for acc in trips:
        P = np.zeros(3)
        S = 0.0
        Lm = np.zeros(3)
        SL = 0.0
        for ia, (pa, n) in enumerate(zip(s.arrays, nreal)):
            m = pa.m[:n]
            a = np.stack([pa.get(acc[0])[:n], pa.get(acc[1])[:n],
                          pa.get(acc[2])[:n]], axis=1)
            araw = a
            if e['sub']:
                a = a - np.stack([np.asarray(data['arrays'][ia][q])
                                  for q in e['sub']], axis=1)
            if not np.all(np.isfinite(a)):
                # coincident particles may give 0/0 in some formulations:
                # the statement is about rounding, count and leave
                return fails, labels + ['nonfinite'], False
            x = np.stack([pa.x[:n], pa.y[:n], pa.z[:n]], axis=1)
            P += (m[:, None] * a).sum(axis=0)
            an = np.sqrt((a * a).sum(axis=1))
            # (the rounding of ax = u + correction is relative to |ax|)
            S += float((m * np.sqrt((araw * araw).sum(axis=1))).sum())
            Lm += (m[:, None] * np.cross(x, a)).sum(axis=0)
            SL += float((m * np.sqrt((x * x).sum(axis=1)) * an).sum())
        sums.append((P, S))
        s.last = dict(lin=(np.abs(P).max() / S) if S > 0 else 0.0)
        if S > 0 and np.abs(P).max() > TOL * S:
            fails.append(Failure(
                name, 'linear_momentum',
                '%s: |sum m %s| = %.3g, sum m|a| = %.3g' % (
                    where, acc[0][:-1] + acc[0][-1], np.abs(P).max(), S),
                kl))
        if e['central'] and s.dim >= 2 and SL > 0 and not periodic:
            labels.append('angular_checked')
            s.last['ang'] = np.abs(Lm).max() / SL
            if np.abs(Lm).max() > TOL * SL:
                fails.append(Failure(
                    name, 'angular_momentum',
                    '%s: |sum m x cross a| = %.3g, scale %.3g'
                    % (where, np.abs(Lm).max(), SL), kl))
        nontrivial = nontrivial or S > 0
    if e['combined'] and len(trips) == 2:
        # the sum of both accelerations, relative to the scale of the sum
        P = np.zeros(3)
        S = 0.0
        for pa, n in zip(s.arrays, nreal):
            m = pa.m[:n]
            a = sum(np.stack([pa.get(q)[:n] for q in acc], axis=1)
                    for acc in trips)
            P += (m[:, None] * a).sum(axis=0)
            S += float((m * np.sqrt((a * a).sum(axis=1))).sum())
        if S > 0 and np.abs(P).max() > TOL * S:
            fails.append(Failure(
                name, 'linear_momentum',
                '%s: |sum m (a + ahat)| = %.3g, sum m|a + ahat| = %.3g' % (
                    where, np.abs(P).max(), S), kl))
    if e['energy']:
        T = 0.0
        ST = 0.0
        for pa, n, a0 in zip(s.arrays, nreal, data['arrays']):
            m = pa.m[:n]
            ae = pa.ae[:n]
            va = (np.asarray(a0['u']) * pa.au[:n] +
                  np.asarray(a0['v']) * pa.av[:n] +
                  np.asarray(a0['w']) * pa.aw[:n])
            if not np.all(np.isfinite(ae)):
                return fails, labels + ['nonfinite'], False
            T += float((m * (ae + va)).sum())
            ST += float((m * (np.abs(ae) + np.abs(va))).sum())
        if ST > 0:
            labels.append('energy_checked')
            s.last['en'] = abs(T) / ST
            if abs(T) > TOL * ST:
                fails.append(Failure(
                    name, 'total_energy',
                    '%s: |sum m (ae + v.a)| = %.3g, scale %.3g' % (
                        where, abs(T), ST), kl))
    if e['scalar']:
        prop, weight = e['scalar']
        T = 0.0
        ST = 0.0
        for pa, n in zip(s.arrays, nreal):
            wgt = pa.m[:n] / pa.rho[:n]
            q = pa.get(prop)[:n]
            if not np.all(np.isfinite(q)):
                return fails, labels + ['nonfinite'], False
            T += float((wgt * q).sum())
            ST += float((wgt * np.abs(q)).sum())
        nontrivial = nontrivial or ST > 0
        if ST > 0:
            labels.append('volume_checked')
            s.last = dict(vol=abs(T) / ST)
            if abs(T) > TOL * ST:
                fails.append(Failure(
                    name, 'volume_weighted_rate',
                    '%s: |sum (m/rho) %s| = %.3g, scale %.3g' % (
                        where, prop, abs(T), ST), kl))
    nt = nontrivial and varh
    return fails, labels, nt


def plan(ctx):
    seedv = ctx['seed']
    shards = []
    if ctx['tier'] == 'quick':
        combos = []
        kk = KERNELS + KERNELS_1D
        narrs = [1, 2, 2, 3, 3, 1, 2, 2, 3, 3, 1, 2]
        for i in range(len(narrs)):
            kern = kk[(i + seedv) % len(kk)]
            dim = [2, 3, 1, 2][(i + seedv) % 4]
            if kern.endswith('_1D'):
                dim = 1
            elif kern.startswith('Wendland') and dim == 1:
                dim = 2
            combos.append((kern, dim, narrs[i], i == 6))
        n = 300
    else:
        combos = [(k, d, na, (j + d + na) % 5 == 0)
                  for j, k in enumerate(KERNELS) for d in (1, 2, 3)
                  for na in (1, 2, 3)
                  if not (k.startswith('Wendland') and d == 1)]
        combos += [(k, 1, na, na == 2) for k in KERNELS_1D
                   for na in (1, 2, 3)]
        n = 1500
    parts = assign([c[2] for c in combos], seedv)
    for i, (kern, dim, na, omp) in enumerate(combos):
        sp = dict(name='sys-%02d-%s-%dd-%da%s' % (i, kern, dim, na,
                                                   '-omp' if omp else ''),
                  kernel=kern, dim=dim, narr=na, n=n, variant=0,
                  openmp=bool(omp), eqs=parts[i][0], dens=parts[i][1],
                  # the machine is shared: a few OpenMP threads only (the
                  # neighbour searches run their parallel paths with them)
                  omp=3 if omp else 2)
        shards.append(sp)
    return shards


def radius_scale(kernel_name, dim):
    from pysph.base import kernels
    return float(getattr(kernels, kernel_name)(dim=dim).radius_scale)


def case_of(spec, data):
    return dict(kernel=spec['kernel'], dim=spec['dim'], narr=spec['narr'],
                variant=spec['variant'], openmp=spec.get('openmp', False),
                eqs=spec.get('eqs'), dens=spec.get('dens'), data=data)


def run_shard(spec, ctx):
    stats = Stats()
    holder = {}
    stats.extra['jit_compiles'] = 0

    def execute(data):
        ctx.journal(case_of(spec, data))
        if 's' not in holder:
            holder['s'] = setup(spec['kernel'], spec['dim'], spec['narr'],
                                data, spec['variant'],
                                spec.get('openmp', False), spec.get('eqs'),
                                spec.get('dens'))
            stats.extra['jit_compiles'] += 1
        fails, labels, nt = run(holder['s'], data, spec['kernel'])
        return Outcome(fails, sorted(set(labels)), nt)
    neq = None
    if spec.get('eqs') is not None:
        neq = len(spec['eqs']) + len(spec.get('dens') or [])
    search(data_strategy(spec['narr'], spec['dim'],
                         radius_scale(spec['kernel'], spec['dim']), neq),
           execute,
           derive_seed(ctx.seed, 'C09', spec['name']), spec['n'], stats,
           shrink=True)
    for f in stats.failures:
        f['case'] = case_of(spec, f['case'])
    stats.nontrivial = set(case_hash([spec['name'], h])
                           for h in stats.nontrivial)
    stats.samples = [dict(kernel=spec['kernel'], dim=spec['dim'], data=s)
                     for s in stats.samples[:1]]
    return stats.result()


def run_case(case, component, ctx):
    s = setup(case['kernel'], case['dim'], case['narr'], case['data'],
              case.get('variant', 0), case.get('openmp', False),
              case.get('eqs'), case.get('dens'))
    fails, _, _ = run(s, case['data'], case['kernel'])
    return [f.as_dict(case) for f in fails]
