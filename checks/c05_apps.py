"""Small Application subclasses for C05 and the subprocess entry point.

usage: python -m checks.c05_apps PROBLEM OUTFILE CASE_JSON -- <application
       command line options>
Writes a npz with every output property of every array, sorted by gid.
"""
import json
import os
import sys

import numpy as np

from pysph.base.utils import get_particle_array
from pysph.solver.application import Application
from pysph.sph.integrator_step import IntegratorStep
from pysph.sph.scheme import WCSPHScheme, TVFScheme, GasDScheme

CASE = {}


def var_h(n, h0, seedvals, amp=0.3):
    """per-particle smoothing lengths h0*(1 +- amp) (multi-resolution
    input: tree algorithms prune with per-node maxima of h)"""
    k = len(seedvals)
    v = np.array([seedvals[(7 * i + 2) % k] for i in range(n)])
    if 'hamp' in CASE:
        # h0 .. h0*(1 + 2*hamp): ratios of 2 and more inside one array
        return h0 * (1.0 + CASE['hamp'] * (2.0 * v + 1.0))
    return h0 * (1.0 + amp * 2.0 * v)


def lattice(n, dx, jit, seedvals, x0=0.0, y0=0.0):
    x, y = np.mgrid[0:n, 0:n]
    x = x.ravel() * dx + x0 + 0.5 * dx
    y = y.ravel() * dx + y0 + 0.5 * dx
    k = len(seedvals)
    j = np.arange(len(x))
    x = x + jit * dx * np.array([seedvals[(3 * i) % k] for i in j])
    y = y + jit * dx * np.array([seedvals[(5 * i + 1) % k] for i in j])
    return x, y


def tf_of():
    """final time; with adaptive time steps the run is ended by --max-steps
    (the harness passes it), never by the final time"""
    if CASE.get('adaptive'):
        return CASE['dt'] * CASE['nsteps'] * 1000.0
    return CASE['dt'] * CASE['nsteps']


def set_gids(arrays):
    """unique identities over all arrays; `gidperm` = [a, b] makes them a
    permutation gid = (a*i + b) mod N of the creation order (a coprime to
    N), so that sorting by gid is not sorting by index"""
    import math
    n = sum(pa.get_number_of_particles() for pa in arrays)
    a, b = CASE.get('gidperm') or [1, 0]
    a = a % n if n else 1
    while n and math.gcd(a, n) != 1:
        a += 1
    start = 0
    for pa in arrays:
        k = pa.get_number_of_particles()
        i = np.arange(start, start + k)
        pa.gid[:] = (a * i + b) % n if n else i
        start += k


def add_marks(arrays):
    """passive properties that only travel with their particle: an integer
    and a strided one, both functions of the gid.  Re-ordering must apply
    the same permutation to them."""
    if not CASE.get('marks'):
        return
    for pa in arrays:
        g = pa.gid.astype(float)
        pa.add_property('c05_int', type='int')
        pa.c05_int[:] = 3 * pa.gid.astype(np.int64) + 1
        pa.add_property('c05_vec', stride=3)
        pa.c05_vec[:] = np.column_stack([g, 0.5 * g, -g - 1.0]).ravel()
        pa.add_output_arrays(['c05_int', 'c05_vec'])


class Drop(Application):
    """Free-surface block of fluid with an initial straining velocity."""
    def create_scheme(self):
        dx = 0.05
        s = WCSPHScheme(['fluid'], [], dim=2, rho0=1.0, c0=20.0,
                        h0=1.3 * dx, hdx=1.3, gamma=7.0, alpha=0.2,
                        beta=0.0)
        s.configure_solver(dt=CASE['dt'], tf=tf_of(),
                           pfreq=100000)
        return s

    def create_particles(self):
        dx = 0.05
        n = CASE['n']
        x, y = lattice(n, dx, 0.2, CASE['vals'])
        pa = get_particle_array(name='fluid', x=x, y=y,
                                m=np.ones_like(x) * dx * dx,
                                h=var_h(len(x), 1.3 * dx, CASE['vals'])
                                if CASE.get('varh') else
                                np.ones_like(x) * 1.3 * dx,
                                rho=np.ones_like(x))
        pa.u[:] = -2.0 * (x - x.mean())
        pa.v[:] = 2.0 * (y - y.mean())
        self.scheme.setup_properties([pa])
        set_gids([pa])
        add_marks([pa])
        return [pa]


class Column(Application):
    """Fluid block resting on a solid floor: two particle arrays."""
    def create_scheme(self):
        dx = 0.05
        s = WCSPHScheme(['fluid'], ['solid'], dim=2, rho0=1.0, c0=20.0,
                        h0=1.3 * dx, hdx=1.3, gamma=7.0, alpha=0.2,
                        beta=0.0, gy=-1.0)
        s.configure_solver(dt=CASE['dt'], tf=tf_of(),
                           pfreq=100000)
        return s

    def create_particles(self):
        dx = 0.05
        n = CASE['n']
        x, y = lattice(n, dx, 0.15, CASE['vals'])
        fluid = get_particle_array(name='fluid', x=x, y=y,
                                   m=np.ones_like(x) * dx * dx,
                                   h=var_h(len(x), 1.3 * dx, CASE['vals'])
                                   if CASE.get('varh') else
                                   np.ones_like(x) * 1.3 * dx,
                                   rho=np.ones_like(x))
        fluid.u[:] = 0.5 * np.sin(3 * y)
        xs, ys = np.mgrid[-3:n + 3, -3:0]
        xs = xs.ravel() * dx + 0.5 * dx
        ys = ys.ravel() * dx + 0.5 * dx
        solid = get_particle_array(name='solid', x=xs, y=ys,
                                   m=np.ones_like(xs) * dx * dx,
                                   h=np.ones_like(xs) * 1.3 * dx,
                                   rho=np.ones_like(xs))
        self.scheme.setup_properties([fluid, solid])
        set_gids([fluid, solid])
        add_marks([fluid, solid])
        return [fluid, solid]


class PeriodicBox(Application):
    """Doubly periodic box (Taylor-Green like) with the TVF scheme."""
    def create_domain(self):
        from pysph.base.nnps import DomainManager
        L = CASE['n'] * 0.05
        return DomainManager(xmin=0, xmax=L, ymin=0, ymax=L,
                             periodic_in_x=True, periodic_in_y=True)

    def create_scheme(self):
        dx = 0.05
        s = TVFScheme(['fluid'], [], dim=2, rho0=1.0, c0=10.0, nu=0.01,
                      p0=100.0, pb=100.0, h0=1.0 * dx)
        s.configure_solver(dt=CASE['dt'], tf=tf_of(),
                           pfreq=100000)
        return s

    def create_particles(self):
        dx = 0.05
        n = CASE['n']
        L = n * dx
        x, y = lattice(n, dx, 0.1, CASE['vals'])
        fluid = get_particle_array(name='fluid', x=x, y=y,
                                   m=np.ones_like(x) * dx * dx,
                                   h=var_h(len(x), 1.0 * dx, CASE['vals'])
                                   if CASE.get('pvarh') else
                                   np.ones_like(x) * 1.0 * dx,
                                   rho=np.ones_like(x))
        fluid.u[:] = -np.cos(2 * np.pi * x / L) * np.sin(2 * np.pi * y / L)
        fluid.v[:] = np.sin(2 * np.pi * x / L) * np.cos(2 * np.pi * y / L)
        self.scheme.setup_properties([fluid])
        fluid.add_property('V')
        fluid.V[:] = 1.0 / (dx * dx)
        set_gids([fluid])
        add_marks([fluid])
        return [fluid]


class Drop3D(Application):
    """Free-surface block of fluid in three dimensions."""
    def create_scheme(self):
        dx = 0.05
        s = WCSPHScheme(['fluid'], [], dim=3, rho0=1.0, c0=20.0,
                        h0=1.3 * dx, hdx=1.3, gamma=7.0, alpha=0.2,
                        beta=0.0)
        s.configure_solver(dt=CASE['dt'], tf=tf_of(), pfreq=100000)
        return s

    def create_particles(self):
        dx = 0.05
        n = CASE['n']
        x, y, z = np.mgrid[0:n, 0:n, 0:n]
        k = len(CASE['vals'])
        j = np.arange(n ** 3)
        sv = np.array(CASE['vals'])
        x = (x.ravel() + 0.5) * dx + 0.2 * dx * sv[(3 * j) % k]
        y = (y.ravel() + 0.5) * dx + 0.2 * dx * sv[(5 * j + 1) % k]
        z = (z.ravel() + 0.5) * dx + 0.2 * dx * sv[(11 * j + 3) % k]
        pa = get_particle_array(name='fluid', x=x, y=y, z=z,
                                m=np.ones_like(x) * dx ** 3,
                                h=var_h(len(x), 1.3 * dx, CASE['vals'])
                                if CASE.get('varh') else
                                np.ones_like(x) * 1.3 * dx,
                                rho=np.ones_like(x))
        pa.u[:] = -2.0 * (x - x.mean())
        pa.v[:] = 1.5 * (y - y.mean())
        pa.w[:] = 0.5 * (z - z.mean())
        self.scheme.setup_properties([pa])
        set_gids([pa])
        add_marks([pa])
        return [pa]


class Gas(Application):
    """Gas blob with a hot spot; the smoothing lengths follow the density
    (GasDScheme, --adaptive-h mpm: iterated group that updates the
    neighbour search; gsph: two updates per evaluation).  `gper` makes the
    box periodic in x (ghosts, a group over all particles); `gdim` = 1 puts
    8n particles on a line."""
    def _dim(self):
        return CASE.get('gdim', 2)

    def _nx(self):
        return CASE['n'] * (8 if self._dim() == 1 else 1)

    def create_domain(self):
        if not CASE.get('gper'):
            return None
        from pysph.base.nnps import DomainManager
        return DomainManager(xmin=0, xmax=self._nx() * 0.05,
                             periodic_in_x=True)

    def create_scheme(self):
        s = GasDScheme(['fluid'], [], dim=self._dim(), gamma=1.4,
                       kernel_factor=1.2,
                       alpha1=1.0, alpha2=0.1, beta=2.0,
                       adaptive_h_scheme=CASE.get('hscheme', 'mpm'),
                       max_density_iterations=30,
                       density_iteration_tolerance=1e-4,
                       has_ghosts=bool(CASE.get('gper')))
        s.configure_solver(dt=CASE['dt'], tf=tf_of(), pfreq=100000)
        return s

    def create_particles(self):
        from pysph.base.utils import get_particle_array_gasd
        dx = 0.05
        n = CASE['n']
        L = self._nx() * dx
        if self._dim() == 1:
            sv = np.array(CASE['vals'])
            j = np.arange(self._nx())
            x = (j + 0.5) * dx + 0.15 * dx * sv[(3 * j) % len(sv)]
            y = np.zeros_like(x)
            r2 = (x - 0.5 * L) ** 2
            vol = dx
        else:
            x, y = lattice(n, dx, 0.15, CASE['vals'])
            r2 = (x - 0.5 * L) ** 2 + (y - 0.5 * L) ** 2
            vol = dx * dx
        rho = 1.0 + 0.5 * np.cos(2 * np.pi * x / L)
        p = 1.0 + 4.0 * np.exp(-r2 / (0.15 * L) ** 2)
        pa = get_particle_array_gasd(
            name='fluid', x=x, y=y, m=rho * vol, rho=rho,
            h=1.2 * dx * np.ones_like(x), p=p, e=p / (0.4 * rho))
        pa.u[:] = 0.3 * np.sin(2 * np.pi * x / L)
        self.scheme.setup_properties([pa], clean=False)
        set_gids([pa])
        add_marks([pa])
        return [pa]


class Channel(Application):
    """Fluid between two solid walls, periodic along the walls (TVF with
    solid wall boundary conditions): ghosts of two arrays, per-particle h
    in the fluid."""
    def create_domain(self):
        from pysph.base.nnps import DomainManager
        return DomainManager(xmin=0, xmax=CASE['n'] * 0.05,
                             periodic_in_x=True)

    def create_scheme(self):
        dx = 0.05
        s = TVFScheme(['fluid'], ['wall'], dim=2, rho0=1.0, c0=10.0,
                      nu=0.01, p0=100.0, pb=100.0, h0=1.0 * dx, gx=1.0)
        s.configure_solver(dt=CASE['dt'], tf=tf_of(), pfreq=100000)
        return s

    def create_particles(self):
        dx = 0.05
        n = CASE['n']
        ny = max(6, n // 2)
        x, y = np.mgrid[0:n, 0:ny]
        k = len(CASE['vals'])
        j = np.arange(n * ny)
        sv = np.array(CASE['vals'])
        x = (x.ravel() + 0.5) * dx + 0.1 * dx * sv[(3 * j) % k]
        y = (y.ravel() + 0.5) * dx + 0.1 * dx * sv[(5 * j + 1) % k]
        fluid = get_particle_array(name='fluid', x=x, y=y,
                                   m=np.ones_like(x) * dx * dx,
                                   h=var_h(len(x), 1.0 * dx, CASE['vals'])
                                   if CASE.get('pvarh') else
                                   np.ones_like(x) * 1.0 * dx,
                                   rho=np.ones_like(x))
        H = ny * dx
        fluid.u[:] = 0.5 * np.sin(np.pi * y / H)
        fluid.v[:] = 0.1 * np.sin(2 * np.pi * x / (n * dx))
        xw, yw = np.mgrid[0:n, -3:ny + 3]
        xw = (xw.ravel() + 0.5) * dx
        yw = (yw.ravel() + 0.5) * dx
        keep = (yw < 0) | (yw > H)
        xw, yw = xw[keep], yw[keep]
        wall = get_particle_array(name='wall', x=xw, y=yw,
                                  m=np.ones_like(xw) * dx * dx,
                                  h=np.ones_like(xw) * 1.0 * dx,
                                  rho=np.ones_like(xw))
        self.scheme.setup_properties([fluid, wall])
        for pa in (fluid, wall):
            if 'V' not in pa.properties:
                pa.add_property('V')
            pa.V[:] = 1.0 / (dx * dx)
        set_gids([fluid, wall])
        add_marks([fluid, wall])
        return [fluid, wall]


class C05IOStep(IntegratorStep):
    """Stepper for inlet/outlet particles that advances the second half of
    a step from the current position: a particle recycled (or handed over)
    after the first stage keeps its new place.  (The shipped InletStep
    restarts from x0 and fits updates after the last stage only.)"""
    def initialize(self, d_idx, d_x0, d_x):
        d_x0[d_idx] = d_x[d_idx]

    def stage1(self, d_idx, d_x, d_x0, d_u, dt):
        d_x[d_idx] = d_x0[d_idx] + 0.5 * dt * d_u[d_idx]

    def stage2(self, d_idx, d_x, d_u, dt):
        d_x[d_idx] += 0.5 * dt * d_u[d_idx]


class Pipe(Application):
    """Stream of fluid fed by an inlet and drained by an outlet
    (InletBase/OutletBase of pysph.sph.bc.inlet_outlet_manager): particles
    enter and leave the arrays during the run.  Every particle that enters
    the fluid gets a fresh identity derived from the identity of its inlet
    original and the number of times that original was recycled, so that
    identities do not depend on the order in which particles are stored."""
    NL = 4

    def create_scheme(self):
        from pysph.sph.bc.inlet_outlet_manager import InletStep, OutletStep
        dx = 0.05
        s = WCSPHScheme(['fluid'], ['inlet', 'outlet'], dim=2, rho0=1.0,
                        c0=10.0, h0=1.3 * dx, hdx=1.3, gamma=7.0,
                        alpha=0.2, beta=0.0)
        if 1 in CASE.get('iostages', [1, 2]):
            steppers = dict(inlet=C05IOStep(), outlet=C05IOStep())
        else:
            steppers = dict(inlet=InletStep(), outlet=OutletStep())
        s.configure_solver(dt=CASE['dt'], tf=tf_of(), pfreq=100000,
                           extra_steppers=steppers)
        return s

    def _geom(self):
        dx = 0.05
        n = CASE['n']
        return dx, n, max(6, n // 2), n * dx

    def create_particles(self):
        dx, n, ny, L = self._geom()
        U = CASE.get('uin', 2.5)
        sv = np.array(CASE['vals'])
        k = len(sv)

        def block(i0, i1, jit, off):
            x, y = np.mgrid[i0:i1, 0:ny]
            j = np.arange(x.size) + off
            # the lattice is shifted towards the outlet: the first columns
            # are 0.2 dx away from the planes they cross
            x = (x.ravel() + 0.8) * dx + jit * dx * sv[(3 * j) % k]
            y = (y.ravel() + 0.5) * dx + jit * dx * sv[(5 * j + 1) % k]
            return x, y
        arrays = []
        for name, (i0, i1, jit) in (('fluid', (0, n, 0.2)),
                                    ('inlet', (-self.NL, 0, 0.2)),
                                    ('outlet', (n, n + self.NL, 0.0))):
            x, y = block(i0, i1, jit, 7 * len(arrays))
            if name == 'inlet':
                # the recycled copies must stay inside the inlet zone
                x = np.clip(x, -self.NL * dx + 0.05 * dx, -0.05 * dx)
            if name == 'fluid':
                x = np.clip(x, 0.02 * dx, L - 0.02 * dx)
            pa = get_particle_array(
                name=name, x=x, y=y, m=np.ones_like(x) * dx * dx,
                h=var_h(len(x), 1.3 * dx, CASE['vals'])
                if CASE.get('varh') and name == 'fluid' else
                np.ones_like(x) * 1.3 * dx, rho=np.ones_like(x))
            arrays.append(pa)
        self.scheme.setup_properties(arrays)
        for pa in arrays:
            # a particle may enter the fluid between the two stages of a
            # step: the start-of-step copies must be meaningful
            H = ny * dx
            pa.u[:] = U * (1.0 + 0.3 * np.sin(np.pi * pa.y / H))
            pa.u0[:] = pa.u
            pa.rho0[:] = 1.0
            if pa.name == 'fluid':
                pa.v[:] = 0.3 * np.sin(2 * np.pi * pa.x / L)
                pa.rho[:] = 1.0 + 0.02 * np.cos(2 * np.pi * pa.x / L)
            pa.add_property('x0')
            pa.add_property('ioid', type='int')
            pa.add_property('disp')
            # generation counter of an inlet particle; -1 marks a particle
            # that is not a fresh copy of an inlet particle
            pa.add_property('c05_gen', type='int')
            pa.c05_gen[:] = 0 if pa.name == 'inlet' else -1
            pa.add_output_arrays(['c05_gen'])
        set_gids(arrays)
        add_marks(arrays)
        self._ntot = sum(pa.get_number_of_particles() for pa in arrays)
        return arrays

    def _entered(self, fluid, inlet):
        new = np.where(fluid.c05_gen >= 0)[0]
        if len(new) == 0:
            return
        src = fluid.gid[new].astype(np.int64)
        gen = fluid.c05_gen[new].astype(np.int64)
        fluid.gid[new] = self._ntot * (1 + gen) + src
        fluid.c05_gen[new] = -1
        if 'c05_int' in fluid.properties:
            g = fluid.gid[new].astype(float)
            fluid.c05_int[new] = 3 * fluid.gid[new].astype(np.int64) + 1
            v = fluid.c05_vec.reshape(-1, 3)
            v[new] = np.column_stack([g, 0.5 * g, -g - 1.0])
        inlet.c05_gen[np.isin(inlet.gid, src)] += 1

    def create_inlet_outlet(self, particle_arrays):
        from pysph.sph.bc.inlet_outlet_manager import (
            InletInfo, OutletInfo, InletBase, OutletBase)
        dx, n, ny, L = self._geom()
        ii = InletInfo('inlet', normal=[-1.0, 0.0, 0.0],
                       refpoint=[0.0, 0.0, 0.0], has_ghost=False)
        ii.length = self.NL * dx
        ii.dx = dx
        oi = OutletInfo('outlet', normal=[1.0, 0.0, 0.0],
                        refpoint=[L, 0.0, 0.0], has_ghost=False)
        oi.length = self.NL * dx
        oi.dx = dx
        kernel = self.solver.kernel
        stages = CASE.get('iostages', [1, 2])
        inlet = InletBase(particle_arrays['inlet'], particle_arrays['fluid'],
                          ii, kernel, dim=2, active_stages=stages,
                          callback=self._entered)
        outlet = OutletBase(particle_arrays['outlet'],
                            particle_arrays['fluid'], oi, kernel, dim=2,
                            active_stages=stages)
        return [inlet, outlet]


PROBLEMS = dict(drop=Drop, column=Column, periodic=PeriodicBox,
                drop3d=Drop3D, gas=Gas, channel=Channel, pipe=Pipe)


def read_dump(fname, out, prefix):
    from pysph.solver.utils import load
    data = load(fname)
    for name, pa in data['arrays'].items():
        gid = pa.get('gid', only_real_particles=True)
        order = np.argsort(gid, kind='stable')
        out['%s%s::gid' % (prefix, name)] = gid[order]
        for p in sorted(pa.output_property_arrays or pa.properties.keys()):
            if p in ('gid', 'pid', 'tag', 'orig_idx'):
                # identities / storage indices, not particle state
                continue
            a = pa.get(p, only_real_particles=True)
            stride = pa.stride.get(p, 1)
            if len(a) == len(gid) * stride:
                if stride > 1:
                    a = a.reshape(len(gid), stride)
                out['%s%s::%s' % (prefix, name, p)] = a[order]
    return data


def main():
    problem, outfile, case = sys.argv[1:4]
    args = sys.argv[5:]
    CASE.update(json.loads(case))
    outdir = outfile + '_output'
    app = PROBLEMS[problem](fname='run', output_dir=outdir)
    # the options of the case come last: they override the defaults
    app.run(['-d', outdir, '--pfreq', '100000'] + args)
    from pysph.solver.utils import get_files
    files = get_files(outdir, 'run')
    out = {}
    data = read_dump(files[-1], out, '')
    if CASE.get('pfreq'):
        # every intermediate dump is part of the observable result
        for f in files[1:-1]:
            it = os.path.splitext(os.path.basename(f))[0].split('_')[-1]
            read_dump(f, out, '@%s/' % it)
    out['__t'] = np.array([data['solver_data']['t']])
    out['__dt'] = np.array([data['solver_data']['dt']])
    out['__count'] = np.array([data['solver_data']['count']])
    out['__nfiles'] = np.array([len(files)])
    if problem == 'pipe':
        first = {}
        read_dump(files[0], first, '')
        out['__n0'] = np.array([sum(len(v) for k, v in first.items()
                                    if k.endswith('::gid'))])
        out['__fluid0'] = first['fluid::gid']
    np.savez(outfile, **out)
    import shutil
    shutil.rmtree(outdir, ignore_errors=True)
    sys.stdout.flush()
    os._exit(0)


if __name__ == '__main__':
    main()
