"""Small Application subclasses for C05 and the subprocess entry point.

usage: python -m checks.c05_apps PROBLEM OUTFILE CASE_JSON -- <application
       command line options>
Writes a npz with every output property of every array, sorted by gid.
"""
import json
import os
import sys

import numpy as np

from pysph.base.utils import get_particle_array
from pysph.solver.application import Application
from pysph.sph.scheme import WCSPHScheme, TVFScheme

CASE = {}


def var_h(n, h0, seedvals, amp=0.3):
    """per-particle smoothing lengths h0*(1 +- amp) (multi-resolution
    input: tree algorithms prune with per-node maxima of h)"""
    k = len(seedvals)
    v = np.array([seedvals[(7 * i + 2) % k] for i in range(n)])
    if 'hamp' in CASE:
        # h0 .. h0*(1 + 2*hamp): ratios of 2 and more inside one array
        return h0 * (1.0 + CASE['hamp'] * (2.0 * v + 1.0))
    return h0 * (1.0 + amp * 2.0 * v)


def lattice(n, dx, jit, seedvals, x0=0.0, y0=0.0):
    x, y = np.mgrid[0:n, 0:n]
    x = x.ravel() * dx + x0 + 0.5 * dx
    y = y.ravel() * dx + y0 + 0.5 * dx
    k = len(seedvals)
    j = np.arange(len(x))
    x = x + jit * dx * np.array([seedvals[(3 * i) % k] for i in j])
    y = y + jit * dx * np.array([seedvals[(5 * i + 1) % k] for i in j])
    return x, y


class Drop(Application):
    """Free-surface block of fluid with an initial straining velocity."""
    def create_scheme(self):
        dx = 0.05
        s = WCSPHScheme(['fluid'], [], dim=2, rho0=1.0, c0=20.0,
                        h0=1.3 * dx, hdx=1.3, gamma=7.0, alpha=0.2,
                        beta=0.0)
        s.configure_solver(dt=CASE['dt'], tf=CASE['dt'] * CASE['nsteps'],
                           pfreq=100000)
        return s

    def create_particles(self):
        dx = 0.05
        n = CASE['n']
        x, y = lattice(n, dx, 0.2, CASE['vals'])
        pa = get_particle_array(name='fluid', x=x, y=y,
                                m=np.ones_like(x) * dx * dx,
                                h=var_h(len(x), 1.3 * dx, CASE['vals'])
                                if CASE.get('varh') else
                                np.ones_like(x) * 1.3 * dx,
                                rho=np.ones_like(x))
        pa.u[:] = -2.0 * (x - x.mean())
        pa.v[:] = 2.0 * (y - y.mean())
        pa.gid[:] = np.arange(len(x))
        self.scheme.setup_properties([pa])
        return [pa]


class Column(Application):
    """Fluid block resting on a solid floor: two particle arrays."""
    def create_scheme(self):
        dx = 0.05
        s = WCSPHScheme(['fluid'], ['solid'], dim=2, rho0=1.0, c0=20.0,
                        h0=1.3 * dx, hdx=1.3, gamma=7.0, alpha=0.2,
                        beta=0.0, gy=-1.0)
        s.configure_solver(dt=CASE['dt'], tf=CASE['dt'] * CASE['nsteps'],
                           pfreq=100000)
        return s

    def create_particles(self):
        dx = 0.05
        n = CASE['n']
        x, y = lattice(n, dx, 0.15, CASE['vals'])
        fluid = get_particle_array(name='fluid', x=x, y=y,
                                   m=np.ones_like(x) * dx * dx,
                                   h=var_h(len(x), 1.3 * dx, CASE['vals'])
                                   if CASE.get('varh') else
                                   np.ones_like(x) * 1.3 * dx,
                                   rho=np.ones_like(x))
        fluid.u[:] = 0.5 * np.sin(3 * y)
        xs, ys = np.mgrid[-3:n + 3, -3:0]
        xs = xs.ravel() * dx + 0.5 * dx
        ys = ys.ravel() * dx + 0.5 * dx
        solid = get_particle_array(name='solid', x=xs, y=ys,
                                   m=np.ones_like(xs) * dx * dx,
                                   h=np.ones_like(xs) * 1.3 * dx,
                                   rho=np.ones_like(xs))
        fluid.gid[:] = np.arange(len(x))
        solid.gid[:] = np.arange(len(xs)) + len(x)
        self.scheme.setup_properties([fluid, solid])
        return [fluid, solid]


class PeriodicBox(Application):
    """Doubly periodic box (Taylor-Green like) with the TVF scheme."""
    def create_domain(self):
        from pysph.base.nnps import DomainManager
        L = CASE['n'] * 0.05
        return DomainManager(xmin=0, xmax=L, ymin=0, ymax=L,
                             periodic_in_x=True, periodic_in_y=True)

    def create_scheme(self):
        dx = 0.05
        s = TVFScheme(['fluid'], [], dim=2, rho0=1.0, c0=10.0, nu=0.01,
                      p0=100.0, pb=100.0, h0=1.0 * dx)
        s.configure_solver(dt=CASE['dt'], tf=CASE['dt'] * CASE['nsteps'],
                           pfreq=100000)
        return s

    def create_particles(self):
        dx = 0.05
        n = CASE['n']
        L = n * dx
        x, y = lattice(n, dx, 0.1, CASE['vals'])
        fluid = get_particle_array(name='fluid', x=x, y=y,
                                   m=np.ones_like(x) * dx * dx,
                                   h=np.ones_like(x) * 1.0 * dx,
                                   rho=np.ones_like(x))
        fluid.u[:] = -np.cos(2 * np.pi * x / L) * np.sin(2 * np.pi * y / L)
        fluid.v[:] = np.sin(2 * np.pi * x / L) * np.cos(2 * np.pi * y / L)
        fluid.gid[:] = np.arange(len(x))
        self.scheme.setup_properties([fluid])
        fluid.add_property('V')
        fluid.V[:] = 1.0 / (dx * dx)
        return [fluid]


PROBLEMS = dict(drop=Drop, column=Column, periodic=PeriodicBox)


def main():
    problem, outfile, case = sys.argv[1:4]
    args = sys.argv[5:]
    CASE.update(json.loads(case))
    outdir = outfile + '_output'
    app = PROBLEMS[problem](fname='run', output_dir=outdir)
    app.run(args + ['-d', outdir, '--pfreq', '100000'])
    from pysph.solver.utils import get_files, load
    files = get_files(outdir, 'run')
    data = load(files[-1])
    out = {}
    for name, pa in data['arrays'].items():
        nreal = pa.num_real_particles
        gid = pa.get('gid', only_real_particles=True)
        order = np.argsort(gid, kind='stable')
        out['%s::gid' % name] = gid[order]
        for p in sorted(pa.output_property_arrays or pa.properties.keys()):
            if p in ('gid', 'pid', 'tag'):
                continue
            a = pa.get(p, only_real_particles=True)
            if len(a) == len(gid):
                out['%s::%s' % (name, p)] = a[order]
    out['__t'] = np.array([data['solver_data']['t']])
    out['__count'] = np.array([data['solver_data']['count']])
    # numbers of particles in the first num_real slots that are not local
    # would show a broken ordering; recorded for the oracle
    np.savez(outfile, **out)
    import shutil
    shutil.rmtree(outdir, ignore_errors=True)
    sys.stdout.flush()
    os._exit(0)


if __name__ == '__main__':
    main()
