"""A small evaluator built *before* the measured one in the same process.

Code generation keeps process-wide state (wrapper caches, the compyle
configuration, generated-module caches).  The statement of C02 is about every
evaluator a process builds, not only the first; the prior evaluator uses the
same kernel class in another dimension and every kernel-derived pair symbol.
Its own result is compared with the reference too.
"""
from pysph.sph.equation import Equation


class WarmPair(Equation):
    def initialize(self, d_idx, d_au, d_av):
        d_au[d_idx] = 0.0
        d_av[d_idx] = 0.0

    def loop(self, d_idx, s_idx, d_au, d_av, s_m, WIJ, WI, WJ, WDP, DWIJ,
             DWI, DWJ, XIJ, HIJ, RIJ, R2IJ, GHI, GHJ, GHIJ, EPS):
        d_au[d_idx] += s_m[s_idx] * (WIJ + 2.0 * WI + 3.0 * WJ + 5.0 * WDP)
        d_av[d_idx] += s_m[s_idx] * (
            DWIJ[0] * XIJ[0] + DWI[1] * XIJ[1] + DWJ[2] * XIJ[2] +
            HIJ * RIJ + R2IJ + GHI + 2.0 * GHJ + 3.0 * GHIJ + EPS)


def other_dim(kernel_name, dim, kdims):
    dims = [d for d in kdims.get(kernel_name, [1, 2, 3]) if d != dim]
    return dims[0] if dims else None


def build_and_check(kernel_name, dim):
    """Build the prior evaluator; -> list of differences (empty = agrees)."""
    from pysph.base import kernels
    from pysph.sph.equation import Group
    from vlib import jit
    from vlib.refeval import RefEval
    n = 9

    def spec(name, off):
        co = [[0.11 * ((5 * i + 3 * a + off) % 9) if a < dim else 0.0
               for i in range(n)] for a in range(3)]
        return dict(name=name, n=n, nghost=0, props=dict(
            x=dict(data=co[0]), y=dict(data=co[1]), z=dict(data=co[2]),
            h=dict(data=[0.3 + 0.01 * (i % 3) for i in range(n)]),
            m=dict(data=[1.0 + 0.125 * i for i in range(n)]),
            au=dict(data=[0.0] * n), av=dict(data=[0.0] * n)))
    K = getattr(kernels, kernel_name)
    out = []
    sides = []
    for side in range(2):
        arrays = jit.make_arrays([spec('wd', 0), spec('ws', 1)])
        groups = [Group(equations=[WarmPair('wd', ['wd', 'ws'])])]
        sides.append((arrays, groups))
    ev = jit.compiled_evaluator(sides[0][0], sides[0][1], K(dim=dim), dim)
    ev.update()
    ev.evaluate(0.0, 0.1)
    rk = K(dim=dim)
    nn = jit.sorted_nnps(dim, sides[1][0], rk.radius_scale)
    RefEval(sides[1][0], sides[1][1], rk, nn).compute(0.0, 0.1)
    return jit.compare_arrays(sides[1][0], sides[0][0], bitwise=False,
                              rtol=1e-9)
