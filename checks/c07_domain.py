"""C07 - periodic and mirror domains create exactly the right ghost particles.

A history of rounds (set positions / smoothing lengths of the real particles,
then DomainManager.update() - reached through NNPS.update_domain() of three
NNPS classes or directly) is executed on 1-3 particle arrays, and after every
update the complete contents of every array are compared with a closed-form
enumeration of the images that is independent of the pass-by-pass
construction used by CPUDomainManager:

  images(p) = prod over flagged axes a of O_a(p_a)  minus the identity, where
  O_a = {id} + {+L_a if p_a - min_a <= T} + {-L_a if max_a - p_a <= T}
        (periodic axis, L_a = max_a - min_a evaluated in double)
  O_a = {id} + {reflect about min_a if p_a - min_a <= T}
             + {reflect about max_a if max_a - p_a <= T}     (mirror axis,
        the velocity component of that axis negated)
  T = n_layers * radius_scale * max(h over the real particles of all arrays)

Ghosts are compared as multisets of full records (every property of the
array, strided ones included), keyed by a unique `uid` property.
"""
import itertools
import math

from hypothesis import strategies as st

from vlib.hyp import Failure, Outcome, Stats, search, derive_seed

RULE = ('cases = box (dim 1-3, origin 0 / -L/2 / near / far up to 1e6 L, '
        'edges 0.5-2 x scale, scale 0.01-100), per-axis flag periodic / '
        'mirror / none (>= 1 flagged), n_layers in {1,1.5,2,3} or not passed, '
        'radius_scale in {1,1.3,2,2.5,3}, backend not passed / "cython", 1-3 '
        'arrays (get_particle_array, or a plain ParticleArray with x,y,z,h'
        '[,u,v,w] only; some with a constant and an output list) of 0-40 '
        'particles placed on a 1/16 lattice, '
        'uniformly, exactly on faces, 1 ulp inside/outside a face, next to '
        'the layer threshold, outside by < one period (periodic axes), '
        'coincident with another particle; per-particle h with T/L from '
        '0.08 to 1.8; copied properties None / list / per-array dict (always '
        'x,y,z,h,uid) plus typed and strided extras; 1-5 rounds of '
        'remove and add real particles on the ghosted arrays (arrays may '
        'become empty and be refilled) / move / change h / add a property / '
        'update through LinkedListNNPS, SpatialHashNNPS, '
        'BoxSortNNPS.update_domain or DomainManager.update; before an '
        'update the objects around the particles may be replaced (new NNPS '
        'on the same DomainManager; new array objects with the same '
        'particles, old ghosts kept or not, on the same DomainManager; new '
        'DomainManager on arrays still holding the old ghosts) or '
        'in_parallel may be set for that update. '
        'Non-trivial = a round in which >= 1 ghost is an edge/corner image '
        'or >= 1 particle was wrapped or >= 2 arrays have ghosts; distinct '
        'by case hash.')
ASSUMPTIONS = [
    'documented ghost-layer thickness (DomainManager docstring: "number of '
    'ghost layers as a multiple of h_max*radius_scale"; '
    '_compute_cell_size_for_binning: cell size = radius_scale * maximum '
    'smoothing length): T = n_layers * (radius_scale * hmax), hmax taken '
    'over the current real particles of all arrays; the undocumented '
    'fallback cell_size=1 for radius_scale*hmax < 1e-6 is never generated',
    'a particle whose distance to a face differs from T by less than '
    '1e-12*L + 4 ulp(max(|min|,|max|,T)) may or may not be imaged',
    'positions are compared to 4 ulp, everything else bitwise (reflected '
    'velocity components numerically, so -0.0 == 0.0); "inside the box" '
    'means inside to 4 ulp',
    'an axis is periodic or mirror, not both; on mirror axes particles lie '
    'in [min,max] (a wall), on periodic axes within less than one period '
    'of the box; arrays used with a mirror axis carry u, v, w',
    'properties not listed in props: at their default in a purely periodic '
    'image (documented: only the listed ones are copied); default or source '
    'value in an image involving a reflection (the mirror pass copies '
    'everything, which the statement neither requires nor forbids)',
    'completeness clause (neighbour counts over real+ghost equal counts '
    'over all lattice images) only for purely periodic boxes whose periodic '
    'edges are all >= 2T, pairs within 1e-12 relative + 8 ulp of the '
    'cut-off free; NNPS queries only through LinkedListNNPS(dim=3)',
    'update() with in_parallel set leaves the arrays bitwise as they are '
    '(comment in CPUDomainManager.update: in parallel the parallel NNPS '
    'creates the ghosts); constants, output_property_arrays and the name '
    'of an array are not touched by any update',
    'one DomainManager is handed new wrappers / new array objects only for '
    'the same number of arrays with the same names and property sets '
    '(a different array set on a used DomainManager meets stale ghost '
    'buffers: reported separately, never generated); removing a property '
    'between updates is not generated for the same reason',
    'particles added between updates go in through add_particles and out '
    'through remove_particles on the array that holds the previous ghosts; '
    'the real records ParticleArray leaves behind are verified before the '
    'update (a mismatch is reported as edit_bookkeeping)',
    'LinkedListNNPS/BoxSortNNPS are constructed with dim=3 (the dim<3 '
    'single-cell heap overflow belongs to C01); "requires too many '
    'cells" from an NNPS is its documented capacity limit, the history '
    'then continues on the bare DomainManager; when an array is empty '
    'the DomainManager is driven directly (an empty array contributes '
    'min=max=0 to the NNPS bounds; with a far origin LinkedListNNPS then '
    'overflows its cell count and segfaults - a C01 matter)',
]
ESSENTIAL_LABELS = {'all': [
    'corner_image', 'on_face', 'mirror_2arrays', 'h_change', 'far_origin',
    'wrapped', 'ulp_outside', 'coincident', 'thin_box', 'props_list',
    'props_dict', 'props_none', 'strided_copied', 'empty_array',
    'mixed_periodic_mirror', 'threshold_band', 'completeness_checked',
    'prop_added_midway', 'driver:ll', 'driver:sh', 'driver:bs', 'driver:dm',
    'grown', 'shrunk_partly', 'emptied', 'refilled', 'rewire:nnps_new',
    'rewire:arrays_new', 'rewire:arrays_new_ghosts', 'rewire:dm_new',
    'in_parallel', 'n_layers_default', 'backend_explicit', 'bare_array',
    'plain_array', 'constants', 'corner3_image', 'layer_wider_than_box']}

GHOST = 2
UINT_MAX = 4294967295
AX = 'xyz'
VEL = 'uvw'
# extra properties: name -> (ctype, stride, default)
EXTRA = {
    'm': ('double', 1, 0.0),
    'cnt': ('int', 1, 3),
    'f32': ('float', 1, 1.5),
    'lng': ('long', 1, -7),
    'uns': ('unsigned int', 1, 5),
    'vec': ('double', 3, 0.25),
    'iv2': ('int', 2, 0),
}
DRIVERS = ['ll', 'sh', 'bs', 'dm']
MODES = ['periodic', 'mirror', 'mixed', 'any']


# ---------------------------------------------------------------- generator
def _next(x, up):
    return math.nextafter(x, math.inf if up else -math.inf)


@st.composite
def case_strategy(draw, driver, mode):
    if mode == 'mixed':
        dim = draw(st.sampled_from([2, 3, 3]))
    else:
        dim = draw(st.sampled_from([1, 2, 2, 3, 3]))
    # ---- flags
    if mode == 'periodic':
        alphabet = 'ppn'
    elif mode == 'mirror':
        alphabet = 'mmn'
    else:
        alphabet = 'pmn'
    flags = [draw(st.sampled_from(alphabet)) for _ in range(dim)]
    if all(f == 'n' for f in flags):
        flags[draw(st.integers(0, dim - 1))] = draw(
            st.sampled_from(alphabet[:2]))
    if mode == 'mixed' and dim > 1:
        if 'p' not in flags:
            flags[0] = 'p'
        if 'm' not in flags:
            flags[1 if flags[0] == 'p' else 0] = 'm'
    flags += ['n'] * (3 - dim)
    # ---- box
    scale = draw(st.sampled_from([1.0, 1.0, 0.125, 3.0, 100.0, 0.01]))
    okind = draw(st.sampled_from(['zero', 'zero', 'neghalf', 'near', 'far',
                                  'far']))
    lo, hi = [0.0] * 3, [0.0] * 3
    for a in range(dim):
        ln = scale * draw(st.sampled_from([1.0, 1.0, 0.5, 2.0, 0.75,
                                           1.5]))
        if okind == 'zero':
            o = 0.0
        elif okind == 'neghalf':
            o = -ln / 2
        elif okind == 'near':
            o = scale * draw(st.integers(-40, 40)) * 0.37
        else:
            o = scale * draw(st.sampled_from([1.0, -1.0])) * \
                draw(st.sampled_from([1e3, 12345.678, 1e6, 777777.7]))
        lo[a] = o
        hi[a] = o + ln
    fl = [a for a in range(3) if flags[a] != 'n']
    lref = min(hi[a] - lo[a] for a in fl)
    # None = n_layers not passed (documented default of the signature: 2.0)
    n_layers = draw(st.sampled_from([1.0, 1.0, 2.0, 2.0, 3.0, 1.5, None]))
    nl_eff = 2.0 if n_layers is None else n_layers
    rs = draw(st.sampled_from([2.0, 2.0, 3.0, 1.0, 2.5, 1.3]))
    backend = draw(st.sampled_from([None, None, None, 'cython']))
    has_mirror = 'm' in flags
    # ---- arrays and properties
    narr = draw(st.sampled_from([1, 2, 2, 3]))
    pmode = draw(st.sampled_from(['none', 'list', 'dict']))
    arrays = []
    common = sorted(draw(st.sets(st.sampled_from(sorted(EXTRA)),
                                 max_size=4)))
    for i in range(narr):
        n = draw(st.sampled_from([0, 1, 1, 2, 2, 3, 3, 4, 5, 6, 8, 12, 20,
                                  40]))
        if pmode == 'list':
            extra = list(common)
        else:
            extra = sorted(draw(st.sets(st.sampled_from(sorted(EXTRA)),
                                        max_size=4)))
        # full: get_particle_array (all default properties); uvw: a plain
        # ParticleArray with x,y,z,h,u,v,w; bare: x,y,z,h only (mirror
        # passes need u,v,w: see ASSUMPTIONS)
        kind = draw(st.sampled_from(
            ['full', 'full', 'full', 'uvw'] if has_mirror else
            ['full', 'full', 'full', 'uvw', 'bare']))
        consts = {}
        if draw(st.integers(0, 3)) == 0:
            consts['c0'] = [float(draw(st.integers(-3, 3)))
                            for _ in range(draw(st.integers(1, 3)))]
        out = None
        if draw(st.integers(0, 3)) == 0:
            out = draw(st.permutations(['x', 'y', 'z', 'h', 'uid']))[
                :draw(st.integers(0, 5))]
        arrays.append(dict(name='a%d' % i, n=n, extra=extra, kind=kind,
                           consts=consts, out=out))
    all_uvw = all(a['kind'] != 'bare' for a in arrays)

    def draw_copy(extra, uvw=True):
        c = ['x', 'y', 'z', 'h', 'uid']
        if uvw and draw(st.integers(0, 3)) > 0:
            c += ['u', 'v', 'w']
        c += [e for e in extra if draw(st.booleans())]
        for sp in ('tag', 'gid', 'pid'):
            if draw(st.integers(0, 4)) == 0:
                c.append(sp)
        return draw(st.permutations(c))

    if pmode == 'list':
        cp = draw_copy(common, all_uvw)
        for a in arrays:
            a['copy'] = list(cp)
    elif pmode == 'dict':
        for a in arrays:
            a['copy'] = list(draw_copy(a['extra'], a['kind'] != 'bare'))
    else:
        for a in arrays:
            a['copy'] = None
    # ---- initial values of non-geometric properties
    for a in arrays:
        n = a['n']
        vals = {}
        if a['kind'] != 'bare':
            for k in VEL:
                vals[k] = [float(draw(st.integers(-3, 3))) for _ in range(n)]
        for e in a['extra']:
            ct, stride, _ = EXTRA[e]
            if ct in ('double', 'float'):
                vals[e] = [draw(st.integers(-8, 8)) * 0.5
                           for _ in range(n * stride)]
            elif ct == 'unsigned int':
                vals[e] = [draw(st.integers(0, 9)) for _ in range(n * stride)]
            else:
                vals[e] = [draw(st.integers(-9, 9))
                           for _ in range(n * stride)]
        if draw(st.integers(0, 3)) == 0:
            vals['gid'] = list(range(100 * len(vals), 100 * len(vals) + n))
        a['vals'] = vals
    # ---- rounds
    nrounds = draw(st.integers(1, 5))
    rounds = []
    cur_h = None
    cur_n = [a['n'] for a in arrays]
    # an empty array forces the bare DomainManager (see ASSUMPTIONS): only
    # then may an edit empty an array
    may_empty = driver == 'dm' or any(n == 0 for n in cur_n)
    hmax = None

    def draw_pos(pool):
        if pool and draw(st.integers(0, 7)) == 0:
            return list(draw(st.sampled_from(pool)))
        p = [0.0] * 3
        for ax in range(dim):
            p[ax] = _draw_coord(draw, flags[ax], lo[ax], hi[ax], T)
        return p

    for r in range(nrounds):
        rd = dict(h=None, pos=None, update_nnps=draw(st.booleans()),
                  add_prop=None, edit=None, rewire=None, parallel=False)
        # -- real particles removed / added while the ghosts of the previous
        #    round are in the arrays
        if r > 0 and draw(st.integers(0, 2)) == 0:
            edit = []
            for i, a in enumerate(arrays):
                n = cur_n[i]
                if draw(st.integers(0, 3)) == 0:
                    edit.append(None)
                    continue
                how = draw(st.sampled_from(['none', 'some', 'some', 'all',
                                            'first', 'last']))
                if n == 0 or how == 'none':
                    rem = []
                elif how == 'all':
                    rem = list(range(n))
                elif how == 'first':
                    rem = [0]
                elif how == 'last':
                    rem = [n - 1]
                else:
                    rem = sorted(draw(st.sets(st.integers(0, n - 1),
                                              max_size=n)))
                nadd = draw(st.sampled_from([0, 0, 1, 2, 3, 6]))
                if n - len(rem) + nadd > 40:
                    nadd = 0
                if n - len(rem) + nadd == 0 and not may_empty:
                    nadd = 1
                adds = []
                for _ in range(nadd):
                    ad = dict(hf=draw(st.sampled_from([1.0, 1.0, 0.5, 0.75,
                                                       0.3])))
                    if a['kind'] != 'bare':
                        ad['uvw'] = [float(draw(st.integers(-3, 3)))
                                     for _ in range(3)]
                    adds.append(ad)
                edit.append(dict(remove=rem, add=adds))
                keep = [j for j in range(n) if j not in rem]
                cur_h[i] = [cur_h[i][j] for j in keep] + \
                    [hmax * ad['hf'] for ad in adds]
                cur_n[i] = len(cur_h[i])
            if any(e is not None for e in edit):
                rd['edit'] = edit
        if r == 0 or draw(st.integers(0, 2)) > 0:
            # cell size / shortest flagged edge (>= 0.08 keeps the NNPS
            # grids small); T = n_layers * cell reaches 1.8 edges
            cfrac = draw(st.sampled_from([0.08, 0.1, 0.125, 0.125, 0.2,
                                          0.25, 0.3, 0.5, 0.6]))
            hmax = cfrac * lref / rs
            hs = []
            for i, a in enumerate(arrays):
                hs.append([hmax * draw(st.sampled_from(
                    [1.0, 1.0, 0.5, 0.75, 0.3])) for _ in range(cur_n[i])])
            rd['h'] = hs
            cur_h = [list(h) for h in hs]
        allh = [h for hh in cur_h for h in hh]
        T = nl_eff * (rs * max(allh)) if allh else lref
        pool = []
        if rd['edit'] is not None:
            for i, ed in enumerate(rd['edit']):
                if ed is None:
                    continue
                for k, ad in enumerate(ed['add']):
                    ad['h'] = cur_h[i][cur_n[i] - len(ed['add']) + k]
                    del ad['hf']
                    ad['pos'] = draw_pos(pool)
                    pool.append(ad['pos'])
        if r == 0 or draw(st.integers(0, 3)) > 0:
            pos = []
            for i, a in enumerate(arrays):
                pp = []
                for j in range(cur_n[i]):
                    p = draw_pos(pool)
                    pp.append(p)
                    pool.append(p)
                pos.append(pp)
            # r > 0: move only some arrays
            if r > 0 and narr > 1 and draw(st.booleans()):
                keep = draw(st.integers(0, narr - 1))
                pos[keep] = None
            rd['pos'] = pos
        if r > 0 and draw(st.integers(0, 5)) == 0:
            rd['add_prop'] = dict(array=draw(st.integers(0, narr - 1)),
                                  value=float(draw(st.integers(1, 5))))
        if r > 0:
            k = draw(st.integers(0, 11))
            if k < 4:
                # the objects around the arrays are replaced before the
                # update: a new NNPS (new wrappers) on the same
                # DomainManager; new array objects holding the same
                # particles (without / with the old ghosts) handed to the
                # same DomainManager (Interpolator.update_particle_arrays);
                # a new DomainManager on arrays that still hold the ghosts
                # of the old one
                rd['rewire'] = ['nnps_new', 'arrays_new',
                                'arrays_new_ghosts', 'dm_new'][k]
            elif k == 4:
                # set_in_parallel(True): the update must leave the arrays
                # alone (ghosts are the parallel manager's business)
                rd['parallel'] = True
        rounds.append(rd)
    given = [bool(flags[a] != 'n' or draw(st.booleans()))
             for a in range(3)]
    fs = ''.join(flags)
    md = 'mixed' if ('p' in fs and 'm' in fs) else (
        'periodic' if 'p' in fs else 'mirror')
    return dict(dim=dim, flags=fs, lo=lo, hi=hi, given=given,
                n_layers=n_layers, radius_scale=rs, props_mode=pmode,
                backend=backend, arrays=arrays, rounds=rounds, driver=driver,
                _klass=dict(mode=md))


def _draw_coord(draw, flag, lo, hi, T):
    L = hi - lo
    if flag == 'n':
        return lo + (draw(st.integers(-8, 24)) / 16.0) * L
    kinds = ['lat', 'lat', 'lat', 'in', 'lo', 'hi', 'lo+', 'hi-', 'thr',
             'thr']
    if flag == 'p':
        kinds += ['lo-', 'hi+', 'out-', 'out+', 'lo-', 'hi+']
    k = draw(st.sampled_from(kinds))
    if k == 'lat':
        v = lo + (draw(st.integers(0, 16)) / 16.0) * L
    elif k == 'in':
        v = lo + draw(st.floats(0.0, 1.0)) * L
    elif k == 'lo':
        return lo
    elif k == 'hi':
        return hi
    elif k == 'lo+':
        return _next(lo, True)
    elif k == 'hi-':
        return _next(hi, False)
    elif k == 'lo-':
        return _next(lo, False)
    elif k == 'hi+':
        return _next(hi, True)
    elif k == 'thr':
        d = draw(st.sampled_from([0.0, 1e-9, -1e-9, 1e-6, -1e-6])) * L
        if draw(st.booleans()):
            v = lo + (T + d)
        else:
            v = hi - (T + d)
    elif k == 'out-':
        return lo - (draw(st.integers(1, 15)) / 16.0) * L
    else:
        return hi + (draw(st.integers(1, 15)) / 16.0) * L
    return min(max(v, lo), hi)


# ------------------------------------------------------------------- oracle
def _ulp(*xs):
    return math.ulp(max(abs(x) for x in xs))


def all_props(a, added):
    """name -> (ctype, stride, default) for every property of array `a`."""
    p = {}
    kind = a.get('kind', 'full')
    names = ('x', 'y', 'z', 'h')
    if kind != 'bare':
        names += ('u', 'v', 'w')
    if kind == 'full':
        names += ('m', 'rho', 'p', 'au', 'av', 'aw')
    for k in names:
        p[k] = ('double', 1, 0.0)
    p['tag'] = ('int', 1, 0)
    p['pid'] = ('int', 1, 0)
    p['gid'] = ('unsigned int', 1, UINT_MAX)
    p['uid'] = ('int', 1, -1)
    for e in a['extra']:
        p[e] = EXTRA[e]
    for nm, dflt in added:
        p[nm] = ('double', 1, dflt)
    return p


NPTYPE = {'double': 'float64', 'float': 'float32', 'int': 'int32',
          'long': 'int64', 'unsigned int': 'uint32'}


def axis_options(flag, p, lo, hi, T, band):
    """Non-identity image operations of one axis for coordinate p.
    -> list of (kind, expected coordinate, required?)"""
    out = []
    if flag == 'n':
        return out
    L = hi - lo
    dlo = p - lo
    dhi = hi - p
    for side, d in (('lo', dlo), ('hi', dhi)):
        if d > T + band:
            continue
        req = d <= T - band
        if flag == 'p':
            e = p + L if side == 'lo' else p - L
            out.append(('P' + side, e, req))
        else:
            e = p + (-2 * (p - lo)) if side == 'lo' else p + 2 * (hi - p)
            out.append(('M' + side, e, req))
    return out


def enumerate_images(case, pos, T):
    """pos: 3 floats of a real particle (after wrapping).
    -> list of dict(pos=[3], ops=(op per axis or None), req=bool)"""
    flags, lo, hi = case['flags'], case['lo'], case['hi']
    per_axis = []
    for a in range(3):
        if flags[a] == 'n':
            per_axis.append([(None, pos[a], True)])
            continue
        L = hi[a] - lo[a]
        band = 1e-12 * L + 4 * _ulp(lo[a], hi[a], T)
        per_axis.append([(None, pos[a], True)] +
                        axis_options(flags[a], pos[a], lo[a], hi[a], T,
                                     band))
    imgs = []
    for combo in itertools.product(*per_axis):
        ops = tuple(c[0] for c in combo)
        if all(o is None for o in ops):
            continue
        imgs.append(dict(pos=[c[1] for c in combo], ops=ops,
                         req=all(c[2] for c in combo)))
    return imgs


class Model(object):
    """Record model of the real particles of every array."""

    def __init__(self, case):
        import numpy as np
        self.case = case
        self.added = [[] for _ in case['arrays']]
        self.n = [a['n'] for a in case['arrays']]
        self.next_uid = list(self.n)
        self.vals = []
        for a in case['arrays']:
            n = a['n']
            v = {}
            for nm, (ct, stride, dflt) in all_props(a, []).items():
                arr = np.empty((n, stride), dtype=NPTYPE[ct])
                arr[:] = dflt
                v[nm] = arr
            v['uid'][:, 0] = np.arange(n)
            for nm, data in a['vals'].items():
                v[nm][:] = np.array(data, dtype=v[nm].dtype).reshape(
                    n, v[nm].shape[1])
            self.vals.append(v)

    def props(self, i):
        return all_props(self.case['arrays'][i], self.added[i])


def build_arrays(case, model):
    import numpy as np
    from pysph.base.utils import get_particle_array
    from pysph.base.particle_array import ParticleArray
    pas = []
    r0 = case['rounds'][0]
    for i, a in enumerate(case['arrays']):
        n = a['n']
        v = model.vals[i]
        pos = np.array(r0['pos'][i], dtype=float).reshape(n, 3)
        v['x'][:, 0] = pos[:, 0]
        v['y'][:, 0] = pos[:, 1]
        v['z'][:, 0] = pos[:, 2]
        v['h'][:, 0] = np.array(r0['h'][i], dtype=float)
        kind = a.get('kind', 'full')
        kw = dict((k, v[k][:, 0].copy()) for k in
                  ('x', 'y', 'z', 'h', 'u', 'v', 'w') if k in v)
        if kind == 'full':
            pa = get_particle_array(name=a['name'], **kw)
        else:
            pa = ParticleArray(name=a['name'], **kw)
        pa.add_property('uid', type='int', default=-1,
                        data=v['uid'][:, 0].copy())
        for e in a['extra']:
            ct, stride, dflt = EXTRA[e]
            if e == 'm':
                # already there (default property); set default/data
                pa.add_property('m', type=ct, default=dflt,
                                data=v[e].ravel().copy())
            else:
                pa.add_property(e, type=ct, default=dflt, stride=stride,
                                data=v[e].ravel().copy())
        if 'gid' in a['vals']:
            pa.gid[:] = v['gid'][:, 0]
        for cn, cv in sorted(a.get('consts', {}).items()):
            pa.add_constant(cn, np.array(cv, dtype=float))
        if a.get('out') is not None:
            pa.set_output_arrays(list(a['out']))
        pas.append(pa)
    return pas


def counts_by_round(case):
    """Number of real particles of every array in every round."""
    cur = [a['n'] for a in case['arrays']]
    out = []
    for rd in case['rounds']:
        ed = rd.get('edit')
        if ed is not None:
            for i, e in enumerate(ed):
                if e is not None:
                    cur[i] += len(e['add']) - len(e['remove'])
        out.append(list(cur))
    return out


def apply_edit(pa, model, i, ed):
    """Remove / add real particles of array i (which holds the ghosts of the
    previous update) through the public ParticleArray calls and bring the
    model in line: the expected records are the old ones of the survivors
    plus the new ones, in the order the array now holds them.
    -> None or a description of what ParticleArray got wrong."""
    import numpy as np
    v = model.vals[i]
    n = model.n[i]
    pr = model.props(i)
    exp = {}
    rem = set(ed['remove'])
    for j in range(n):
        if j not in rem:
            exp[int(v['uid'][j, 0])] = dict((nm, v[nm][j].copy())
                                            for nm in pr)
    if ed['remove']:
        pa.remove_particles(list(ed['remove']))
    if ed['add']:
        k = len(ed['add'])
        uids = list(range(model.next_uid[i], model.next_uid[i] + k))
        model.next_uid[i] += k
        kw = dict(x=np.array([ad['pos'][0] for ad in ed['add']]),
                  y=np.array([ad['pos'][1] for ad in ed['add']]),
                  z=np.array([ad['pos'][2] for ad in ed['add']]),
                  h=np.array([ad['h'] for ad in ed['add']]),
                  uid=np.array(uids, dtype=np.int32))
        if 'u' in pr:
            for c, nm in enumerate(VEL):
                kw[nm] = np.array([ad['uvw'][c] for ad in ed['add']])
        pa.add_particles(**kw)
        for t, uid in enumerate(uids):
            rec = {}
            for nm, (ct, stride, dflt) in pr.items():
                a = np.empty(stride, dtype=NPTYPE[ct])
                a[:] = dflt
                if nm in kw:
                    a[0] = kw[nm][t]
                rec[nm] = a
            exp[uid] = rec
    ntot, nreal, obs, bad = read_array(pa)
    if bad:
        return '; '.join(bad)
    if nreal != len(exp):
        return 'num_real_particles=%d, %d expected' % (nreal, len(exp))
    if set(obs) != set(pr):
        return 'properties %s, expected %s' % (sorted(obs), sorted(pr))
    got = [int(u) for u in obs['uid'][:nreal, 0]]
    if sorted(got) != sorted(exp):
        return 'real uids %s, expected %s' % (sorted(got), sorted(exp))
    if np.any(obs['tag'][:nreal, 0] != 0) or \
            np.any(obs['tag'][nreal:, 0] != GHOST):
        return 'tags %s' % obs['tag'][:, 0].tolist()
    newv = {}
    for nm, (ct, stride, dflt) in pr.items():
        arr = np.empty((nreal, stride), dtype=NPTYPE[ct])
        for j, uid in enumerate(got):
            arr[j] = exp[uid][nm]
        if not _beq(arr, obs[nm][:nreal]):
            return 'property %s of the real particles is %s, expected %s' % (
                nm, obs[nm][:nreal].tolist(), arr.tolist())
        newv[nm] = arr
    model.vals[i] = newv
    model.n[i] = nreal
    return None


def read_array(pa):
    """-> (n_total, num_real, {prop: ndarray (n_total, stride)})"""
    import numpy as np
    ntot = pa.get_number_of_particles()
    out = {}
    bad = []
    for nm, ca in pa.properties.items():
        arr = np.array(ca.get_npy_array(), copy=True)
        stride = pa.stride.get(nm, 1)
        if arr.size != ntot * stride:
            bad.append('%s has %d values for %d particles (stride %d)' % (
                nm, arr.size, ntot, stride))
            continue
        out[nm] = arr.reshape(ntot, stride)
    return ntot, pa.num_real_particles, out, bad


def _beq(a, b):
    return a.dtype == b.dtype and a.tobytes() == b.tobytes()


def check(case):
    import numpy as np
    from pysph.base.nnps import DomainManager, LinkedListNNPS, \
        SpatialHashNNPS, BoxSortNNPS
    from pysph.base.nnps_base import NNPSParticleArrayWrapper
    from cyarray.api import UIntArray
    labels = set()
    fails = []
    flags, lo, hi = case['flags'], case['lo'], case['hi']
    arrays = case['arrays']
    narr = len(arrays)
    nl, rs = case['n_layers'], case['radius_scale']
    has_p = 'p' in flags
    has_m = 'm' in flags
    mode = 'mixed' if (has_p and has_m) else ('periodic' if has_p
                                              else 'mirror')
    if mode == 'mixed':
        labels.add('mixed_periodic_mirror')
    if max(abs(v) for v in lo + hi) >= 500 * max(
            hi[a] - lo[a] for a in range(3) if flags[a] != 'n'):
        labels.add('far_origin')
    counts = counts_by_round(case)
    if any(n == 0 for cn in counts for n in cn):
        labels.add('empty_array')
    labels.add('props_' + case['props_mode'])
    for a in arrays:
        if a['copy'] is not None and any(
                EXTRA.get(c, (0, 1))[1] > 1 for c in a['copy']):
            labels.add('strided_copied')
        if a['copy'] is None and any(EXTRA[e][1] > 1 for e in a['extra']):
            labels.add('strided_copied')
        if a.get('kind', 'full') != 'full':
            labels.add('plain_array')
        if a.get('kind', 'full') == 'bare':
            labels.add('bare_array')
        if a.get('consts'):
            labels.add('constants')
    if nl is None:
        labels.add('n_layers_default')
        nl = 2.0                 # the documented default of the signature
    if case.get('backend'):
        labels.add('backend_explicit')

    model = Model(case)
    driver = case['driver']
    if any(n == 0 for cn in counts for n in cn):
        # an empty array feeds min = max = 0 into the bounds of the NNPS
        # (C01 territory: with a far origin the cell count overflows)
        driver = 'dm'
    labels.add('driver:' + driver)

    def fail(kind, detail, klass=None, expected=None, observed=None):
        kl = dict(klass or {})
        if 'stale_hmax' not in kl:
            kl['mode'] = mode
        fails.append(Failure('DomainManager.update', kind, detail, kl,
                             expected=expected, observed=observed))

    # ---------------------------------------------------------- set-up
    kw = {}
    for a in range(3):
        if case['given'][a] or flags[a] != 'n':
            kw[AX[a] + 'min'] = lo[a]
            kw[AX[a] + 'max'] = hi[a]
        if flags[a] == 'p':
            kw['periodic_in_' + AX[a]] = True
        if flags[a] == 'm':
            kw['mirror_in_' + AX[a]] = True
    if case['n_layers'] is not None:
        kw['n_layers'] = case['n_layers']
    if case.get('backend'):
        kw['backend'] = case['backend']

    def make_props():
        if case['props_mode'] == 'list':
            return list(arrays[0]['copy'])
        elif case['props_mode'] == 'dict':
            return dict((a['name'], list(a['copy'])) for a in arrays)
        return None

    def wire(dm, pas):
        """Hand the arrays to the domain manager (through a new NNPS of the
        driver's class or directly) and run the first update.  -> nnps"""
        if driver == 'dm':
            dm.set_pa_wrappers([NNPSParticleArrayWrapper(pa)
                                for pa in pas])
            dm.set_radius_scale(rs)
            dm.update()
            return None
        elif driver == 'll':
            return LinkedListNNPS(dim=3, particles=pas, domain=dm,
                                  radius_scale=rs)
        elif driver == 'bs':
            return BoxSortNNPS(dim=3, particles=pas, domain=dm,
                               radius_scale=rs)
        return SpatialHashNNPS(dim=case['dim'], particles=pas,
                               domain=dm, radius_scale=rs)

    def side_state(pa):
        return (dict((k, np.array(c.get_npy_array(), copy=True).tolist())
                     for k, c in pa.constants.items()),
                list(pa.output_property_arrays), pa.name)

    nnps = None
    # (a failure of our own construction is a harness error, not caught)
    pas = build_arrays(case, model)
    dm = DomainManager(props=make_props(), **kw)
    nontrivial = False
    prev_ghost_h = []          # h of the ghosts left by the previous round
    for r, rd in enumerate(case['rounds']):
        # ------------------------------------------------ apply the round
        if r > 0:
            if rd.get('edit') is not None:
                bad = None
                for i, ed in enumerate(rd['edit']):
                    if ed is None:
                        continue
                    n0 = model.n[i]
                    bad = apply_edit(pas[i], model, i, ed)
                    if bad:
                        fail('edit_bookkeeping', 'round %d array %d: after '
                             'remove_particles(%s) + add_particles(%d) on the '
                             'ghosted array: %s' % (r, i, ed['remove'],
                                                    len(ed['add']), bad),
                             dict(later_array=bool(i > 0)))
                        break
                    labels.add('resized')
                    if n0 and not model.n[i]:
                        labels.add('emptied')
                    if model.n[i] and not n0:
                        labels.add('refilled')
                    if model.n[i] > n0:
                        labels.add('grown')
                    if ed['remove'] and model.n[i]:
                        labels.add('shrunk_partly')
                if bad:
                    break
            if rd['h'] is not None:
                for i in range(narr):
                    n = model.n[i]
                    newh = np.array(rd['h'][i], dtype=float)
                    if n and not np.array_equal(newh,
                                                model.vals[i]['h'][:, 0]):
                        labels.add('h_change')
                    model.vals[i]['h'][:, 0] = newh
                    pas[i].get_carray('h').get_npy_array()[:n] = newh
            if rd['pos'] is not None:
                for i in range(narr):
                    if rd['pos'][i] is None:
                        continue
                    n = model.n[i]
                    pos = np.array(rd['pos'][i], dtype=float).reshape(n, 3)
                    for ax in range(3):
                        model.vals[i][AX[ax]][:, 0] = pos[:, ax]
                        pas[i].get_carray(AX[ax]).get_npy_array()[:n] = \
                            pos[:, ax]
            if rd['add_prop'] is not None:
                i = rd['add_prop']['array']
                nm = 'late%d' % r
                val = rd['add_prop']['value']
                n = model.n[i]
                pas[i].add_property(nm, default=val)
                model.added[i].append((nm, val))
                arr = np.empty((n, 1))
                arr[:] = val
                # give the real particles distinct values
                arr[:, 0] += np.arange(n)
                pas[i].get_carray(nm).get_npy_array()[:n] = arr[:, 0]
                model.vals[i][nm] = arr
                # (never in a props list: ghosts must carry its default;
                # with props=None it must be copied like any other)
                labels.add('prop_added_midway')
        # labels on the input of this round
        for i in range(narr):
            v = model.vals[i]
            n = model.n[i]
            for ax in range(3):
                if flags[ax] == 'n' or n == 0:
                    continue
                c = v[AX[ax]][:, 0]
                if np.any((c == lo[ax]) | (c == hi[ax])):
                    labels.add('on_face')
                if np.any((c == _next(lo[ax], False)) |
                          (c == _next(hi[ax], True))):
                    labels.add('ulp_outside')
        allpos = [tuple(model.vals[i][k][j, 0] for k in AX)
                  for i in range(narr) for j in range(model.n[i])]
        if len(set(allpos)) < len(allpos):
            labels.add('coincident')
        total = sum(model.n)
        before = [dict((k, a.copy()) for k, a in model.vals[i].items())
                  for i in range(narr)]
        rewire = rd.get('rewire') if r > 0 else None
        parallel = bool(rd.get('parallel')) and r > 0
        if rewire in ('arrays_new', 'arrays_new_ghosts'):
            # new array objects holding the same particles (as when the
            # arrays are re-read from a file), the old ghosts included or not
            newpas = []
            for i, pa in enumerate(pas):
                cnt = pa.get_number_of_particles() \
                    if rewire == 'arrays_new_ghosts' else model.n[i]
                newpas.append(pa.extract_particles(np.arange(cnt)))
            pas = newpas
        elif rewire == 'dm_new':
            dm = DomainManager(props=make_props(), **kw)
        if rewire:
            labels.add('rewire:' + rewire)
        side = [side_state(pa) for pa in pas]
        if parallel:
            snap = [read_array(pa) for pa in pas]
        # ------------------------------------------------------- update
        try:
            if r == 0 or rewire:
                nnps = None
                nnps = wire(dm, pas)
            elif parallel:
                if nnps is None:
                    dm.set_in_parallel(True)
                    dm.update()
                    dm.set_in_parallel(False)
                else:
                    nnps.set_in_parallel(True)
                    nnps.update_domain()
                    nnps.set_in_parallel(False)
            else:
                if nnps is None:
                    dm.update()
                else:
                    nnps.update_domain()
            if nnps is not None and r > 0 and rd['update_nnps'] and \
                    not parallel:
                nnps.update()
        except Exception as ex:
            if isinstance(ex, RuntimeError) and 'too many cells' in str(ex):
                # documented capacity limit of the NNPS grid (raised while
                # binning, i.e. after the domain update has run): go on
                # with the bare DomainManager, which NNPSBase.__init__ has
                # already wired to the arrays
                labels.add('nnps_capacity')
                nnps = None
            else:
                fail('exception', 'round %d: %r' % (r, ex))
                break
        # constants, output list and name belong to the array, not to the
        # particles: an update has no business with them
        bad = None
        for i, pa in enumerate(pas):
            if side_state(pa) != side[i]:
                bad = 'round %d array %d: constants / output arrays / name ' \
                    'changed from %r to %r' % (r, i, side[i], side_state(pa))
                break
        if bad:
            fail('array_state_changed', bad)
            break
        if parallel:
            # "In parallel, it is expected that the appropriate parallel
            # NNPS is responsible for the creation of ghost particles":
            # the arrays (old ghosts included) are left exactly as they are
            labels.add('in_parallel')
            bad = None
            for i, pa in enumerate(pas):
                now = read_array(pa)
                if now[0] != snap[i][0] or now[1] != snap[i][1] or \
                        now[3] or set(now[2]) != set(snap[i][2]) or any(
                            not _beq(now[2][k], snap[i][2][k])
                            for k in now[2]):
                    bad = 'round %d array %d: update() with in_parallel ' \
                        'set changed the array (%d -> %d particles, ' \
                        '%d -> %d real)' % (r, i, snap[i][0], now[0],
                                            snap[i][1], now[1])
                    break
            if bad:
                fail('parallel_touched', bad)
                break
            continue
        # ---------------------------------------------------- threshold
        hs = [model.vals[i]['h'][:, 0] for i in range(narr)
              if model.n[i]]
        hmax = max(float(h.max()) for h in hs) if hs else 0.0
        T = nl * (rs * hmax)
        stale = max([hmax] + prev_ghost_h)
        T_stale = nl * (rs * stale)
        for ax in range(3):
            if flags[ax] != 'n' and 2 * T > hi[ax] - lo[ax]:
                labels.add('thin_box')
            if flags[ax] != 'n' and T > hi[ax] - lo[ax] and total:
                labels.add('layer_wider_than_box')
        # --------------------------------------------------- read back
        arrays_with_ghosts = 0
        mirror_arrays = 0
        round_corner = False
        round_wrapped = False
        obs_all = []
        new_ghost_h = []
        stop = False
        for i in range(narr):
            a = arrays[i]
            n = model.n[i]
            ntot, nreal, obs, bad = read_array(pas[i])
            obs_all.append(obs)
            kl = dict(later_array=bool(i > 0))
            if bad:
                fail('incoherent_array', 'round %d array %d: %s' % (
                    r, i, '; '.join(bad)), kl)
                stop = True
                break
            pr = model.props(i)
            if set(obs) != set(pr):
                fail('property_set', 'round %d array %d: properties %s, '
                     'expected %s' % (r, i, sorted(obs), sorted(pr)), kl)
                stop = True
                break
            if nreal != n or ntot < n:
                fail('num_real', 'round %d array %d: num_real_particles=%d '
                     'total=%d, %d real particles expected' % (
                         r, i, nreal, ntot, n), kl)
                stop = True
                break
            tags = obs['tag'][:, 0]
            if np.any(tags[:n] != 0) or np.any(tags[n:] != GHOST):
                fail('tag', 'round %d array %d: tags %s (first %d must be '
                     'Local=0, the rest Ghost=2)' % (r, i, tags.tolist(),
                                                     n), kl)
                stop = True
                break
            # ------------------------------------------- real particles
            bf = before[i]
            for nm in pr:
                if nm in AX and flags[AX.index(nm)] == 'p':
                    continue
                if not _beq(obs[nm][:n], bf[nm]):
                    j = [jj for jj in range(n) if not _beq(
                        obs[nm][jj], bf[nm][jj])][0]
                    fail('real_changed', 'round %d array %d particle %d: '
                         'property %s changed from %s to %s' % (
                             r, i, j, nm, bf[nm][j].tolist(),
                             obs[nm][j].tolist()), kl)
                    stop = True
                    break
            if stop:
                break
            for ax in range(3):
                if flags[ax] != 'p':
                    continue
                L = hi[ax] - lo[ax]
                for j in range(n):
                    p0 = float(bf[AX[ax]][j, 0])
                    p1 = float(obs[AX[ax]][j, 0])
                    tol = 4 * _ulp(p0, lo[ax], hi[ax])
                    inside = lo[ax] - tol <= p1 <= hi[ax] + tol
                    cong = any(abs(p1 - (p0 + k * L)) <= tol
                               for k in (-1, 0, 1))
                    if p1 != p0:
                        round_wrapped = True
                    if lo[ax] <= p0 <= hi[ax] and p1 != p0:
                        fail('real_changed', 'round %d array %d particle '
                             '%d: %s=%r lies inside [%r,%r] but was moved '
                             'to %r' % (r, i, j, AX[ax], p0, lo[ax], hi[ax],
                                        p1), kl)
                        stop = True
                        break
                    if not inside or not cong:
                        fail('not_wrapped', 'round %d array %d particle %d:'
                             ' %s=%r with box [%r,%r] became %r (%s)' % (
                                 r, i, j, AX[ax], p0, lo[ax], hi[ax], p1,
                                 'outside the box' if not inside else
                                 'not the old position modulo the period'),
                             kl)
                        stop = True
                        break
                if stop:
                    break
            if stop:
                break
            # the model follows the (verified) wrapped positions
            for ax in range(3):
                model.vals[i][AX[ax]][:, 0] = obs[AX[ax]][:n, 0]
            # --------------------------------------------------- ghosts
            ng = ntot - n
            if ng:
                arrays_with_ghosts += 1
                new_ghost_h += obs['h'][n:, 0].tolist()
            res = match_ghosts(case, i, model, obs, n, ntot, T, pr)
            if res['corner']:
                round_corner = True
                labels.add('corner_image')
            if res['corner3']:
                labels.add('corner3_image')
            if res['band']:
                labels.add('threshold_band')
            if res['mirror_ghosts']:
                mirror_arrays += 1
            if res['problems']:
                what = '+'.join(sorted(set(p[0] for p in res['problems'])))
                kl['what'] = what
                if what == 'extra' and r > 0 and T_stale > T:
                    res2 = match_ghosts(case, i, model, obs, n, ntot,
                                        T_stale, pr)
                    if not res2['problems']:
                        # root cause named; nothing else in the class
                        kl = dict(stale_hmax=True)
                fail('ghost_mismatch', 'round %d array %d (T=%r, L=%s): %s'
                     % (r, i, T, [hi[a_] - lo[a_] for a_ in range(3)],
                        '; '.join(p[1] for p in res['problems'][:6])), kl,
                     expected='%d required + %d optional images' % (
                         res['n_req'], res['n_opt']),
                     observed='%d ghosts' % ng)
                stop = True
                break
        if stop:
            break
        prev_ghost_h = [max(new_ghost_h)] if new_ghost_h else []
        if mirror_arrays >= 2:
            labels.add('mirror_2arrays')
        if round_wrapped:
            labels.add('wrapped')
        if round_corner or round_wrapped or arrays_with_ghosts >= 2:
            nontrivial = True
        # ----------------------------------------------- completeness
        if mode == 'periodic' and total and all(
                hi[a] - lo[a] >= 2 * T for a in range(3)
                if flags[a] == 'p'):
            if nnps is not None and driver == 'll':
                try:
                    nnps.update()
                except Exception as ex:
                    if isinstance(ex, RuntimeError) and \
                            'too many cells' in str(ex):
                        labels.add('nnps_capacity')
                        nnps = None
                    else:
                        fail('exception', 'round %d NNPS.update: %r' % (
                            r, ex))
                        break
            msg = completeness(case, model, obs_all, rs,
                               nnps if driver == 'll' else None, UIntArray)
            labels.add('completeness_checked')
            if msg:
                fail('completeness', 'round %d: %s' % (r, msg))
                break
    return fails, sorted(labels), nontrivial


def match_ghosts(case, i, model, obs, n, ntot, T, pr):
    """Compare the ghosts of array i with the closed-form image set.

    Ghosts and images are grouped by uid; within a group a maximum bipartite
    matching (ghost g -- image im when the position agrees to 4 ulp and the
    whole record is admissible for that image) decides what is missing,
    extra or carries wrong values, so that coincident images (particle on a
    mirror face) cannot be mis-assigned by a greedy choice."""
    a = case['arrays'][i]
    copy = a['copy']
    v = model.vals[i]
    problems = []
    expected = {}
    n_req = n_opt = 0
    corner = False
    corner3 = False
    band = False
    mirror_ghosts = False
    row = {}
    for j in range(n):
        pos = [float(v[k][j, 0]) for k in AX]
        imgs = enumerate_images(case, pos, T)
        row[int(v['uid'][j, 0])] = j
        for im in imgs:
            if im['req']:
                n_req += 1
            else:
                n_opt += 1
                band = True
        # required images first: the matching then prefers them
        imgs.sort(key=lambda m: not m['req'])
        expected[int(v['uid'][j, 0])] = imgs
    groups = {}
    for g in range(n, ntot):
        uid = int(obs['uid'][g, 0])
        gpos = [float(obs[k][g, 0]) for k in AX]
        if uid not in expected:
            problems.append(('extra', 'ghost #%d at %r has uid %d which is '
                             'no real particle' % (g, gpos, uid)))
            continue
        groups.setdefault(uid, []).append(g)
    for uid, imgs in expected.items():
        gl = groups.get(uid, [])
        src = [float(v[k][row[uid], 0]) for k in AX]
        posok = {}
        adj = {}
        why = {}
        for g in gl:
            gpos = [float(obs[k][g, 0]) for k in AX]
            posok[g] = []
            adj[g] = []
            for t, im in enumerate(imgs):
                ok = True
                for ax in range(3):
                    e = im['pos'][ax]
                    if im['ops'][ax] is None:
                        if gpos[ax] != e:
                            ok = False
                    elif abs(gpos[ax] - e) > 4 * _ulp(e, src[ax]):
                        ok = False
                if not ok:
                    continue
                posok[g].append(t)
                w = record_mismatch(im, obs, g, v, row[uid], pr, copy)
                if w is None:
                    adj[g].append(t)
                else:
                    why.setdefault(g, w)
        match_img = {}            # image index -> ghost

        def augment(g, seen):
            for t in adj[g]:
                if t in seen:
                    continue
                seen.add(t)
                if t not in match_img or augment(match_img[t], seen):
                    match_img[t] = g
                    return True
            return False
        # ghosts with fewer admissible images first
        unmatched = []
        for g in sorted(gl, key=lambda g_: len(adj[g_])):
            if not augment(g, set()):
                unmatched.append(g)
        # try to move matched ghosts from optional to free required images
        for t, im in enumerate(imgs):
            if im['req'] and t not in match_img:
                for t2, g in list(match_img.items()):
                    if not imgs[t2]['req'] and t in adj[g]:
                        del match_img[t2]
                        match_img[t] = g
                        break
        for g in unmatched:
            gpos = [float(obs[k][g, 0]) for k in AX]
            if not posok[g]:
                problems.append(('extra', 'ghost #%d of particle %d (at %r) '
                                 'lies at %r which is not one of its %d '
                                 'images' % (g, uid, src, gpos, len(imgs))))
            elif not adj[g]:
                problems.append(('props', 'ghost #%d of particle %d at %r: '
                                 '%s' % (g, uid, gpos, why.get(g))))
            else:
                problems.append(('extra', 'ghost #%d of particle %d at %r '
                                 'duplicates an image that is already '
                                 'present' % (g, uid, gpos)))
        for t, im in enumerate(imgs):
            if t in match_img:
                nops = sum(1 for o in im['ops'] if o is not None)
                if nops >= 2:
                    corner = True
                if nops >= 3:
                    corner3 = True
                if any(o is not None and o[0] == 'M' for o in im['ops']):
                    mirror_ghosts = True
            elif im['req']:
                problems.append(('missing', 'image %s of particle %d (at %r)'
                                 ' expected at %r is absent' % (
                                     [o for o in im['ops'] if o], uid, src,
                                     im['pos'])))
    return dict(problems=problems, corner=corner, corner3=corner3, band=band,
                mirror_ghosts=mirror_ghosts, n_req=n_req, n_opt=n_opt)


def record_mismatch(im, obs, g, v, uid, pr, copy):
    """None if ghost g can be image `im` of real particle uid, else text."""
    import numpy as np
    reflected = [ax for ax in range(3) if im['ops'][ax] is not None and
                 im['ops'][ax][0] == 'M']
    for nm, (ct, stride, dflt) in pr.items():
        if nm in AX or nm == 'tag':
            continue
        got = obs[nm][g]
        srcv = v[nm][uid]
        dfl = np.empty_like(srcv)
        dfl[:] = dflt
        copied = copy is None or nm in copy
        if copied:
            cands = [srcv]
        elif reflected:
            cands = [dfl, srcv]
        else:
            cands = [dfl]
        if nm in VEL and VEL.index(nm) in reflected:
            if not any(float(got[0]) == -float(c[0]) for c in cands):
                return ('%s=%r, expected the reversed value of %s' % (
                    nm, got.tolist(), [c.tolist() for c in cands]))
        else:
            if not any(_beq(got, c) for c in cands):
                return ('%s=%r, expected %s (%s)' % (
                    nm, got.tolist(), [c.tolist() for c in cands],
                    'copied' if copied else 'not copied'))
    return None


def completeness(case, model, obs_all, rs, nnps, UIntArray):
    """Neighbour counts of every real particle over real+ghost particles
    against the counts over all lattice images (purely periodic box)."""
    import numpy as np
    flags, lo, hi = case['flags'], case['lo'], case['hi']
    arrays = case['arrays']
    narr = len(arrays)
    shifts = []
    for a in range(3):
        if flags[a] == 'p':
            L = hi[a] - lo[a]
            shifts.append([-L, 0.0, L])
        else:
            shifts.append([0.0])
    S = np.array(list(itertools.product(*shifts)))        # (k,3)
    big = max(abs(x) for x in lo + hi)
    nbrs = UIntArray() if nnps is not None else None
    for s in range(narr):
        ns = model.n[s]
        if ns == 0:
            continue
        sp = np.column_stack([model.vals[s][k][:, 0] for k in AX])
        sh = model.vals[s]['h'][:, 0]
        lat = (sp[None, :, :] + S[:, None, :]).reshape(-1, 3)
        lath = np.tile(sh, len(S))
        op = np.column_stack([obs_all[s][k][:, 0] for k in AX])
        oh = obs_all[s]['h'][:, 0]
        tol = 8 * math.ulp(max(big, float(np.abs(op).max()), 1e-300))
        for d in range(narr):
            nd = model.n[d]
            for j in range(nd):
                q = np.array([model.vals[d][k][j, 0] for k in AX])
                hq = float(model.vals[d]['h'][j, 0])
                dl = np.sqrt(((lat - q) ** 2).sum(axis=1))
                cl = rs * np.maximum(lath, hq)
                lat_lo = int(np.sum(dl < cl * (1 - 1e-12) - tol))
                lat_hi = int(np.sum(dl <= cl * (1 + 1e-12) + tol))
                do = np.sqrt(((op - q) ** 2).sum(axis=1))
                co = rs * np.maximum(oh, hq)
                o_lo = int(np.sum(do < co * (1 - 1e-12) - tol))
                o_hi = int(np.sum(do <= co * (1 + 1e-12) + tol))
                if o_hi < lat_lo or o_lo > lat_hi:
                    return ('real particle %d of array %d has between %d '
                            'and %d neighbours among the real+ghost '
                            'particles of array %d but between %d and %d '
                            'among all its lattice images' % (
                                j, d, o_lo, o_hi, s, lat_lo, lat_hi))
                if nnps is not None:
                    nnps.get_nearest_particles(s, d, j, nbrs)
                    k = nbrs.length
                    if k < lat_lo or k > lat_hi:
                        return ('LinkedListNNPS returns %d neighbours of '
                                'real particle %d of array %d in array %d; '
                                'the lattice images give between %d and %d'
                                % (k, j, d, s, lat_lo, lat_hi))
    return None


# ------------------------------------------------------------------ driver
def execute(case):
    fails, labels, nt = check(case)
    return Outcome(fails, labels, nt)


def plan(ctx):
    n = 1500 if ctx['tier'] == 'quick' else 60000
    k = 16
    specs = []
    for i in range(k):
        drv = DRIVERS[i % 4]
        md = MODES[i // 4]
        specs.append(dict(name='%s-%s' % (md, drv), driver=drv, mode=md,
                          component='DomainManager.update',
                          max_examples=(n + k - 1) // k))
    return specs


def run_shard(spec, ctx):
    stats = Stats()
    search(case_strategy(spec['driver'], spec['mode']), execute,
           derive_seed(ctx.seed, 'C07', spec['name']),
           spec['max_examples'], stats, shrink=True, journal=ctx.journal)
    return stats.result()


def run_case(case, component, ctx):
    fails, _, _ = check(case)
    return [f.as_dict(case) for f in fails]
