"""C13 - the small dense linear-algebra helpers solve what they are given.

pysph/sph/wc/linalg.py (augmented_matrix, gj_solve, mat_mult, mat_vec_mult,
identity, dot) is exercised exactly the way the equations and the pinned
test call it (flat row-major Python lists, n, nb), *and* in transpiled form:
checks/c13_eqs.py holds one Equation whose `initialize` runs every helper on
strided properties of one particle, so one JIT compile serves every generated
system; the compiled outputs must be bit-identical to the pure-Python ones.
pysph/base/linalg3.pyx is exercised through its Python-callable wrappers.

Oracles
  gj_solve   sigma_min/sigma_max and cond_2 from numpy's SVD of the n x n
             block.  A non-zero return is a violation unless
             sigma_min/sigma_max <= 1e-9 or sigma_min <= 1e-11 (the documented
             absolute literal 1e-12 of gj_solve times n); this contains
             "cond <= 1e8 and ||A|| >= 1e-3 => returns 0".  When it returns 0
             and cond <= 1e8 every column must satisfy
             ||A x - b||_inf <= 1e-11 cond (||A||_inf ||x||_inf + ||b||_inf)
             with the residual evaluated in exact rational arithmetic.
  helpers    augmented_matrix, identity exact; mat_mult, mat_vec_mult, dot
             within (n+1) eps sum|a||b| of numpy; entries outside the
             documented output region untouched.
  transpiled every output bit-identical (NaN == NaN) to the Python run.
  transforms py_transform = P^T A P, py_transform_diag = P^T diag(a) P,
             py_transform_diag_inv = P diag(a) P^T for a general P, within
             32 eps |P|^T|A||P|; py_det against the exact rational value of
             the documented symmetric-matrix formula within 16 eps sum|terms|.
  eigen      V^T V = I to 1e-12, max|A V - V diag(d)| <= 1e-12 ||A||_F,
             sorted d equals numpy.linalg.eigvalsh to 1e-12 ||A||_F,
             transform_diag_inv(d, V) = V diag(d) V^T, input not modified.
"""
import math
import os
import struct
import subprocess
import sys
from fractions import Fraction

from hypothesis import strategies as st

from vlib.hyp import Failure, Outcome, Stats, search, derive_seed

RULE = ('system cases = (n in 1..6, nb in 1..3, nmax in n..6, one of 11 '
        'matrix families: random lattice / random float / diagonally '
        'dominant / row-permuted diagonally dominant / zero or tiny (1e-6..'
        '1e-14) leading pivot with healthy rest / zero or tiny pivot at a '
        'later elimination stage (row-swapped L U) / SPD / rows scaled by '
        '1e-6..1e6 / integer rank n-1 with consistent or inconsistent '
        'right-hand sides / rank n-1 plus a 1e-6..1e-14 perturbation / '
        'fixed textbook matrices / structured: identity, scalar, diagonal, '
        'upper and lower triangular, permutation, permutation x diagonal, '
        'anti-diagonal, hollow (zero diagonal), tridiagonal, row-permuted '
        'triangular, optionally with identity columns as right-hand sides / '
        'columns scaled by 1e-4..1e4 / rank deficient: zero matrix, zero row, '
        'zero column, repeated rows or columns, rank 1, two dependent rows / '
        'pivot choice: at some stage a zero or tiny diagonal with several '
        'larger rows below, the largest not being the last of them; '
        'overall scale 1e-12..1e12), plus operands for '
        'mat_mult, mat_vec_mult, dot. Non-trivial system = plain elimination '
        'without row exchange (run by the oracle) meets a pivot < 1e-6 * '
        'max|column below it| while the matrix is non-singular in the sense '
        'of the oracle (sigma_min/sigma_max > 1e-9). Eigen cases = symmetric '
        '3x3: random, float, diagonal, rank 1/2, exact and rotated double '
        'eigenvalue, triple, nearly diagonal, graded (entries 1 .. 1e-280 in '
        'one matrix), zero, plane (2D tensor embedded along each pair of '
        'axes, third diagonal entry zero / equal to an entry or eigenvalue of '
        'the block / arbitrary), zero diagonal (pure shear, some off-diagonal '
        'entries zero); every eigen case also carries a general 3x3 matrix P '
        'for py_transform, py_transform_diag, py_transform_diag_inv and '
        'py_det; scaled by 1e-8..1e8 (and '
        '1e-150..1e150 in the family "extreme"). Non-trivial eigen case = two '
        'eigenvalues closer than 1e-6 ||A|| (gap-free pair) for a non-zero '
        'matrix. Distinct by case hash.')
ASSUMPTIONS = [
    'a non-zero return of gj_solve is accepted when sigma_min/sigma_max <= '
    '1e-9 or sigma_min <= 1e-11 (absolute literal tolerance 1e-12 of '
    'gj_solve, documented precondition)',
    'for singular input (in that sense) only Python == transpiled is '
    'checked (a ZeroDivisionError of the Python form is labelled, not '
    'failed); the property demands nothing about the returned numbers',
    'the residual bound is applied for cond_2(A) <= 1e8 only',
    'transpiled == Python is required bitwise (NaN equals NaN); both '
    'particles holding the same system must give identical output',
    'linalg3 wrappers are given C-contiguous float64 arrays (they take raw '
    'pointers to the first element)',
    'eigen cases: every non-zero entry is at least 1e-290 * max|A| (an '
    'entry that becomes subnormal after the routine divides by sum|A| makes '
    'the EISPACK shift overflow; treated as outside the domain), and max|A| '
    '>= 1e-280 or A = 0',
    'py_det is compared for max|A| in [1e-90, 1e90] (or A = 0) only: a '
    'product of three entries must stay in the normal range',
    'py_get_eigenvalues / py_get_eigenvector (closed-form helpers no shipped '
    'equation uses, no stated accuracy) are not asserted',
    'py_get_eigenvalvec is checked as its own component; the solid-mechanics '
    'equations use eigen_decomposition (py_eigen_decompose_eispack) and '
    'transform_diag_inv only',
]
ESSENTIAL_LABELS = {'all': [
    'fam:random', 'fam:float', 'fam:dd', 'fam:perm_dd', 'fam:lead_pivot',
    'fam:stage_pivot', 'fam:spd', 'fam:row_scaled', 'fam:singular',
    'fam:near_singular', 'fam:fixed',
    'needs_exchange', 'zero_pivot_noexch', 'must_succeed', 'residual_checked',
    'returned_nonzero', 'singular_consistent', 'singular_inconsistent',
    'nmax_gt_n', 'n=1', 'n=6', 'nb=3', 'transpiled_compared',
    'eig:random', 'eig:float', 'eig:diagonal', 'eig:rank1', 'eig:rank2',
    'eig:double_exact', 'eig:double_rot', 'eig:triple', 'eig:nearly_diag',
    'eig:zero', 'eig:extreme', 'eig:graded', 'eig_tiny_entry',
    'eig_gap_free', 'eig_scaled_small', 'eig_scaled_large',
    'fam:structured', 'fam:col_scaled', 'fam:rank_def', 'fam:pivot_choice',
    'scale_big',
    'scale_small', 'rhs_identity_columns', 'inverse',
    'struct:identity', 'struct:scalar', 'struct:diagonal', 'struct:upper',
    'struct:lower', 'struct:perm', 'struct:perm_diag', 'struct:antidiag',
    'struct:hollow', 'struct:tridiag', 'struct:perm_upper',
    'struct:perm_lower',
    'rankdef:zero', 'rankdef:zero_row', 'rankdef:zero_col',
    'rankdef:dup_rows', 'rankdef:dup_cols', 'rankdef:rank1',
    'rankdef:two_dependent_rows',
    'eig:plane', 'eig:zero_diag', 'transforms_checked', 'det_checked']}

VERIF = os.path.dirname(os.path.dirname(os.path.abspath(__file__)))
NMAX, NBMAX = 6, 3
SA, SB, SM = 36, 18, 54
SENT = -7.25          # sentinel for "must stay untouched"
EPS = 2.0 ** -52
EIG_MIN_RATIO = 1e-290

# Textbook systems ([A], [b]); several need a row exchange.
FIXED = [
    ([[0.0, 1.0], [1.0, 0.0]], [2.0, 3.0]),
    ([[1e-10, 1.0], [1.0, 1.0]], [1.0, 2.0]),
    ([[0.0, 2.0, 1.0], [1.0, 1.0, 0.0], [2.0, 0.0, 3.0]], [1.0, 2.0, 3.0]),
    ([[1.0, 2.0, 3.0], [2.0, 4.0, 1.0], [1.0, 1.0, 1.0]], [1.0, 1.0, 1.0]),
    ([[0.02, 0.01, 0., 0.], [1., 2., 1., 0.], [0., 1., 2., 1.],
      [0., 0., 100., 200.]], [0.02, 1., 4., 800.]),
    ([[1.0, 1.0, 1.0, 1.0], [1.0, 1.0, 2.0, 3.0], [2.0, 3.0, 1.0, 1.0],
      [3.0, 1.0, 2.0, 2.0]], [1.0, 2.0, 3.0, 4.0]),
    ([[2.0]], [4.0]),
    ([[1.0, 2.0], [2.0, 4.0]], [1.0, 2.0]),
    ([[1.0, 2.0], [2.0, 4.0]], [1.0, 3.0]),
]


# ------------------------------------------------------------- generators
def _ints(draw, k, lo=-8, hi=8):
    return draw(st.lists(st.integers(lo, hi), min_size=k, max_size=k))


def _dd(draw, n, den=8.0):
    """strictly diagonally dominant n x n (list of rows)."""
    v = _ints(draw, n * n)
    sg = draw(st.lists(st.sampled_from([-1.0, 1.0]), min_size=n, max_size=n))
    ex = draw(st.lists(st.integers(1, 8), min_size=n, max_size=n))
    A = [[v[n * i + j] / den for j in range(n)] for i in range(n)]
    for i in range(n):
        s = sum(abs(A[i][j]) for j in range(n) if j != i)
        A[i][i] = sg[i] * (s + ex[i] / den)
    return A


def _perm(draw, n):
    return list(draw(st.permutations(list(range(n)))))


TINY = [0.0, 0.0, 1e-6, 1e-8, 1e-10, 1e-10, 1e-12, 1e-13, 1e-14, -1e-10]


@st.composite
def system_strategy(draw):
    fam = draw(st.sampled_from([
        'random', 'float', 'dd', 'perm_dd', 'perm_dd', 'lead_pivot',
        'lead_pivot', 'stage_pivot', 'stage_pivot', 'spd', 'row_scaled',
        'singular', 'near_singular', 'fixed', 'structured', 'structured',
        'col_scaled', 'rank_def', 'pivot_choice', 'pivot_choice']))
    n = draw(st.integers(1, NMAX))
    nb = draw(st.integers(1, NBMAX))
    info = {}
    b = None
    if fam == 'fixed':
        k = draw(st.integers(0, len(FIXED) - 1))
        A = [list(r) for r in FIXED[k][0]]
        n = len(A)
        b0 = FIXED[k][1]
        extra = _ints(draw, n * (nb - 1))
        b = [[b0[i]] + [float(extra[(nb - 1) * i + j])
                        for j in range(nb - 1)] for i in range(n)]
        info['fixed'] = k
    elif fam == 'random':
        v = _ints(draw, n * n, -16, 16)
        A = [[v[n * i + j] / 16.0 for j in range(n)] for i in range(n)]
    elif fam == 'float':
        v = draw(st.lists(st.floats(-1.0, 1.0), min_size=n * n,
                          max_size=n * n))
        A = [[v[n * i + j] for j in range(n)] for i in range(n)]
    elif fam == 'dd':
        A = _dd(draw, n)
    elif fam == 'perm_dd':
        D = _dd(draw, n)
        p = _perm(draw, n)
        A = [D[p[i]] for i in range(n)]
        info['perm'] = p
    elif fam == 'lead_pivot':
        n = max(n, 2)
        D = _dd(draw, n)
        A = [list(r) for r in D]
        A[0], A[1] = A[1], A[0]
        A[0][0] = draw(st.sampled_from(TINY))
        info['pivot'] = A[0][0]
    elif fam == 'stage_pivot':
        n = max(n, 2)
        k = draw(st.integers(0, n - 2))
        lv = _ints(draw, n * n, -4, 4)
        uv = _ints(draw, n * n, -4, 4)
        ud = draw(st.lists(st.sampled_from([-2.0, -1.0, -0.5, 0.5, 1.0, 2.0,
                                            4.0]), min_size=n, max_size=n))
        t = draw(st.sampled_from(TINY))
        L = [[(lv[n * i + j] / 4.0 if j < i else (1.0 if i == j else 0.0))
              for j in range(n)] for i in range(n)]
        U = [[(uv[n * i + j] / 4.0 if j > i else (ud[i] if i == j else 0.0))
              for j in range(n)] for i in range(n)]
        L[k + 1][k] = t
        A = [[sum(L[i][m] * U[m][j] for m in range(n)) for j in range(n)]
             for i in range(n)]
        A[k], A[k + 1] = A[k + 1], A[k]
        info['stage'] = k
        info['pivot'] = t
    elif fam == 'spd':
        g = _ints(draw, n * n, -4, 4)
        dl = draw(st.sampled_from([1.0, 0.25, 0.0625]))
        G = [[g[n * i + j] / 4.0 for j in range(n)] for i in range(n)]
        A = [[sum(G[i][m] * G[j][m] for m in range(n)) +
              (dl if i == j else 0.0) for j in range(n)] for i in range(n)]
    elif fam == 'row_scaled':
        D = _dd(draw, n)
        p = _perm(draw, n)
        e = draw(st.lists(st.integers(-6, 6), min_size=n, max_size=n))
        A = [[x * 10.0 ** e[i] for x in D[p[i]]] for i in range(n)]
        info['row_exp'] = e
        if draw(st.booleans()):
            bv = _ints(draw, n * nb)
            b = [[bv[nb * i + j] * 10.0 ** e[i] for j in range(nb)]
                 for i in range(n)]
    elif fam == 'pivot_choice':
        # At elimination stage k the diagonal entry is zero or tiny and
        # several rows below it are larger; the largest one is NOT the last
        # of them (a row further down holds a small entry eps with
        # |diagonal| < eps << largest).  The block is a row-permuted strictly
        # diagonally dominant matrix with two sub-dominant entries made
        # smaller, hence well conditioned whatever the choice.
        n = max(n, 3)
        k = draw(st.integers(0, n - 3))
        mb = n - k
        D = _dd(draw, mb)
        i0 = draw(st.integers(1, mb - 2))       # where the dominant row goes
        rest = list(draw(st.permutations(list(range(1, mb)))))
        order = rest[:i0] + [0] + rest[i0:]
        Bk = [list(D[r]) for r in order]
        t0 = draw(st.sampled_from([0.0, 0.0, 1e-14, -1e-15, 1e-9]))
        j0 = draw(st.integers(i0 + 1, mb - 1))
        ep = draw(st.sampled_from([1e-13, -1e-13, 1e-10, 1e-8, 1e-6, 1e-3]))
        if abs(ep) <= abs(t0):
            ep = 1e-3
        Bk[0][0] = t0
        Bk[j0][0] = ep
        uv = _ints(draw, n * n, -4, 4)
        ud = draw(st.lists(st.sampled_from([-2.0, -1.0, 0.5, 1.0, 2.0]),
                           min_size=n, max_size=n))
        A = [[0.0] * n for _ in range(n)]
        for i in range(k):
            for j in range(i, n):
                A[i][j] = ud[i] if i == j else uv[n * i + j] / 4.0
        for i in range(mb):
            for j in range(mb):
                A[k + i][k + j] = Bk[i][j]
        info.update(stage=k, diag=t0, last_larger=ep, largest_at=i0,
                    small_at=j0)
    elif fam == 'structured':
        # identity / diagonal / triangular / permutation-like matrices: many
        # exact zeros, zeros on the diagonal, every entry exactly representable
        kind = draw(st.sampled_from([
            'identity', 'scalar', 'diagonal', 'upper', 'lower', 'perm',
            'perm_diag', 'antidiag', 'hollow', 'tridiag', 'perm_upper',
            'perm_lower']))
        info['kind'] = kind
        nz = [-4.0, -2.0, -1.0, -0.5, 0.5, 1.0, 2.0, 3.0, 0.25]
        dg = draw(st.lists(st.sampled_from(nz), min_size=n, max_size=n))
        ov = _ints(draw, n * n, -4, 4)
        p = _perm(draw, n)
        Z = [[0.0] * n for _ in range(n)]
        if kind == 'identity':
            A = [[1.0 if i == j else 0.0 for j in range(n)] for i in range(n)]
        elif kind == 'scalar':
            A = [[dg[0] if i == j else 0.0 for j in range(n)]
                 for i in range(n)]
        elif kind == 'diagonal':
            A = [[dg[i] if i == j else 0.0 for j in range(n)]
                 for i in range(n)]
        elif kind in ('upper', 'perm_upper'):
            A = [[(dg[i] if i == j else (ov[n * i + j] / 4.0 if j > i else
                                         0.0)) for j in range(n)]
                 for i in range(n)]
        elif kind in ('lower', 'perm_lower'):
            A = [[(dg[i] if i == j else (ov[n * i + j] / 4.0 if j < i else
                                         0.0)) for j in range(n)]
                 for i in range(n)]
        elif kind in ('perm', 'perm_diag'):
            A = [list(r) for r in Z]
            for i in range(n):
                A[i][p[i]] = 1.0 if kind == 'perm' else dg[i]
        elif kind == 'antidiag':
            A = [list(r) for r in Z]
            for i in range(n):
                A[i][n - 1 - i] = dg[i]
        elif kind == 'hollow':
            # zero diagonal, non-zero elsewhere (J - I is non-singular, n>=2)
            n = max(n, 2)
            sg = draw(st.sampled_from([1.0, -1.0, 0.5]))
            A = [[0.0 if i == j else sg for j in range(n)] for i in range(n)]
        else:   # tridiag
            dv = draw(st.sampled_from([2.0, 0.5, 0.0, -2.0, 1.0]))
            of = draw(st.sampled_from([-1.0, 1.0, 0.5]))
            A = [[dv if i == j else (of if abs(i - j) == 1 else 0.0)
                  for j in range(n)] for i in range(n)]
        if kind in ('perm_upper', 'perm_lower'):
            A = [A[p[i]] for i in range(len(A))]
        if draw(st.booleans()):
            # right-hand sides = leading columns of the identity (inverse)
            b = [[1.0 if i == j else 0.0 for j in range(nb)]
                 for i in range(n)]
            info['rhs'] = 'identity_columns'
    elif fam == 'col_scaled':
        D = _dd(draw, n)
        p = _perm(draw, n)
        e = draw(st.lists(st.integers(-4, 4), min_size=n, max_size=n))
        A = [[D[p[i]][j] * 10.0 ** e[j] for j in range(n)]
             for i in range(n)]
        info['col_exp'] = e
    elif fam == 'rank_def':
        # rank <= n-1 in other ways than one dependent row: zero matrix,
        # zero row / column, repeated rows / columns, rank 1, rank n-2
        kind = draw(st.sampled_from(['zero', 'zero_row', 'zero_col',
                                     'dup_rows', 'dup_cols', 'rank1',
                                     'two_dependent_rows']))
        info['kind'] = kind
        v = _ints(draw, n * n, -4, 4)
        A = [[float(v[n * i + j]) / 2.0 for j in range(n)] for i in range(n)]
        r0 = draw(st.integers(0, n - 1))
        r1 = draw(st.integers(0, n - 1))
        if kind == 'zero':
            A = [[0.0] * n for _ in range(n)]
        elif kind == 'zero_row':
            A[r0] = [0.0] * n
        elif kind == 'zero_col':
            for i in range(n):
                A[i][r0] = 0.0
        elif kind == 'dup_rows':
            A[r0] = list(A[r1])
        elif kind == 'dup_cols':
            for i in range(n):
                A[i][r0] = A[i][r1]
        elif kind == 'rank1':
            u = _ints(draw, n, -3, 3)
            w = _ints(draw, n, -3, 3)
            A = [[float(u[i] * w[j]) for j in range(n)] for i in range(n)]
        else:
            A[r0] = [2.0 * x for x in A[(r0 + 1) % n]]
            A[r1] = [-x for x in A[(r1 + 1) % n]]
    else:   # singular / near_singular: integer matrix of rank <= n-1
        v = _ints(draw, n * n, -4, 4)
        A = [[float(v[n * i + j]) for j in range(n)] for i in range(n)]
        r = draw(st.integers(0, n - 1))
        co = _ints(draw, n, -2, 2)
        bv = _ints(draw, n * nb)
        b = [[float(bv[nb * i + j]) for j in range(nb)] for i in range(n)]
        for j in range(n):
            A[r][j] = float(sum(co[i] * A[i][j] for i in range(n) if i != r))
        for j in range(nb):
            b[r][j] = float(sum(co[i] * b[i][j] for i in range(n) if i != r))
        cons = draw(st.booleans())
        if not cons:
            b[r][draw(st.integers(0, nb - 1))] += float(
                draw(st.sampled_from([1, -1, 3])))
        info['consistent'] = cons
        if fam == 'near_singular':
            ep = draw(st.sampled_from([1e-6, 1e-8, 1e-9, 1e-10, 1e-12,
                                       1e-14]))
            pv = _ints(draw, n * n, -4, 4)
            A = [[A[i][j] + ep * pv[n * i + j] for j in range(n)]
                 for i in range(n)]
            info['eps'] = ep
    if b is None and n <= NBMAX and draw(st.integers(0, 4)) == 0:
        # matrix inversion as crksph.py / magma2.py do it: nb = n, [A | I]
        nb = n
        b = [[1.0 if i == j else 0.0 for j in range(nb)] for i in range(n)]
        info['rhs'] = 'identity_columns'
    if b is None:
        bv = _ints(draw, n * nb)
        b = [[float(bv[nb * i + j]) for j in range(nb)] for i in range(n)]
    if fam not in ('fixed', 'singular'):
        sc = draw(st.sampled_from([1.0, 1.0, 1.0, 10.0, 0.1, 1e3, 1e-3, 0.5,
                                   3.0, 1e6, 1e9, 1e12, 1e-6, 1e-9, 1e-12]))
        if sc != 1.0:
            A = [[x * sc for x in r] for r in A]
            info['scale'] = sc
    nmax = draw(st.sampled_from([n, n, NMAX, draw(st.integers(n, NMAX))]))
    # A is handed over in the (nmax x nmax) layout augmented_matrix expects;
    # entries outside the n x n block are garbage that must be ignored.
    junk = draw(st.sampled_from([0.0, 99.0, -1e30]))
    Af = [junk] * (nmax * nmax)
    for i in range(n):
        for j in range(n):
            Af[nmax * i + j] = A[i][j]
    cv = _ints(draw, n * n)
    v1 = _ints(draw, n)
    v2 = draw(st.lists(st.floats(-4.0, 4.0), min_size=n, max_size=n))
    return dict(op='solve', family=fam, n=n, nb=nb, nmax=nmax, A=Af,
                b=[x for r in b for x in r],
                C=[c / 8.0 for c in cv], v1=[x / 4.0 for x in v1], v2=v2,
                info=info)


@st.composite
def eigen_strategy(draw):
    fam = draw(st.sampled_from([
        'random', 'random', 'float', 'diagonal', 'rank1', 'rank2',
        'double_exact', 'double_rot', 'triple', 'nearly_diag', 'zero',
        'graded', 'extreme', 'plane', 'plane', 'zero_diag']))
    base = fam
    if fam == 'extreme':
        base = draw(st.sampled_from(['random', 'double_exact', 'rank1',
                                     'nearly_diag', 'diagonal', 'plane',
                                     'zero_diag']))

    def sym(u):   # u: 6 numbers -> symmetric rows
        return [[u[0], u[3], u[4]], [u[3], u[1], u[5]], [u[4], u[5], u[2]]]
    info = {}
    if base == 'random':
        A = sym([x / 8.0 for x in _ints(draw, 6, -16, 16)])
    elif base == 'float':
        A = sym(draw(st.lists(st.floats(-1.0, 1.0), min_size=6, max_size=6)))
    elif base == 'diagonal':
        d = draw(st.lists(st.sampled_from([0.0, 1.0, 1.0, -1.0, 2.0, 0.5,
                                           3.0, -2.5, 1e-9]),
                          min_size=3, max_size=3))
        A = sym(d + [0.0, 0.0, 0.0])
    elif base in ('rank1', 'rank2'):
        v = _ints(draw, 3, -4, 4)
        w = _ints(draw, 3, -4, 4) if base == 'rank2' else [0, 0, 0]
        sg = draw(st.sampled_from([1.0, -1.0]))
        A = [[(v[i] * v[j] + sg * w[i] * w[j]) / 4.0 for j in range(3)]
             for i in range(3)]
    elif base == 'double_exact':
        # a I + c v v^T : eigenvalue a twice (exactly, before scaling)
        v = _ints(draw, 3, -3, 3)
        a = draw(st.sampled_from([0.0, 1.0, -1.0, 2.0, 0.5, 3.0]))
        c = draw(st.sampled_from([1.0, -1.0, 0.5, 0.25, 2.0 ** -20]))
        A = [[c * v[i] * v[j] + (a if i == j else 0.0) for j in range(3)]
             for i in range(3)]
    elif base in ('double_rot', 'triple'):
        th = [draw(st.floats(-3.2, 3.2)) for _ in range(3)]
        a = draw(st.sampled_from([1.0, -1.0, 2.0, 0.5, 0.0]))
        bb = draw(st.sampled_from([1.0, -1.0, 3.0, 0.25, 0.0,
                                   1.0 + 1e-9, 1.0 - 1e-13]))
        if base == 'triple':
            dd = [a, a, a]
            pert = draw(st.sampled_from([0.0, 0.0, 1e-15, 1e-12, 1e-9]))
            dd = [a, a + pert, a - pert]
        else:
            dd = [a, a, bb]
            k = draw(st.integers(0, 2))
            dd = dd[k:] + dd[:k]
        cx, sx = math.cos(th[0]), math.sin(th[0])
        cy, sy = math.cos(th[1]), math.sin(th[1])
        cz, sz = math.cos(th[2]), math.sin(th[2])
        Q = [[cy * cz, -cy * sz, sy],
             [sx * sy * cz + cx * sz, -sx * sy * sz + cx * cz, -sx * cy],
             [-cx * sy * cz + sx * sz, cx * sy * sz + sx * cz, cx * cy]]
        M = [[sum(Q[i][m] * dd[m] * Q[j][m] for m in range(3))
              for j in range(3)] for i in range(3)]
        A = [[0.5 * (M[i][j] + M[j][i]) for j in range(3)] for i in range(3)]
    elif base == 'graded':
        # entries of wildly different magnitude in one matrix
        u = _ints(draw, 6, -4, 4)
        ex = draw(st.lists(st.sampled_from([0, 0, 0, -5, -20, -100, -150,
                                            -158, -165, -200, -250, -280]),
                           min_size=6, max_size=6))
        A = sym([u[i] * 10.0 ** ex[i] for i in range(6)])
        info['exps'] = ex
    elif base == 'plane':
        # a 2D tensor embedded in 3x3: one axis decoupled from the other two
        # (plane strain / plane stress states of the solid-mechanics
        # equations); the third diagonal entry is zero, equal to a diagonal
        # entry or an eigenvalue of the block, or arbitrary
        axes = draw(st.sampled_from([(0, 1, 2), (0, 2, 1), (1, 2, 0)]))
        a, bq, c = [x / 4.0 for x in _ints(draw, 3, -8, 8)]
        if draw(st.integers(0, 3)) == 0:
            c = a               # equal diagonal: eigenvalues a +- b
        third = draw(st.sampled_from(['zero', 'zero', 'a', 'a+b', 'a-b',
                                      'any']))
        t = {'zero': 0.0, 'a': a, 'a+b': a + bq, 'a-b': a - bq,
             'any': draw(st.integers(-8, 8)) / 4.0}[third]
        A = [[0.0] * 3 for _ in range(3)]
        i, j, k = axes
        A[i][i], A[j][j], A[i][j], A[j][i], A[k][k] = a, c, bq, bq, t
        info['axes'] = list(axes)
        info['third'] = third
    elif base == 'zero_diag':
        # exact zeros on the whole diagonal (pure shear); some off-diagonal
        # entries may vanish too
        o = [x / 4.0 for x in _ints(draw, 3, -8, 8)]
        mask = draw(st.sampled_from([(1, 1, 1), (1, 1, 1), (1, 0, 0),
                                     (0, 1, 0), (0, 0, 1), (1, 1, 0),
                                     (1, 0, 1), (0, 1, 1)]))
        if draw(st.integers(0, 3)) == 0:
            o = [o[0], o[0], o[0]]      # J - I type: a double eigenvalue
        o = [x * m for x, m in zip(o, mask)]
        A = sym([0.0, 0.0, 0.0] + o)
    elif base == 'nearly_diag':
        d = [float(x) for x in _ints(draw, 3, -4, 4)]
        o = _ints(draw, 3, -4, 4)
        k = draw(st.sampled_from([3, 4, 5, 6, 8, 10, 12, 14, 16, 20]))
        A = sym(d + [x * 10.0 ** -k for x in o])
        info['offdiag_exp'] = -k
    else:
        A = [[0.0] * 3 for _ in range(3)]
    if fam == 'extreme':
        e = draw(st.integers(100, 150)) * draw(st.sampled_from([1, -1]))
        sc = 10.0 ** e
    else:
        kind = draw(st.sampled_from(['one', 'pow10', 'pow10', 'pow2']))
        e = draw(st.integers(-8, 8))
        sc = {'one': 1.0, 'pow10': 10.0 ** e,
              'pow2': 2.0 ** round(e * 3.3219)}[kind]
    info['scale'] = sc
    A = [[x * sc for x in r] for r in A]
    # domain: a non-zero entry is at least EIG_MIN_RATIO * max|A| (below that
    # tql2's shift (d[l+1]-d[l]) / (2 e[l]) overflows; see ASSUMPTIONS)
    amax = max(abs(x) for r in A for x in r)
    A = [[(x if abs(x) >= EIG_MIN_RATIO * amax else 0.0) for x in r]
         for r in A]
    # a general (not orthogonal, not symmetric) matrix for the transforms
    P = [x / 4.0 for x in _ints(draw, 9, -8, 8)]
    return dict(op='eig', family=fam, base=base, A=A, info=info, P=P)


# ---------------------------------------------------------------- helpers
def _bits(x):
    x = float(x)
    if x != x:
        return 'nan'
    return struct.pack('<d', x)


def same_bits(a, b):
    return len(a) == len(b) and all(_bits(x) == _bits(y)
                                    for x, y in zip(a, b))


def first_diff(a, b):
    for i, (x, y) in enumerate(zip(a, b)):
        if _bits(x) != _bits(y):
            return i, x, y
    return None


def noexch_profile(A, n):
    """Run elimination without row exchange; return (min over stages of
    |pivot| / max|column at and below the pivot|, smallest |pivot|).  A
    stage whose column is entirely zero counts as ratio 0."""
    M = [list(map(float, r)) for r in A]
    worst = 1.0
    pmin = math.inf
    for k in range(n):
        col = max(abs(M[i][k]) for i in range(k, n))
        p = abs(M[k][k])
        pmin = min(pmin, p)
        if k == n - 1:
            break
        ratio = p / col if col > 0 else 0.0
        worst = min(worst, ratio)
        if p == 0.0 or not math.isfinite(p):
            return 0.0, 0.0
        for i in range(k + 1, n):
            f = M[i][k] / M[k][k]
            for j in range(k, n):
                M[i][j] -= f * M[k][j]
    return worst, pmin


def pivot_class(worst, pmin):
    if pmin < 1e-12:
        return 'zero'       # gj_solve's literal test fires
    if worst < 1e-6:
        return 'tiny'
    if worst < 1.0:
        return 'smaller_than_column_max'
    return 'largest_in_column'


_EV = {}


def evaluator():
    """(SPHEvaluator, particle array) running checks/c13_eqs.LinalgProbe
    over 3 particles: 0 and 2 hold the case, 1 holds a fixed system."""
    if 'ev' not in _EV:
        import numpy as np
        from pysph.base.utils import get_particle_array
        from pysph.sph.equation import Group
        from pysph.tools.sph_evaluator import SPHEvaluator
        from checks.c13_eqs import LinalgProbe, PROPS
        K = 3
        pa = get_particle_array(name='sys', x=np.arange(K) * 1.0,
                                y=np.arange(K) * 0.5, z=np.zeros(K),
                                h=np.ones(K))
        for k, s in PROPS.items():
            pa.add_property(k, stride=s)
        ev = SPHEvaluator(
            [pa], [Group(equations=[LinalgProbe(dest='sys', sources=None)])],
            dim=3)
        _EV['ev'] = (ev, pa)
    return _EV['ev']


def python_run(case):
    """The helpers called as the equations/tests call them, on Python lists
    laid out exactly like the local buffers of LinalgProbe."""
    from pysph.sph.wc import linalg as la
    n, nb, nmax = case['n'], case['nb'], case['nmax']
    a = [0.0] * SA
    a[:nmax * nmax] = [float(x) for x in case['A']]
    b = [0.0] * SB
    b[:n * nb] = [float(x) for x in case['b']]
    c = [0.0] * SA
    c[:n * n] = [float(x) for x in case['C']]
    v1 = [0.0] * NMAX
    v1[:n] = [float(x) for x in case['v1']]
    v2 = [0.0] * NMAX
    v2[:n] = [float(x) for x in case['v2']]
    out = dict(inputs=dict(a=a, b=b, c=c, v1=v1, v2=v2), exc={})
    m = [SENT] * SM
    la.augmented_matrix(a, b, n, nb, nmax, m)
    out['aug'] = list(m)
    res = [SENT] * SB
    try:
        out['rc'] = la.gj_solve(m, n, nb, res)
    except (ZeroDivisionError, OverflowError, ValueError) as ex:
        out['exc']['gj_solve'] = repr(ex)
        out['rc'] = None
    out['work'] = list(m)
    out['sol'] = list(res)
    r = [SENT] * SA
    la.mat_mult(a, c, n, r)
    out['mm'] = r
    r = [SENT] * NMAX
    la.mat_vec_mult(a, v1, n, r)
    out['mv'] = r
    r = [SENT] * SA
    la.identity(r, n)
    out['ident'] = r
    out['dotr'] = la.dot(v1, v2, n)
    return out


def compiled_run(case, inputs):
    import numpy as np
    ev, pa = evaluator()
    K = 3
    n, nb, nmax = case['n'], case['nb'], case['nmax']

    def fill(name, stride, vals, other):
        arr = getattr(pa, name).reshape(K, stride)
        arr[0, :] = vals
        arr[2, :] = vals
        arr[1, :] = other
    pa.pn[:] = [n, 2, n]
    pa.pnb[:] = [nb, 1, nb]
    pa.pnmax[:] = [nmax, 2, nmax]
    oa = np.zeros(SA)
    oa[:4] = [0.5, 1.0, 1.0, 0.25]
    ob = np.zeros(SB)
    ob[:2] = [2.0, 3.0]
    fill('amat', SA, inputs['a'], oa)
    fill('bmat', SB, inputs['b'], ob)
    fill('cmat', SA, inputs['c'], oa)
    fill('vec1', NMAX, inputs['v1'], 1.0)
    fill('vec2', NMAX, inputs['v2'], 2.0)
    for name, stride in (('aug', SM), ('work', SM), ('sol', SB), ('mm', SA),
                         ('mv', NMAX), ('ident', SA)):
        getattr(pa, name)[:] = SENT
    pa.rc[:] = SENT
    pa.dotr[:] = SENT
    ev.evaluate()
    outs = []
    for p in (0, 2, 1):
        o = {}
        for name, stride in (('aug', SM), ('work', SM), ('sol', SB),
                             ('mm', SA), ('mv', NMAX), ('ident', SA)):
            o[name] = getattr(pa, name).reshape(K, stride)[p].tolist()
        o['rc'] = float(pa.rc[p])
        o['dotr'] = float(pa.dotr[p])
        outs.append(o)
    return outs


def check_solve(case, want_compiled=True):
    import numpy as np
    labels = ['fam:' + case['family']]
    fails = []
    n, nb, nmax = case['n'], case['nb'], case['nmax']
    A = [[float(case['A'][nmax * i + j]) for j in range(n)] for i in range(n)]
    B = [[float(case['b'][nb * i + j]) for j in range(nb)] for i in range(n)]
    labels.append('n=%d' % n)
    labels.append('nb=%d' % nb)
    if nmax > n:
        labels.append('nmax_gt_n')
    info = case.get('info', {})
    if case['family'] == 'structured':
        labels.append('struct:' + info.get('kind', '?'))
    if case['family'] == 'rank_def':
        labels.append('rankdef:' + info.get('kind', '?'))
    if info.get('rhs') == 'identity_columns':
        labels.append('rhs_identity_columns')
        if nb == n:
            labels.append('inverse')
    if info.get('scale', 1.0) >= 1e6:
        labels.append('scale_big')
    if info.get('scale', 1.0) <= 1e-6:
        labels.append('scale_small')
    An = np.array(A, dtype=float).reshape(n, n)
    sv = np.linalg.svd(An, compute_uv=False)
    smax, smin = float(sv[0]), float(sv[-1])
    ratio = smin / smax if smax > 0 else 0.0
    cond = 1.0 / ratio if ratio > 0 else math.inf
    worst, pmin = noexch_profile(A, n)
    pcl = pivot_class(worst, pmin)
    nonsing = ratio > 1e-9 and smin > 1e-11
    if worst < 1e-6:
        labels.append('needs_exchange')
    if pcl == 'zero' and nonsing:
        labels.append('zero_pivot_noexch')
    if nonsing:
        labels.append('must_succeed')
    if case['family'] == 'singular':
        labels.append('singular_consistent' if case['info'].get('consistent')
                      else 'singular_inconsistent')
    kl = dict(noexch_pivot=pcl)

    try:
        py = python_run(case)
    except Exception as ex:
        fails.append(Failure('linalg.py', 'exception',
                             'helpers raised %r' % (ex,), {}))
        return fails, labels, False

    # ---- augmented_matrix / identity / products against numpy
    nt = n + nb
    exp_aug = [SENT] * SM
    for i in range(n):
        for j in range(n):
            exp_aug[nt * i + j] = A[i][j]
        for j in range(nb):
            exp_aug[nt * i + n + j] = B[i][j]
    if not same_bits(py['aug'], exp_aug):
        fails.append(Failure(
            'augmented_matrix', 'wrong_value',
            'first differing entry (index, got, expected): %r' % (
                first_diff(py['aug'], exp_aug),), {},
            expected=exp_aug[:nt * n], observed=py['aug'][:nt * n]))
    exp_id = [SENT] * SA
    for i in range(n):
        for j in range(n):
            exp_id[n * i + j] = 1.0 if i == j else 0.0
    if not same_bits(py['ident'], exp_id):
        fails.append(Failure('identity', 'wrong_value', '%r' % (
            first_diff(py['ident'], exp_id),), {}))
    a2 = np.array(py['inputs']['a'][:n * n]).reshape(n, n)
    c2 = np.array(py['inputs']['c'][:n * n]).reshape(n, n)
    v1 = np.array(py['inputs']['v1'][:n])
    v2 = np.array(py['inputs']['v2'][:n])
    tolf = (n + 1) * EPS
    if math.isfinite(float(np.abs(a2).max())) and \
            float(np.abs(a2).max()) < 1e100:
        mm = np.array(py['mm'][:n * n]).reshape(n, n)
        bound = tolf * (np.abs(a2) @ np.abs(c2)) + 1e-300
        if not np.all(np.abs(mm - a2 @ c2) <= bound) or \
                py['mm'][n * n:] != [SENT] * (SA - n * n):
            fails.append(Failure('mat_mult', 'wrong_value',
                                 'got %r expected %r' % (
                                     mm.tolist(), (a2 @ c2).tolist()), {}))
        mv = np.array(py['mv'][:n])
        bound = tolf * (np.abs(a2) @ np.abs(v1)) + 1e-300
        if not np.all(np.abs(mv - a2 @ v1) <= bound) or \
                py['mv'][n:] != [SENT] * (NMAX - n):
            fails.append(Failure('mat_vec_mult', 'wrong_value',
                                 'got %r expected %r' % (
                                     mv.tolist(), (a2 @ v1).tolist()), {}))
    bound = tolf * float(np.abs(v1) @ np.abs(v2)) + 1e-300
    if not abs(py['dotr'] - float(v1 @ v2)) <= bound:
        fails.append(Failure('dot', 'wrong_value', 'got %r expected %r' % (
            py['dotr'], float(v1 @ v2)), {}))

    # ---- gj_solve
    rc = py['rc']
    x = [[py['sol'][nb * i + j] for j in range(nb)] for i in range(n)]
    if 'gj_solve' in py['exc']:
        labels.append('py_exception')
        if nonsing:
            fails.append(Failure('gj_solve', 'exception',
                                 py['exc']['gj_solve'], kl))
    else:
        if rc != 0.0:
            labels.append('returned_nonzero')
            if nonsing:
                fails.append(Failure(
                    'gj_solve', 'reported_singular',
                    'returned %r for a matrix with sigma_min/sigma_max = '
                    '%.3g, sigma_min = %.3g (n=%d); pivot met by elimination '
                    'without row exchange: %s' % (rc, ratio, smin, n, pcl),
                    kl, expected='0.0', observed=repr(rc)))
        elif nonsing and cond <= 1e8:
            labels.append('residual_checked')
            if py['sol'][n * nb:] != [SENT] * (SB - n * nb):
                fails.append(Failure('gj_solve', 'wrote_outside_result',
                                     repr(py['sol']), {}))
            normA = max(sum(abs(v) for v in r) for r in A)
            for j in range(nb):
                xs = [x[i][j] for i in range(n)]
                if not all(math.isfinite(v) for v in xs):
                    fails.append(Failure(
                        'gj_solve', 'non_finite_solution',
                        'column %d: %r' % (j, xs), kl))
                    break
                res = 0.0
                for i in range(n):
                    s = -Fraction(B[i][j])
                    for k in range(n):
                        s += Fraction(A[i][k]) * Fraction(xs[k])
                    res = max(res, abs(float(s)))
                normx = max(abs(v) for v in xs)
                normb = max(abs(B[i][j]) for i in range(n))
                bound = 1e-11 * cond * (normA * normx + normb)
                if not res <= bound:
                    fails.append(Failure(
                        'gj_solve', 'residual',
                        'column %d: ||Ax-b||_inf = %.3g > bound %.3g (cond '
                        '%.3g, ||A|| %.3g, ||x|| %.3g, ||b|| %.3g); pivot '
                        'met by elimination without row exchange: %s'
                        % (j, res, bound, cond, normA, normx, normb, pcl),
                        kl, expected='<= %.3g' % bound,
                        observed='%.3g' % res))
                    break

    # ---- transpiled form
    if want_compiled:
        try:
            c0, c2_, c1 = compiled_run(case, py['inputs'])
        except Exception as ex:
            fails.append(Failure('transpiled', 'exception', repr(ex), {}))
            return fails, labels, False
        labels.append('transpiled_compared')
        for name in ('aug', 'work', 'sol', 'mm', 'mv', 'ident'):
            if not same_bits(c0[name], c2_[name]):
                fails.append(Failure(
                    'transpiled', 'particles_differ',
                    '%s: %r' % (name, first_diff(c0[name], c2_[name])), {}))
        # the fixed system on particle 1: [[.5,1],[1,.25]] x = [2,3]
        if c1['aug'][:6] != [0.5, 1.0, 2.0, 1.0, 0.25, 3.0] or \
                c1['ident'][:4] != [1.0, 0.0, 0.0, 1.0]:
            fails.append(Failure('transpiled', 'cross_talk',
                                 'fixed particle: %r' % (c1['aug'][:6],), {}))
        skip = set()
        if 'gj_solve' in py['exc']:
            skip = {'work', 'sol', 'rc'}
        for name in ('aug', 'work', 'sol', 'mm', 'mv', 'ident'):
            if name in skip:
                continue
            if not same_bits(c0[name], py[name]):
                comp = {'aug': 'augmented_matrix', 'work': 'gj_solve',
                        'sol': 'gj_solve', 'mm': 'mat_mult',
                        'mv': 'mat_vec_mult', 'ident': 'identity'}[name]
                fails.append(Failure(
                    comp + '.transpiled', 'differs_from_python',
                    '%s: first differing entry (index, compiled, python) = '
                    '%r' % (name, first_diff(c0[name], py[name])),
                    dict(output=name)))
        if 'rc' not in skip and _bits(c0['rc']) != _bits(py['rc']):
            fails.append(Failure(
                'gj_solve.transpiled', 'differs_from_python',
                'return value compiled %r python %r' % (c0['rc'], py['rc']),
                dict(output='rc')))
        if _bits(c0['dotr']) != _bits(py['dotr']):
            fails.append(Failure(
                'dot.transpiled', 'differs_from_python',
                'compiled %r python %r' % (c0['dotr'], py['dotr']),
                dict(output='dotr')))
    nontrivial = bool(worst < 1e-6 and ratio > 1e-9)
    return fails, labels, nontrivial


def gev_path(linalg3, A):
    """Which branch of linalg3.get_eigenvalvec handles A (re-derived from
    its dispatch: exactly diagonal / EISPACK routine / closed-form
    eigenvalues + cross-product eigenvectors)."""
    if A[0][1] == 0.0 and A[0][2] == 0.0 and A[1][2] == 0.0:
        return 'diagonal'
    try:
        e = [float(v) for v in linalg3.py_get_eigenvalues(A)]
    except Exception:
        return 'unknown'
    if e[0] != e[1] and e[1] != e[2] and e[0] != e[2]:
        return 'eispack'
    dg = A[0][0] ** 2 + A[1][1] ** 2 + A[2][2] ** 2
    od = A[0][1] ** 2 + A[0][2] ** 2 + A[1][2] ** 2
    if dg > 1e8 * od:
        return 'eispack'
    return 'closed_form_repeated'


def check_eig(case):
    import numpy as np
    from pysph.base import linalg3
    fam = case['family']
    labels = ['eig:' + fam]
    fails = []
    A = np.ascontiguousarray(np.array(case['A'], dtype=float).reshape(3, 3))
    A0 = A.copy()
    amax = float(np.abs(A).max())
    if 0.0 < amax < 1e-280:
        # the 1e-12 ||A|| tolerances fall below the underflow threshold
        return [], labels + ['eig_underflow_domain_unchecked'], False
    nA = amax * float(np.sqrt(((A / amax) ** 2).sum())) if amax > 0 else 0.0
    # reference eigenvalues: LAPACK itself loses 9 digits when entries near
    # 1e-157 stand next to entries of order 1 (underflow in its own
    # scaling), so entries below 1e-30 max|A| are dropped for the reference
    # only (a perturbation of 3e-30 ||A||, far below the 1e-12 tolerance)
    ref = np.linalg.eigvalsh(np.where(np.abs(A) < 1e-30 * amax, 0.0, A))
    gaps = [abs(ref[1] - ref[0]), abs(ref[2] - ref[1])]
    gapfree = nA > 0 and min(gaps) <= 1e-6 * nA
    if gapfree:
        labels.append('eig_gap_free')
    if 0 < nA < 1e-5:
        labels.append('eig_scaled_small')
    if nA > 1e5:
        labels.append('eig_scaled_large')
    nz = np.abs(A)[np.abs(A) > 0]
    tiny_entry = bool(len(nz) and float(nz.min()) < 1e-150 * amax)
    if tiny_entry:
        labels.append('eig_tiny_entry')
    ngap = 'gap_free' if gapfree else 'separated'
    if nA == 0:
        ngap = 'zero_matrix'
    for comp, fn in (('eigen_decomposition', 'py_eigen_decompose_eispack'),
                     ('get_eigenvalvec', 'py_get_eigenvalvec')):
        kl = dict(spectrum=ngap)
        if fam == 'extreme':
            kl['magnitude'] = 'extreme'
        if tiny_entry:
            kl['entries'] = 'ratio_below_1e-150'
        if comp == 'get_eigenvalvec':
            kl = dict(path=gev_path(linalg3, A))
            labels.append('gev_path:' + kl['path'])
        try:
            with np.errstate(all='ignore'):
                d, V = getattr(linalg3, fn)(A)
            d = np.array(d, dtype=float)
            V = np.array(V, dtype=float)
        except Exception as ex:
            fails.append(Failure(comp, 'exception', repr(ex), kl))
            continue
        if not np.array_equal(A, A0):
            fails.append(Failure(comp, 'input_modified', repr(A.tolist()),
                                 kl))
            A = A0.copy()
        if not (np.all(np.isfinite(d)) and np.all(np.isfinite(V))):
            fails.append(Failure(comp, 'non_finite',
                                 'd=%r V=%r' % (d.tolist(), V.tolist()), kl))
            continue
        with np.errstate(all='ignore'):
            orth = float(np.abs(V.T @ V - np.eye(3)).max())
            resid = float(np.abs(A @ V - V * d[None, :]).max())
            dv = float(np.abs(np.sort(d) - ref).max())
        if not orth <= 1e-12:
            fails.append(Failure(
                comp, 'not_orthonormal',
                'max|V^T V - I| = %.3g; V=%r d=%r' % (orth, V.tolist(),
                                                      d.tolist()), kl,
                expected='<= 1e-12', observed='%.3g' % orth))
        if not resid <= 1e-12 * nA:
            fails.append(Failure(
                comp, 'not_eigenpairs',
                'max|A V - V diag(d)| = %.3g, ||A||_F = %.3g; d=%r' % (
                    resid, nA, d.tolist()), kl,
                expected='<= %.3g' % (1e-12 * nA), observed='%.3g' % resid))
        if not dv <= 1e-12 * nA:
            fails.append(Failure(
                comp, 'wrong_eigenvalues',
                'sorted d %r, numpy %r' % (np.sort(d).tolist(),
                                           ref.tolist()), kl))
        if comp == 'eigen_decomposition':
            try:
                with np.errstate(all='ignore'):
                    R = np.array(linalg3.py_transform_diag_inv(
                        np.ascontiguousarray(d), np.ascontiguousarray(V)))
                    Rn = (V * d[None, :]) @ V.T
                    scale = float(np.abs(d).max())
                if not np.all(np.abs(R - Rn) <= 16 * EPS * scale * 3):
                    fails.append(Failure(
                        'transform_diag_inv', 'wrong_value',
                        'got %r expected %r' % (R.tolist(), Rn.tolist()),
                        {}))
                if not fails and not np.all(np.abs(R - A) <=
                                            3e-12 * nA):
                    fails.append(Failure(
                        'transform_diag_inv', 'does_not_reconstruct',
                        'V diag(d) V^T = %r, A = %r' % (R.tolist(),
                                                        A.tolist()), kl))
            except Exception as ex:
                fails.append(Failure('transform_diag_inv', 'exception',
                                     repr(ex), {}))
    if case.get('P') is not None:
        fails.extend(check_transforms(linalg3, A0, amax, case['P'], labels))
    return fails, labels, bool(gapfree)


def check_transforms(linalg3, A, amax, Pflat, labels):
    """py_det, py_transform, py_transform_diag, py_transform_diag_inv against
    the formulas in their docstrings (P.T A P, P.T diag(a) P, P diag(a) P.T,
    determinant of a symmetric matrix) for a general matrix P."""
    import numpy as np
    fails = []
    P = np.ascontiguousarray(np.array(Pflat, dtype=float).reshape(3, 3))
    A = np.ascontiguousarray(A.copy())
    a = np.ascontiguousarray(np.diag(A).copy())
    aP, aA = np.abs(P), np.abs(A)
    tiny = 1e-300
    labels.append('transforms_checked')
    with np.errstate(all='ignore'):
        todo = [
            ('transform', lambda: linalg3.py_transform(A, P),
             P.T @ A @ P, aP.T @ aA @ aP),
            ('transform_diag', lambda: linalg3.py_transform_diag(a, P),
             P.T @ np.diag(a) @ P, aP.T @ np.diag(np.abs(a)) @ aP),
            ('transform_diag_inv',
             lambda: linalg3.py_transform_diag_inv(a, P),
             P @ np.diag(a) @ P.T, aP @ np.diag(np.abs(a)) @ aP.T),
        ]
        for comp, fn, exp, mag in todo:
            try:
                got = np.array(fn(), dtype=float)
            except Exception as ex:
                fails.append(Failure(comp, 'exception', repr(ex), {}))
                continue
            if not np.all(np.abs(got - exp) <= 32 * EPS * mag + tiny):
                fails.append(Failure(
                    comp, 'wrong_value', 'A=%r (diag %r) P=%r: got %r '
                    'expected %r' % (A.tolist(), a.tolist(), P.tolist(),
                                     got.tolist(), exp.tolist()),
                    dict(general_P=True)))
    # determinant: products of three entries must neither overflow nor fall
    # into the subnormal range
    if amax == 0.0 or 1e-90 <= amax <= 1e90:
        labels.append('det_checked')
        F = [[Fraction(float(x)) for x in r] for r in A.tolist()]
        terms = [F[0][0] * F[1][1] * F[2][2], 2 * F[1][2] * F[0][2] * F[0][1],
                 -F[0][0] * F[1][2] * F[1][2], -F[1][1] * F[0][2] * F[0][2],
                 -F[2][2] * F[0][1] * F[0][1]]
        exact = sum(terms)
        mag = float(sum(abs(t) for t in terms))
        try:
            got = float(linalg3.py_det(A))
            if not abs(Fraction(got) - exact) <= Fraction(
                    16 * EPS * mag + tiny):
                fails.append(Failure(
                    'det', 'wrong_value', 'A=%r: got %r expected %r' % (
                        A.tolist(), got, float(exact)), {}))
        except Exception as ex:
            fails.append(Failure('det', 'exception', repr(ex), {}))
    return fails


def check(case, want_compiled=True):
    if case.get('op') == 'eig':
        return check_eig(case)
    return check_solve(case, want_compiled)


def execute(case):
    fails, labels, nt = check(case)
    return Outcome(fails, sorted(set(labels)), nt)


# ------------------------------------------------------------------ driver
NSYS, NEIG = 13, 3


def plan(ctx):
    quick = ctx['tier'] == 'quick'
    # (budgets raised with the number of families so that the older
    # families keep their share)
    nsys = 7000 if quick else 500000
    neig = 3700 if quick else 300000
    # compile the probe equation once, before the shards start (they then
    # all load the cached module)
    try:
        subprocess.run([sys.executable, '-c',
                        'from checks.c13_linalg import evaluator; '
                        'evaluator()'], cwd=VERIF, timeout=900,
                       stdout=subprocess.DEVNULL, stderr=subprocess.DEVNULL)
    except Exception:
        pass
    specs = [dict(name='sys-%02d' % i, kind='sys',
                  max_examples=nsys // NSYS, component='transpiled')
             for i in range(NSYS)]
    specs += [dict(name='eig-%02d' % i, kind='eig',
                   max_examples=neig // NEIG, component='linalg3')
              for i in range(NEIG)]
    return specs


def run_shard(spec, ctx):
    stats = Stats()
    if spec['kind'] == 'sys':
        evaluator()
        strat = system_strategy()
    else:
        strat = eigen_strategy()
    search(strat, execute, derive_seed(ctx.seed, 'C13', spec['name']),
           spec['max_examples'], stats, shrink=True, journal=ctx.journal)
    stats.extra['jit_compiles'] = 1 if spec['name'] == 'sys-00' else 0
    return stats.result()


def run_case(case, component, ctx):
    fails, _, _ = check(case)
    return [f.as_dict(case) for f in fails]
